fn main() {
    vcore::runner::main_for(fam_ics20::Ics20Family)
}
