fn main() {
    let args: Vec<String> = std::env::args().collect();
    if args.len() == 3 && args[1] == "packet-seeds" {
        // seed corpus of the ics20_packet_bytes fuzz target
        std::fs::create_dir_all(&args[2]).expect("mkdir");
        for (i, s) in fam_ics20::raw_packet_seeds().into_iter().enumerate() {
            std::fs::write(format!("{}/packet-{i}.json", args[2]), s).expect("write");
        }
        return;
    }
    vcore::runner::main_for(fam_ics20::Ics20Family)
}
