//! Chain driver for cw20-ics20: cw-multi-test App with
//!  * a sudo shim around the real contract that calls the real `ibc_*` entry points and turns
//!    their responses into a `Response` (sub-messages kept, acknowledgement in `data`), so that
//!    cw-multi-test dispatches the payout sub-message, calls the real `reply` on failure and lets
//!    the reply's data override the acknowledgement (wasmd semantics);
//!  * a recording IBC module (every `IbcMsg::SendPacket` is written to transactional storage);
//!  * fault switches owned by the case: a bank that refuses sends to "blocked" recipients and a
//!    cw20-base whose `Transfer` fails while a flag is set.
use cosmwasm_std::{
    to_json_binary, Addr, Api, BankMsg, BankQuery, Binary, BlockInfo, CustomMsg, CustomQuery, Deps,
    DepsMut, Empty, Env, IbcChannelConnectMsg, IbcMsg, IbcPacketAckMsg, IbcPacketReceiveMsg,
    IbcPacketTimeoutMsg, IbcQuery, IbcTimeout, MessageInfo, Querier, Response, StdError, StdResult,
    Storage, SubMsg,
};
use cw_multi_test::error::{bail, AnyResult};
use cw_multi_test::{
    App, AppBuilder, AppResponse, Bank, BankKeeper, BankSudo, Contract, ContractWrapper, CosmosRouter,
    DistributionKeeper, Executor, FailingModule, GovFailingModule, Ibc, Module, StakeKeeper,
    StargateFailingModule, WasmKeeper,
};
use cw_storage_plus::Item;
use serde::de::DeserializeOwned;
use serde::{Deserialize, Serialize};
use std::cell::RefCell;
use std::collections::BTreeSet;
use std::panic::{catch_unwind, AssertUnwindSafe};

thread_local! {
    /// bank recipients that currently refuse funds (fault switch of the case)
    pub static BLOCKED: RefCell<BTreeSet<String>> = const { RefCell::new(BTreeSet::new()) };
    /// sub-messages returned by the last shim call
    pub static SUBLOG: RefCell<Vec<SubLog>> = const { RefCell::new(Vec::new()) };
    /// the next n cw20 transfers fail as if they had run into their gas limit - whatever happens to the
    /// failing call's storage (this counter is not part of any contract's state, so a second attempt in
    /// the same transaction gets through)
    pub static FAIL_NEXT: std::cell::Cell<u32> = const { std::cell::Cell::new(0) };
}

#[derive(Clone, Debug, PartialEq)]
pub struct SubLog {
    pub id: u64,
    pub gas_limit: Option<u64>,
    pub msg: cosmwasm_std::CosmosMsg,
}

// ------------------------------------------------------------------ bank with blocked recipients

pub struct FaultyBank {
    inner: BankKeeper,
}

impl FaultyBank {
    pub fn new() -> Self {
        FaultyBank { inner: BankKeeper::new() }
    }
}

impl Default for FaultyBank {
    fn default() -> Self {
        Self::new()
    }
}

impl Module for FaultyBank {
    type ExecT = BankMsg;
    type QueryT = BankQuery;
    type SudoT = BankSudo;

    fn execute<ExecC, QueryC>(&self, api: &dyn Api, storage: &mut dyn Storage, router: &dyn CosmosRouter<ExecC = ExecC, QueryC = QueryC>, block: &BlockInfo, sender: Addr, msg: BankMsg) -> AnyResult<AppResponse>
    where
        ExecC: CustomMsg + DeserializeOwned + 'static,
        QueryC: CustomQuery + DeserializeOwned + 'static,
    {
        if let BankMsg::Send { to_address, .. } = &msg {
            // the SDK bank refuses malformed recipients (cw-multi-test's BankKeeper does not check)
            if api.addr_validate(to_address).is_err() {
                bail!("bank: invalid recipient address {}", to_address);
            }
            let blocked = BLOCKED.with(|b| b.borrow().contains(to_address));
            if blocked {
                bail!("bank: recipient {} refuses funds (injected fault)", to_address);
            }
        }
        self.inner.execute(api, storage, router, block, sender, msg)
    }

    fn query(&self, api: &dyn Api, storage: &dyn Storage, querier: &dyn Querier, block: &BlockInfo, request: BankQuery) -> AnyResult<Binary> {
        self.inner.query(api, storage, querier, block, request)
    }

    fn sudo<ExecC, QueryC>(&self, api: &dyn Api, storage: &mut dyn Storage, router: &dyn CosmosRouter<ExecC = ExecC, QueryC = QueryC>, block: &BlockInfo, msg: BankSudo) -> AnyResult<AppResponse>
    where
        ExecC: CustomMsg + DeserializeOwned + 'static,
        QueryC: CustomQuery + DeserializeOwned + 'static,
    {
        self.inner.sudo(api, storage, router, block, msg)
    }
}

impl Bank for FaultyBank {}

// ------------------------------------------------------------------ recording IBC module

#[derive(Serialize, Deserialize, Clone, Debug, PartialEq)]
pub struct SentPacket {
    pub sender: String,
    pub channel_id: String,
    pub data: Binary,
    pub timeout: IbcTimeout,
}

const SENT: Item<Vec<SentPacket>> = Item::new("verif_ibc_sent_packets");

pub struct RecIbc;

impl Module for RecIbc {
    type ExecT = IbcMsg;
    type QueryT = IbcQuery;
    type SudoT = Empty;

    fn execute<ExecC, QueryC>(&self, _api: &dyn Api, storage: &mut dyn Storage, _router: &dyn CosmosRouter<ExecC = ExecC, QueryC = QueryC>, _block: &BlockInfo, sender: Addr, msg: IbcMsg) -> AnyResult<AppResponse>
    where
        ExecC: CustomMsg + DeserializeOwned + 'static,
        QueryC: CustomQuery + DeserializeOwned + 'static,
    {
        match msg {
            IbcMsg::SendPacket { channel_id, data, timeout } => {
                let mut v = SENT.may_load(storage)?.unwrap_or_default();
                v.push(SentPacket { sender: sender.to_string(), channel_id, data, timeout });
                SENT.save(storage, &v)?;
                Ok(AppResponse::default())
            }
            other => bail!("ibc module: unsupported message {:?}", other),
        }
    }

    fn query(&self, _api: &dyn Api, _storage: &dyn Storage, _querier: &dyn Querier, _block: &BlockInfo, request: IbcQuery) -> AnyResult<Binary> {
        bail!("ibc module: unsupported query {:?}", request)
    }

    fn sudo<ExecC, QueryC>(&self, _api: &dyn Api, _storage: &mut dyn Storage, _router: &dyn CosmosRouter<ExecC = ExecC, QueryC = QueryC>, _block: &BlockInfo, _msg: Empty) -> AnyResult<AppResponse>
    where
        ExecC: CustomMsg + DeserializeOwned + 'static,
        QueryC: CustomQuery + DeserializeOwned + 'static,
    {
        bail!("ibc module: no sudo")
    }
}

impl Ibc for RecIbc {}

pub type IApp = App<FaultyBank, cosmwasm_std::testing::MockApi, cosmwasm_std::testing::MockStorage, FailingModule<Empty, Empty, Empty>, WasmKeeper<Empty, Empty>, StakeKeeper, DistributionKeeper, RecIbc, GovFailingModule, StargateFailingModule>;

pub fn new_app() -> IApp {
    BLOCKED.with(|b| b.borrow_mut().clear());
    SUBLOG.with(|l| l.borrow_mut().clear());
    set_fail_next(0);
    AppBuilder::new().with_bank(FaultyBank::new()).with_ibc(RecIbc).build(|_, _, _| {})
}

pub fn sent_packets(app: &IApp) -> Vec<SentPacket> {
    app.read_module(|_, _, storage| SENT.may_load(storage).ok().flatten().unwrap_or_default())
}

// ------------------------------------------------------------------ ics20 with sudo shim

#[derive(Serialize, Deserialize, Clone, Debug)]
#[serde(rename_all = "snake_case")]
pub enum Shim {
    ChannelConnect { msg: IbcChannelConnectMsg },
    Receive { msg: IbcPacketReceiveMsg },
    Ack { msg: IbcPacketAckMsg },
    Timeout { msg: IbcPacketTimeoutMsg },
    RawSet { key: Binary, value: Binary },
    RawRemove { key: Binary },
}

fn log_subs(subs: &[SubMsg]) {
    SUBLOG.with(|l| {
        let mut l = l.borrow_mut();
        for s in subs {
            l.push(SubLog { id: s.id, gas_limit: s.gas_limit, msg: s.msg.clone() });
        }
    });
}

fn shim_sudo(deps: DepsMut, env: Env, msg: Shim) -> StdResult<Response> {
    let conv = |e: cw20_ics20::ContractError| StdError::generic_err(e.to_string());
    match msg {
        Shim::ChannelConnect { msg } => {
            let r = cw20_ics20::ibc::ibc_channel_connect(deps, env, msg).map_err(conv)?;
            Ok(Response::new().add_submessages(r.messages).add_attributes(r.attributes).add_events(r.events))
        }
        Shim::Receive { msg } => {
            let r = match cw20_ics20::ibc::ibc_packet_receive(deps, env, msg) {
                Ok(r) => r,
                Err(never) => match never {},
            };
            log_subs(&r.messages);
            let mut resp = Response::new().add_submessages(r.messages).add_attributes(r.attributes).add_events(r.events);
            if let Some(ack) = r.acknowledgement {
                resp = resp.set_data(ack);
            }
            Ok(resp)
        }
        Shim::Ack { msg } => {
            let r = cw20_ics20::ibc::ibc_packet_ack(deps, env, msg).map_err(conv)?;
            log_subs(&r.messages);
            Ok(Response::new().add_submessages(r.messages).add_attributes(r.attributes).add_events(r.events))
        }
        Shim::Timeout { msg } => {
            let r = cw20_ics20::ibc::ibc_packet_timeout(deps, env, msg).map_err(conv)?;
            log_subs(&r.messages);
            Ok(Response::new().add_submessages(r.messages).add_attributes(r.attributes).add_events(r.events))
        }
        Shim::RawSet { key, value } => {
            deps.storage.set(key.as_slice(), value.as_slice());
            Ok(Response::new())
        }
        Shim::RawRemove { key } => {
            deps.storage.remove(key.as_slice());
            Ok(Response::new())
        }
    }
}

/// `reply` with the messages it returns recorded like those of the ibc entry points
fn shim_reply(deps: DepsMut, env: Env, msg: cosmwasm_std::Reply) -> Result<Response, cw20_ics20::ContractError> {
    let r = cw20_ics20::ibc::reply(deps, env, msg)?;
    log_subs(&r.messages);
    Ok(r)
}

pub fn ics20_contract() -> Box<dyn Contract<Empty>> {
    Box::new(
        ContractWrapper::new(cw20_ics20::contract::execute, cw20_ics20::contract::instantiate, cw20_ics20::contract::query)
            .with_reply(shim_reply)
            .with_migrate(cw20_ics20::contract::migrate)
            .with_sudo(shim_sudo),
    )
}

// ------------------------------------------------------------------ cw20-base whose Transfer can be made to fail

const FLAKY: Item<bool> = Item::new("verif_flaky");
const FLAKY_QUERY: Item<bool> = Item::new("verif_flaky_query");

#[derive(Serialize, Deserialize, Clone, Debug)]
#[serde(rename_all = "snake_case")]
pub enum FlakyCtl {
    Set { on: bool },
    /// Balance queries fail while on (a token contract that cannot be reached)
    SetQuery { on: bool },
}

pub fn set_fail_next(n: u32) {
    FAIL_NEXT.with(|c| c.set(n));
}

fn flaky_execute(deps: DepsMut, env: Env, info: MessageInfo, msg: cw20::Cw20ExecuteMsg) -> Result<Response, cw20_base::ContractError> {
    if matches!(msg, cw20::Cw20ExecuteMsg::Transfer { .. }) && FAIL_NEXT.with(|c| c.get()) > 0 {
        FAIL_NEXT.with(|c| c.set(c.get() - 1));
        return Err(StdError::generic_err("codespace: sdk, code: 11: out of gas (injected one-shot fault)").into());
    }
    if let cw20::Cw20ExecuteMsg::Transfer { amount, .. } = &msg {
        if FLAKY.may_load(deps.storage)?.unwrap_or(false) {
            // two kinds of failure text: a plain refusal, and (for even amounts) what a sub-call that ran into
            // its gas limit reports
            let text = if amount.u128() % 2 == 0 { "codespace: sdk, code: 11: out of gas (injected fault)" } else { "flaky cw20: transfers are switched off (injected fault)" };
            return Err(StdError::generic_err(text).into());
        }
    }
    cw20_base::contract::execute(deps, env, info, msg)
}

fn flaky_sudo(deps: DepsMut, _env: Env, msg: FlakyCtl) -> StdResult<Response> {
    match msg {
        FlakyCtl::Set { on } => FLAKY.save(deps.storage, &on)?,
        FlakyCtl::SetQuery { on } => FLAKY_QUERY.save(deps.storage, &on)?,
    }
    Ok(Response::new())
}

fn flaky_query(deps: Deps, env: Env, msg: cw20_base::msg::QueryMsg) -> StdResult<Binary> {
    if matches!(msg, cw20_base::msg::QueryMsg::Balance { .. }) && FLAKY_QUERY.may_load(deps.storage)?.unwrap_or(false) {
        return Err(StdError::generic_err("flaky cw20: balance queries are switched off (injected fault)"));
    }
    cw20_base::contract::query(deps, env, msg)
}

pub fn flaky_cw20_contract() -> Box<dyn Contract<Empty>> {
    Box::new(ContractWrapper::new(flaky_execute, cw20_base::contract::instantiate, flaky_query).with_sudo(flaky_sudo))
}

// ------------------------------------------------------------------ panic-safe calls

fn panic_text(p: Box<dyn std::any::Any + Send>) -> String {
    if let Some(s) = p.downcast_ref::<&str>() {
        s.to_string()
    } else if let Some(s) = p.downcast_ref::<String>() {
        s.clone()
    } else {
        "non-string panic".into()
    }
}

pub fn try_exec<T: Serialize + std::fmt::Debug>(app: &mut IApp, sender: &Addr, contract: &Addr, msg: &T, funds: &[cosmwasm_std::Coin]) -> Result<AppResponse, String> {
    match catch_unwind(AssertUnwindSafe(|| app.execute_contract(sender.clone(), contract.clone(), msg, funds))) {
        Ok(Ok(r)) => Ok(r),
        Ok(Err(e)) => Err(format!("{:#}", e)),
        Err(p) => Err(format!("panic: {}", panic_text(p))),
    }
}

pub fn try_sudo<T: Serialize>(app: &mut IApp, contract: &Addr, msg: &T) -> Result<AppResponse, String> {
    SUBLOG.with(|l| l.borrow_mut().clear());
    match catch_unwind(AssertUnwindSafe(|| app.wasm_sudo(contract.clone(), msg))) {
        Ok(Ok(r)) => Ok(r),
        Ok(Err(e)) => Err(format!("{:#}", e)),
        Err(p) => Err(format!("panic: {}", panic_text(p))),
    }
}

pub fn try_migrate<T: Serialize>(app: &mut IApp, sender: &Addr, contract: &Addr, msg: &T, code: u64) -> Result<AppResponse, String> {
    match catch_unwind(AssertUnwindSafe(|| app.migrate_contract(sender.clone(), contract.clone(), msg, code))) {
        Ok(Ok(r)) => Ok(r),
        Ok(Err(e)) => Err(format!("{:#}", e)),
        Err(p) => Err(format!("panic: {}", panic_text(p))),
    }
}

pub fn try_query<T: DeserializeOwned, Q: Serialize>(app: &IApp, contract: &Addr, msg: &Q) -> Result<T, String> {
    match catch_unwind(AssertUnwindSafe(|| app.wrap().query_wasm_smart::<T>(contract.to_string(), msg))) {
        Ok(Ok(v)) => Ok(v),
        Ok(Err(e)) => Err(e.to_string()),
        Err(p) => Err(format!("panic: {}", panic_text(p))),
    }
}

pub fn sublog() -> Vec<SubLog> {
    SUBLOG.with(|l| l.borrow().clone())
}

pub fn set_blocked(addr: &str, on: bool) {
    BLOCKED.with(|b| {
        if on {
            b.borrow_mut().insert(addr.to_string());
        } else {
            b.borrow_mut().remove(addr);
        }
    });
}

pub fn bin<T: Serialize>(t: &T) -> Binary {
    to_json_binary(t).unwrap()
}
