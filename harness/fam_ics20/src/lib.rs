//! cw20-ics20 family: C11 (escrow covers outstanding vouchers, channel by channel; arbitrary
//! counterparty), C12 (channel balance identity, ack <=> effect, packet contents; honest
//! counterparty, governance configurations, legacy-storage upgrade arm), C18 (allow list is
//! governance-only and only loosens; payouts carry the right gas limit).
pub mod chain;

use chain::*;
use cosmwasm_std::Api;
use cosmwasm_std::{
    coins, to_json_binary, to_json_vec, Addr, Binary, Coin, IbcAcknowledgement, IbcChannel, IbcChannelConnectMsg, IbcEndpoint,
    IbcOrder, IbcPacket, IbcPacketAckMsg, IbcPacketReceiveMsg, IbcPacketTimeoutMsg, IbcTimeout, Uint128, WasmMsg,
};
use cw20::{BalanceResponse, Cw20Coin, Cw20ExecuteMsg, Cw20QueryMsg};
use cw20_ics20::msg::{AllowMsg, ExecuteMsg, InitMsg, MigrateMsg, QueryMsg, TransferMsg};
use cw_multi_test::{BankSudo, Executor, SudoMsg};
use cw_storage_plus::Map;
use proptest::prelude::*;
use serde::{Deserialize, Serialize};
use std::collections::BTreeMap;
use vcore::amounts::pick;
use vcore::{CaseCtx, Family, PropSpec, Tier, Violation};

pub const N_USERS: usize = 4;
pub const N_NATIVE: usize = 4;
pub const N_CW20: usize = 3;
pub const N_TOK: usize = N_NATIVE + N_CW20;
/// the third denom contains a slash and extends the first one (an LP-share style denom): everything after
/// the second slash of a voucher denom is the base denom
/// The fourth native denom is built per case: `factory/verif/cw20:<address of cw20 token 0>` - a bank coin
/// whose name merely *contains* the cw20 marker (it does not start with it, so the section 3 assumption
/// is untouched): it is a native coin through and through.
pub const NATIVE: [&str; 3] = ["uatom", "UATOM", "uatom/lp"];

/// the further denominations of a `dust` case
pub const N_DUST: usize = 33;
fn dust_denom(k: usize) -> String {
    format!("udust{k:02}")
}

fn native_denoms(cw20: &[Addr]) -> Vec<String> {
    let mut v: Vec<String> = NATIVE.iter().map(|s| s.to_string()).collect();
    v.push(format!("factory/verif/cw20:{}", cw20[0]));
    v
}
pub const DEFAULT_TIMEOUT: u64 = 1000;

// ------------------------------------------------------------------ case types

#[derive(Clone, Copy, Debug, Serialize, Deserialize, PartialEq)]
pub enum SendAmt {
    Abs(u128),
    /// k/256 of the sender's balance
    Frac(u8),
}

#[derive(Clone, Copy, Debug, Serialize, Deserialize, PartialEq)]
pub enum DenomForm {
    /// counterparty_port/counterparty_channel/<local denom>: the only redeemable form
    Right,
    /// <local denom> without any prefix (a token that "originated remotely")
    Bare,
    WrongPort,
    WrongChannel,
    /// prefix of another of our channels' counterparty
    OtherChannel(u8),
    /// the counterparty's channel id with one more digit appended (channel-1 -> channel-15)
    NearChannel,
    /// the counterparty's port with a suffix (transfer -> transferx)
    NearPort,
    /// the counterparty's port behind a contract-port namespace (transfer -> wasm.transfer)
    WasmPort,
    /// prefix applied twice
    Nested,
    /// right prefix, unknown base denom
    UnknownBase,
    /// our own end of the channel as prefix (<our port>/<our channel id>/<local denom>): on the other chain that
    /// is the trace of a token of theirs, not a voucher for ours
    OwnEnd,
}

#[derive(Clone, Copy, Debug, Serialize, Deserialize, PartialEq)]
pub enum RecvAmt {
    Abs(u128),
    /// outstanding balance of that channel/denom + delta
    Outstanding(i8),
    /// what the (honest) counterparty holds + delta
    RemoteHeld(i8),
    /// k/256 of the outstanding balance
    Frac(u8),
}

#[derive(Clone, Copy, Debug, Serialize, Deserialize, PartialEq)]
pub enum Who {
    Gov,
    Former(u8),
    User(u8),
    /// the chain-level (wasm module) admin of the ics20 contract: it may migrate the code, it is not governance
    ChainAdmin,
    /// cw20 token contract k itself (a contract can send messages too)
    Token(u8),
}

#[derive(Clone, Debug, Serialize, Deserialize, PartialEq)]
pub enum Op {
    SendNative { by: u8, ch: u8, denom: u8, amt: SendAmt, timeout: Option<u32>, memo: Option<String> },
    SendCw20 { by: u8, ch: u8, tok: u8, amt: SendAmt, timeout: Option<u32>, memo: Option<String> },
    /// the counterparty marks one of our in-flight packets as received (mints vouchers)
    Deliver { pkt: u16 },
    /// `live`: when set, (ch, tok) are replaced by the k-th (channel, token) pair that currently has an
    /// outstanding balance (malicious) / vouchers held by the counterparty (honest)
    Recv { ch: u8, tok: u8, live: Option<u16>, form: DenomForm, amt: RecvAmt, receiver: u8, payout_fails: bool, memo: bool },
    RecvRaw { ch: u8, bytes: Vec<u8> },
    Ack { pkt: u16, ok: bool, refund_fails: bool },
    Timeout { pkt: u16, refund_fails: bool },
    Allow { by: Who, tok: u8, gas: Option<u64> },
    UpdateAdmin { by: Who, to: u8 },
    /// `from`: 0 = the stored version stays the current one; 1.. = the contract was last stored by an older
    /// release whose layout is already the current one (1.1.0, 0.16.0, 0.13.1), i.e. a real version upgrade
    Migrate { default_gas: Option<u64>, #[serde(default)] from: u8 },
    Advance { secs: u16 },
    /// C18 only: an (ungated) native transfer of a bank coin whose denom is literally `cw20:<address of
    /// token tok>`, i.e. the key the contract also uses for that cw20 token's channel balance. Only the
    /// governance oracle of C18 is indifferent to such a coin; C11/C12 keep the domain assumption that
    /// native denoms do not start with "cw20:" and treat this op as a no-op.
    SendAlias { by: u8, ch: u8, tok: u8, amt: u16 },
}

#[derive(Clone, Debug, Serialize, Deserialize, PartialEq)]
pub struct Legacy {
    /// 0: 0.11.1 (v1 config), 1: 0.12.1, 2: 0.13.0 (v2: outstanding counts only acked sends)
    pub version: u8,
    /// per token: (acked amount booked in CHANNEL_STATE, in-flight amounts held but unbooked)
    pub tokens: Vec<(u8, u64, Vec<u32>)>,
    /// cw20 tokens (index 0..N_CW20) that are on the allow list of the legacy contract
    pub listed: Vec<bool>,
    pub migrate_default_gas: Option<u64>,
    /// the first cw20 token with a channel entry cannot be reached (its Balance query fails) while the
    /// migration runs: the migration then has to fail as a whole (nothing changes), it must not drop anything
    #[serde(default)]
    pub token_query_fails: bool,
    /// one-channel images: further channels (0-2) are opened after the upgrade went through
    #[serde(default)]
    pub late_channels: u8,
}

#[derive(Clone, Debug, Serialize, Deserialize, PartialEq)]
pub struct Case {
    pub channels: u8,
    pub allow: Vec<(u8, Option<u64>)>,
    pub default_gas: Option<u64>,
    pub legacy: Option<Legacy>,
    pub malicious: bool,
    pub ops: Vec<Op>,
    /// every local channel is connected to a counterparty endpoint of the same name (different remote
    /// chains number their channels independently)
    #[serde(default)]
    pub same_remote: bool,
    /// before the history starts, user 0 sends one unit each of 33 further native denominations over
    /// channel 0 (a channel that has carried more denominations than any page holds)
    #[serde(default)]
    pub dust: bool,
}

// ------------------------------------------------------------------ strategies

fn user() -> impl Strategy<Value = u8> {
    0u8..N_USERS as u8
}
fn gas() -> BoxedStrategy<Option<u64>> {
    prop_oneof![2 => Just(None), 1 => Just(Some(0u64)), 4 => (1u64..1_000_000).prop_map(Some), 1 => Just(Some(u64::MAX))].boxed()
}
fn send_amt() -> BoxedStrategy<SendAmt> {
    prop_oneof![
        12 => (1u128..2000).prop_map(SendAmt::Abs),
        1 => Just(SendAmt::Abs(0)),
        1 => Just(SendAmt::Abs(u64::MAX as u128)),
        1 => Just(SendAmt::Abs(u64::MAX as u128 + 1)),
        1 => Just(SendAmt::Abs(1u128 << 100)),
        2 => any::<u8>().prop_map(SendAmt::Frac),
    ]
    .boxed()
}
fn memo() -> BoxedStrategy<Option<String>> {
    prop_oneof![3 => Just(None), 1 => Just(Some(String::new())), 2 => "[a-z{}\":]{1,12}".prop_map(Some)].boxed()
}
fn who() -> BoxedStrategy<Who> {
    prop_oneof![8 => Just(Who::Gov), 4 => (0u8..3).prop_map(Who::Former), 4 => user().prop_map(Who::User), 1 => Just(Who::ChainAdmin), 2 => (0u8..=N_CW20 as u8).prop_map(Who::Token)].boxed()
}
fn form(malicious: bool) -> BoxedStrategy<DenomForm> {
    if malicious {
        prop_oneof![8 => Just(DenomForm::Right), 2 => Just(DenomForm::Bare), 2 => Just(DenomForm::WrongPort), 2 => Just(DenomForm::WrongChannel), 3 => (0u8..3).prop_map(DenomForm::OtherChannel), 2 => Just(DenomForm::NearChannel), 1 => Just(DenomForm::NearPort), 1 => Just(DenomForm::WasmPort), 1 => Just(DenomForm::Nested), 1 => Just(DenomForm::UnknownBase), 1 => Just(DenomForm::OwnEnd)].boxed()
    } else {
        prop_oneof![12 => Just(DenomForm::Right), 1 => Just(DenomForm::Bare)].boxed()
    }
}
fn recv_amt(malicious: bool) -> BoxedStrategy<RecvAmt> {
    if malicious {
        prop_oneof![
            4 => (0u128..2000).prop_map(RecvAmt::Abs),
            6 => (-2i8..=2).prop_map(RecvAmt::Outstanding),
            5 => any::<u8>().prop_map(RecvAmt::Frac),
            1 => Just(RecvAmt::Abs(u64::MAX as u128 + 7)),
            1 => Just(RecvAmt::Abs(u128::MAX)),
        ]
        .boxed()
    } else {
        prop_oneof![5 => (-1i8..=0).prop_map(RecvAmt::RemoteHeld), 6 => any::<u8>().prop_map(RecvAmt::Frac), 2 => (1u128..50).prop_map(RecvAmt::Abs)].boxed()
    }
}

fn op(prop: &str, malicious: bool) -> BoxedStrategy<Op> {
    let send_n = (user(), prop_oneof![15 => 0u8..3, 1 => Just(3u8)], 0u8..N_NATIVE as u8, send_amt(), prop_oneof![6 => Just(None), 1 => Just(Some(0u32)), 1 => Just(Some(1u32)), 3 => (1u32..5000).prop_map(Some)], memo()).prop_map(|(by, ch, denom, amt, timeout, memo)| Op::SendNative { by, ch, denom, amt, timeout, memo }).boxed();
    // (sender 200: the governance address itself sends tokens - honoured in C18 histories only)
    let send_c = (prop_oneof![12 => user().boxed(), 1 => Just(200u8).boxed()], prop_oneof![15 => 0u8..3, 1 => Just(3u8)], 0u8..N_CW20 as u8, send_amt(), prop_oneof![6 => Just(None), 1 => Just(Some(0u32)), 1 => Just(Some(1u32)), 3 => (1u32..5000).prop_map(Some)], memo()).prop_map(|(by, ch, tok, amt, timeout, memo)| Op::SendCw20 { by, ch, tok, amt, timeout, memo }).boxed();
    let deliver = any::<u16>().prop_map(|pkt| Op::Deliver { pkt }).boxed();
    let recv = (0u8..3, 0u8..N_TOK as u8, proptest::option::weighted(0.8, any::<u16>()), form(malicious), recv_amt(malicious), prop_oneof![12 => 0u8..N_USERS as u8, 1 => Just(N_USERS as u8), 1 => Just(N_USERS as u8 + 1)].boxed(), proptest::bool::weighted(0.2), proptest::bool::weighted(0.2))
        .prop_map(|(ch, tok, live, form, amt, receiver, payout_fails, memo)| Op::Recv { ch, tok, live, form, amt, receiver, payout_fails, memo })
        .boxed();
    // third arm: a well-formed packet whose denom trace names an odd, long, non-ASCII channel (error texts echo it)
    let odd = (0usize..6, 20usize..70, 0u8..N_USERS as u8, prop_oneof![Just("uatom"), Just("UATOM")]).prop_map(|(pad, n, rcv, base)| {
        format!(r#"{{"amount":"1","denom":"transfer/{}{}/{base}","receiver":"{}","sender":"remote"}}"#, "x".repeat(pad), "\u{20ac}".repeat(n), user_addr(rcv as usize)).into_bytes()
    });
    let raw = (0u8..3, prop_oneof![3 => proptest::collection::vec(any::<u8>(), 0..40), 3 => "[{}\":,a-z0-9]{0,60}".prop_map(|s| s.into_bytes()), 2 => odd]).prop_map(|(ch, bytes)| Op::RecvRaw { ch, bytes }).boxed();
    let ack = (any::<u16>(), proptest::bool::weighted(0.6), proptest::bool::weighted(0.25)).prop_map(|(pkt, ok, refund_fails)| Op::Ack { pkt, ok, refund_fails }).boxed();
    let timeout = (any::<u16>(), proptest::bool::weighted(0.25)).prop_map(|(pkt, refund_fails)| Op::Timeout { pkt, refund_fails }).boxed();
    let allow = (who(), 0u8..N_CW20 as u8, gas()).prop_map(|(by, tok, gas)| Op::Allow { by, tok, gas }).boxed();
    let upd = (who(), 0u8..3).prop_map(|(by, to)| Op::UpdateAdmin { by, to }).boxed();
    let mig = (gas(), prop_oneof![2 => Just(0u8), 3 => 1u8..4]).prop_map(|(default_gas, from)| Op::Migrate { default_gas, from }).boxed();
    let adv = (0u16..3000).prop_map(|secs| Op::Advance { secs }).boxed();
    let alias = (user(), 0u8..3, 0u8..N_CW20 as u8, any::<u16>()).prop_map(|(by, ch, tok, amt)| Op::SendAlias { by, ch, tok, amt }).boxed();
    match prop {
        "C18" => prop_oneof![2 => send_n, 2 => alias, 8 => send_c, 2 => deliver, 7 => recv, 4 => ack, 2 => timeout, 12 => allow, 4 => upd, 3 => mig, 1 => adv].boxed(),
        "C11" => prop_oneof![7 => send_n, 7 => send_c, 2 => deliver, 14 => recv, 1 => raw, 5 => ack, 3 => timeout, 1 => allow, 1 => adv].boxed(),
        _ => prop_oneof![7 => send_n, 7 => send_c, 4 => deliver, 12 => recv, 2 => raw, 6 => ack, 3 => timeout, 2 => allow, 1 => upd, 1 => mig, 1 => adv].boxed(),
    }
}

/// address of user i as the chain's api derives it (the same in every case)
fn user_addr(i: usize) -> String {
    static ADDRS: std::sync::OnceLock<Vec<String>> = std::sync::OnceLock::new();
    ADDRS.get_or_init(|| {
        let api = cosmwasm_std::testing::MockApi::default();
        (0..N_USERS).map(|k| api.addr_make(&format!("user{k}")).to_string()).collect()
    })[i % N_USERS]
        .clone()
}

fn legacy() -> BoxedStrategy<Legacy> {
    (0u8..3, proptest::collection::vec((0u8..N_TOK as u8, prop_oneof![2 => Just(0u64), 5 => 0u64..3000], proptest::collection::vec(1u32..500, 0..3)), 1..4), proptest::collection::vec(any::<bool>(), N_CW20), gas(), proptest::bool::weighted(0.12), prop_oneof![1 => Just(0u8), 1 => 1u8..3])
        .prop_map(|(version, tokens, listed, migrate_default_gas, token_query_fails, late_channels)| Legacy { version, tokens, listed, migrate_default_gas, token_query_fails, late_channels })
        .boxed()
}

pub fn case_strategy(prop: &str, tier: Tier) -> BoxedStrategy<Case> {
    let max_ops = match tier {
        Tier::Quick => 36usize,
        Tier::Thorough => 90usize,
    };
    let p = prop.to_string();
    let malicious = match prop {
        "C11" => Just(true).boxed(),
        "C12" => Just(false).boxed(),
        _ => any::<bool>().boxed(),
    };
    // the upgrade arm: a third of the C12 cases; the other two properties must survive an upgrade as well
    let leg = proptest::option::weighted(if prop == "C12" { 0.3 } else { 0.1 }, legacy()).boxed();
    (malicious, leg)
        .prop_flat_map(move |(mal, leg)| {
            // the <= 0.13.0 migration supports one channel; with more it has to refuse (and change nothing)
            let channels = if leg.is_some() { prop_oneof![6 => Just(1u8), 1 => 2u8..=3].boxed() } else { (1u8..=3).boxed() };
            // most tokens allowed so that transfers are live; C18 starts from sparser lists
            let allow = proptest::collection::vec((0u8..N_CW20 as u8, gas()), if p == "C18" { 0..3 } else { 1..4 });
            (Just(mal), Just(leg), channels, allow, gas(), proptest::collection::vec(op(&p, mal), 0..max_ops), proptest::bool::weighted(0.2), proptest::bool::weighted(if p == "C18" { 0.0 } else { 0.06 }))
        })
        .prop_map(|(malicious, legacy, channels, allow, default_gas, ops, same_remote, dust)| Case { channels, allow, default_gas, legacy, malicious, ops, same_remote, dust })
        .boxed()
}

// ------------------------------------------------------------------ wire formats written from the specs (not from the contract)

/// ICS-20 fungible token packet data, JSON wire format
#[derive(Serialize, Deserialize, Clone, Debug, PartialEq)]
struct WirePacket {
    amount: Uint128,
    denom: String,
    receiver: String,
    sender: String,
    #[serde(skip_serializing_if = "Option::is_none")]
    #[serde(default)]
    memo: Option<String>,
}

#[derive(Deserialize, Clone, Debug)]
#[serde(rename_all = "snake_case")]
enum AmountW {
    Native(Coin),
    Cw20(Cw20Coin),
}
impl AmountW {
    fn denom(&self) -> String {
        match self {
            AmountW::Native(c) => c.denom.clone(),
            AmountW::Cw20(c) => format!("cw20:{}", c.address),
        }
    }
    fn amount(&self) -> u128 {
        match self {
            AmountW::Native(c) => c.amount.u128(),
            AmountW::Cw20(c) => c.amount.u128(),
        }
    }
}
#[derive(Deserialize, Clone, Debug)]
struct ChannelW {
    balances: Vec<AmountW>,
    total_sent: Vec<AmountW>,
}
#[derive(Deserialize, Clone, Debug, PartialEq)]
struct ConfigW {
    default_timeout: u64,
    default_gas_limit: Option<u64>,
    gov_contract: String,
}
#[derive(Deserialize, Clone, Debug)]
struct AllowedInfoW {
    contract: String,
    gas_limit: Option<u64>,
}
#[derive(Deserialize, Clone, Debug)]
struct ListAllowedW {
    allow: Vec<AllowedInfoW>,
}
#[derive(Deserialize, Clone, Debug)]
struct AdminW {
    admin: Option<String>,
}

// frozen legacy storage layouts (cw20-ics20 0.11.1 .. 0.13.0)
#[derive(Serialize)]
struct LegacyConfigV1 {
    default_timeout: u64,
    gov_contract: Addr,
}
#[derive(Serialize)]
struct LegacyChannelState {
    outstanding: Uint128,
    total_sent: Uint128,
}
#[derive(Serialize)]
struct LegacyVersion {
    contract: String,
    version: String,
}
const L_CHANNEL_STATE: Map<(&str, &str), Uint128> = Map::new("channel_state");
const L_ALLOW_LIST: Map<&Addr, Uint128> = Map::new("allow_list");

// ------------------------------------------------------------------ world

#[derive(Clone, Debug, PartialEq)]
struct Obs {
    /// per channel: denom -> (outstanding, total_sent)
    chans: Vec<BTreeMap<String, (u128, u128)>>,
    hold: [u128; N_TOK],
    users: Vec<[u128; N_TOK]>,
    cfg: ConfigW,
    admin: Option<String>,
    allowed: BTreeMap<String, Option<u64>>,
    n_sent: usize,
}

#[derive(Clone, Copy, Debug, PartialEq)]
enum PState {
    InFlight,
    Delivered,
    Done,
}

#[derive(Clone, Debug)]
struct Pkt {
    ch: usize,
    tok: usize,
    amount: u128,
    sender: String,
    data: Binary,
    timeout: IbcTimeout,
    state: PState,
    seq: u64,
}

struct World {
    app: IApp,
    users: Vec<Addr>,
    govs: Vec<Addr>,
    wasm_admin: Addr,
    relayer: Addr,
    ics20: Addr,
    code: u64,
    cw20: Vec<Addr>,
    natives: Vec<String>,
    n_ch: usize,
    dust: bool,
}

fn chan_id(i: usize) -> String {
    // (the third local channel's id extends the second one's: channel-0, channel-1, channel-15)
    if i == 2 {
        return "channel-15".to_string();
    }
    format!("channel-{i}")
}
thread_local! {
    /// this case's channels all have the same counterparty endpoint (several remote chains that each call
    /// their end `transfer/channel-0`): set by run_case
    static SAME_REMOTE: std::cell::Cell<bool> = const { std::cell::Cell::new(false) };
}

/// Counterparty channel ids deliberately collide with our own local ids (channel ids are per-chain
/// counters, so "channel-1" on the other side next to a local "channel-1" is the normal situation):
/// local channel-0 <-> remote channel-1, channel-1 <-> channel-15, channel-15 <-> channel-0.

fn remote_chan_id(i: usize) -> String {
    if SAME_REMOTE.with(|c| c.get()) {
        return "channel-0".to_string();
    }
    chan_id((i + 1) % 3)
}
const REMOTE_PORT: &str = "transfer";

impl World {
    fn port(&self) -> String {
        format!("wasm.{}", self.ics20)
    }
    fn local_denom(&self, tok: usize) -> String {
        if tok < N_NATIVE {
            self.natives[tok].clone()
        } else {
            format!("cw20:{}", self.cw20[tok - N_NATIVE])
        }
    }
    fn balance(&self, who: &Addr, tok: usize) -> Result<u128, String> {
        if tok < N_NATIVE {
            Ok(self.app.wrap().query_balance(who.to_string(), self.natives[tok].clone()).map_err(|e| e.to_string())?.amount.u128())
        } else {
            Ok(try_query::<BalanceResponse, _>(&self.app, &self.cw20[tok - N_NATIVE], &Cw20QueryMsg::Balance { address: who.to_string() })?.balance.u128())
        }
    }
    fn observe(&self) -> Result<Obs, String> {
        let mut chans = vec![];
        for i in 0..self.n_ch {
            let c: ChannelW = try_query(&self.app, &self.ics20, &QueryMsg::Channel { id: chan_id(i) })?;
            let mut m: BTreeMap<String, (u128, u128)> = BTreeMap::new();
            for b in &c.balances {
                if m.insert(b.denom(), (b.amount(), 0)).is_some() {
                    return Err(format!("Channel{{{}}} lists denom {} twice", chan_id(i), b.denom()));
                }
            }
            for t in &c.total_sent {
                m.entry(t.denom()).or_insert((0, 0)).1 = t.amount();
            }
            chans.push(m);
        }
        let mut hold = [0u128; N_TOK];
        for (t, h) in hold.iter_mut().enumerate() {
            *h = self.balance(&self.ics20, t)?;
        }
        let mut users = vec![];
        for u in &self.users {
            let mut row = [0u128; N_TOK];
            for (t, r) in row.iter_mut().enumerate() {
                *r = self.balance(u, t)?;
            }
            users.push(row);
        }
        let cfg: ConfigW = try_query(&self.app, &self.ics20, &QueryMsg::Config {})?;
        let admin: AdminW = try_query(&self.app, &self.ics20, &QueryMsg::Admin {})?;
        let mut allowed = BTreeMap::new();
        let mut cursor: Option<String> = None;
        loop {
            let page: ListAllowedW = try_query(&self.app, &self.ics20, &QueryMsg::ListAllowed { start_after: cursor.clone(), limit: Some(30) })?;
            if page.allow.is_empty() {
                break;
            }
            cursor = page.allow.last().map(|a| a.contract.clone());
            for a in page.allow {
                allowed.insert(a.contract, a.gas_limit);
            }
            if allowed.len() > 1000 {
                return Err("ListAllowed does not terminate".into());
            }
        }
        Ok(Obs { chans, hold, users, cfg, admin: admin.admin, allowed, n_sent: sent_packets(&self.app).len() })
    }
    fn outstanding(o: &Obs, ch: usize, denom: &str) -> u128 {
        o.chans.get(ch).and_then(|m| m.get(denom)).map(|x| x.0).unwrap_or(0)
    }
}

fn v(prop: &str, sig: &str, msg: String) -> Violation {
    Violation::new(prop, &format!("{prop}/{sig}"), msg)
}

fn gas_le(a: Option<u64>, b: Option<u64>) -> bool {
    match (a, b) {
        (_, None) => true,
        (None, Some(_)) => false,
        (Some(x), Some(y)) => x <= y,
    }
}

#[derive(Debug, Clone)]
enum Done {
    Send { by: usize, ch: usize, tok: usize, amount: u128, ok: bool, timeout: Option<u32>, memo: Option<String>, remote: String, ch_exists: bool },
    Recv { ch: usize, tok: Option<usize>, form: Option<DenomForm>, amount: u128, receiver: Option<usize>, result: Result<Option<Binary>, String>, injected: bool },
    AckOrTimeout { pkt: usize, success_ack: bool, result: Result<(), String>, injected: bool },
    Allow { by: Addr, tok: usize, gas: Option<u64>, ok: bool },
    UpdateAdmin { by: Addr, ok: bool },
    Migrate { ok: bool, default_gas: Option<u64> },
    Other,
}

// ------------------------------------------------------------------ interpreter

pub fn run_case(prop: &str, case: &Case, ctx: &mut CaseCtx) -> Result<(), Violation> {
    SAME_REMOTE.with(|c| c.set(case.same_remote));
    if case.same_remote {
        ctx.count("cases_same_remote_endpoint");
    }
    let mut app = new_app();
    app.update_block(|b| b.time = cosmwasm_std::Timestamp::from_seconds(b.time.seconds()));
    let users: Vec<Addr> = (0..N_USERS).map(|i| app.api().addr_make(&format!("user{i}"))).collect();
    let govs: Vec<Addr> = (0..3).map(|i| app.api().addr_make(&format!("gov{i}"))).collect();
    let wasm_admin = app.api().addr_make("wasm-admin");
    let relayer = app.api().addr_make("relayer");
    let faucet = app.api().addr_make("faucet");
    let rich: u128 = 1u128 << 66;
    let ccode = app.store_code(flaky_cw20_contract());
    let mut cw20 = vec![];
    for i in 0..N_CW20 {
        let msg = cw20_base::msg::InstantiateMsg {
            name: format!("Token {i}"),
            symbol: "TOK".into(),
            decimals: 6,
            initial_balances: users.iter().map(|u| Cw20Coin { address: u.to_string(), amount: Uint128::new(rich) }).chain(std::iter::once(Cw20Coin { address: faucet.to_string(), amount: Uint128::new(rich) })).collect(),
            mint: None,
            marketing: None,
        };
        cw20.push(app.instantiate_contract(ccode, faucet.clone(), &msg, &[], format!("tok{i}"), None).expect("cw20"));
    }
    // the governance addresses hold a few tokens too
    for g in &govs {
        for t in &cw20 {
            app.execute_contract(faucet.clone(), t.clone(), &Cw20ExecuteMsg::Transfer { recipient: g.to_string(), amount: Uint128::new(1_000_000_000) }, &[]).expect("fund governance");
        }
    }
    let natives = native_denoms(&cw20);
    for u in &users {
        for d in &natives {
            app.sudo(SudoMsg::Bank(BankSudo::Mint { to_address: u.to_string(), amount: coins(rich, d.clone()) })).expect("mint");
        }
    }
    let code = app.store_code(ics20_contract());
    let mut allow_init: BTreeMap<usize, Option<u64>> = BTreeMap::new();
    if let Some(l) = &case.legacy {
        for (i, on) in l.listed.iter().enumerate() {
            if *on && i < N_CW20 {
                allow_init.insert(i, None);
            }
        }
    } else {
        for (t, g) in &case.allow {
            allow_init.insert(*t as usize % N_CW20, *g);
        }
    }
    let init = InitMsg {
        default_timeout: DEFAULT_TIMEOUT,
        gov_contract: govs[0].to_string(),
        allowlist: allow_init.iter().map(|(t, g)| AllowMsg { contract: cw20[*t].to_string(), gas_limit: *g }).collect(),
        default_gas_limit: if case.legacy.is_some() { None } else { case.default_gas },
    };
    let ics20 = app.instantiate_contract(code, faucet.clone(), &init, &[], "ics20", Some(wasm_admin.to_string())).expect("ics20 instantiate");
    // channels connected before the history (and before the upgrade, in the upgrade arm); a one-channel
    // upgrade may open further channels once it went through
    let n_pre = case.channels.clamp(1, 3) as usize;
    let late = case.legacy.as_ref().map(|l| if n_pre == 1 { l.late_channels as usize % 3 } else { 0 }).unwrap_or(0);
    let n_ch = n_pre + late;
    let mut w = World { app, users, govs, wasm_admin, relayer, ics20, code, cw20, natives, n_ch, dust: case.dust };
    for i in 0..n_pre {
        let channel = IbcChannel::new(IbcEndpoint { port_id: w.port(), channel_id: chan_id(i) }, IbcEndpoint { port_id: REMOTE_PORT.into(), channel_id: remote_chan_id(i) }, IbcOrder::Unordered, "ics20-1", "connection-0");
        try_sudo(&mut w.app, &w.ics20.clone(), &Shim::ChannelConnect { msg: IbcChannelConnectMsg::new_ack(channel, "ics20-1") }).expect("channel connect");
    }
    let qerr = |e: String| v(prop, "query-failed", format!("a query failed or panicked: {e}"));

    // ---- ledgers
    let mut pkts: Vec<Pkt> = vec![];
    let mut sent = vec![[0u128; N_TOK]; n_ch];
    let mut failed = vec![[0u128; N_TOK]; n_ch];
    let mut redeemed = vec![[0u128; N_TOK]; n_ch];
    let mut escrowed = vec![[0u128; N_TOK]; n_ch];
    let mut paid = vec![[0u128; N_TOK]; n_ch];
    let mut remote_held = vec![[0u128; N_TOK]; n_ch];
    let mut former_admins: Vec<Addr> = vec![];
    // packet sequences are counted per channel and direction, as IBC core does (the first packet sent on
    // every channel has sequence 1)
    let mut seq_out: Vec<u64> = vec![0; 4];
    let mut seq_in: Vec<u64> = vec![0; 4];
    let mut allow_changed = false;

    // ---- legacy arm: fabricate the old storage image, then migrate
    if let Some(l) = &case.legacy {
        let c = w.ics20.clone();
        // entry k of the image lives on channel k % n_pre
        let mut booked: BTreeMap<(usize, usize), (u128, Vec<u32>)> = BTreeMap::new();
        let mut unbooked: Vec<(usize, usize)> = vec![];
        for (k, (t, acked, inflight)) in l.tokens.iter().enumerate() {
            let e = booked.entry((k % n_pre, *t as usize % N_TOK)).or_insert((0, vec![]));
            e.0 += *acked as u128;
            e.1.extend(inflight.iter().cloned());
        }
        for ((ch, tok), (acked, inflight)) in &booked {
            let denom = w.local_denom(*tok);
            let total: u128 = *acked + inflight.iter().map(|x| *x as u128).sum::<u128>();
            // the old contract holds everything it was sent
            if total > 0 {
                if *tok < N_NATIVE {
                    w.app.sudo(SudoMsg::Bank(BankSudo::Mint { to_address: c.to_string(), amount: coins(total, w.natives[*tok].clone()) })).expect("mint");
                } else {
                    w.app.execute_contract(faucet.clone(), w.cw20[*tok - N_NATIVE].clone(), &Cw20ExecuteMsg::Transfer { recipient: c.to_string(), amount: Uint128::new(total) }, &[]).expect("fund");
                }
            }
            // v2 semantics: only acknowledged sends are booked, and the record of a (channel, denomination) pair is
            // first written by its first acknowledged send: a pair with nothing but unacknowledged sends has none.
            // Images with several channels are written exactly so (the upgrade has to refuse them anyway); with one
            // channel C12 does so for part of the pairs (see known finding C12/legacy-inflight-unbooked), the other
            // pairs carry a zero record
            let no_record = *acked == 0 && !inflight.is_empty() && (n_pre >= 2 || (prop == "C12" && inflight[0] % 2 == 1));
            if no_record {
                ctx.count("legacy_pair_without_record");
                if n_pre == 1 {
                    unbooked.push((*ch, *tok));
                }
            } else {
                let key = L_CHANNEL_STATE.key((&chan_id(*ch), &denom)).to_vec();
                let val = to_json_vec(&LegacyChannelState { outstanding: Uint128::new(*acked), total_sent: Uint128::new(*acked) }).unwrap();
                try_sudo(&mut w.app, &c, &Shim::RawSet { key: key.into(), value: val.into() }).expect("rawset");
            }
            sent[*ch][*tok] += *acked;
            escrowed[*ch][*tok] += *acked;
            remote_held[*ch][*tok] += *acked;
            for (k, a) in inflight.iter().enumerate() {
                let sender = w.users[k % N_USERS].to_string();
                let data = to_json_binary(&WirePacket { amount: Uint128::new(*a as u128), denom: denom.clone(), receiver: "remote-old".into(), sender: sender.clone(), memo: None }).unwrap();
                seq_out[*ch] += 1;
                pkts.push(Pkt { ch: *ch, tok: *tok, amount: *a as u128, sender, data, timeout: IbcTimeout::with_timestamp(w.app.block_info().time.plus_seconds(5000)), state: PState::InFlight, seq: seq_out[*ch] });
                // after the migration in-flight sends count as sent
                sent[*ch][*tok] += *a as u128;
                escrowed[*ch][*tok] += *a as u128;
            }
        }
        let _ = &L_ALLOW_LIST;
        let version = match l.version % 3 {
            0 => "0.11.1",
            1 => "0.12.1",
            _ => "0.13.0",
        };
        if l.version % 3 == 0 {
            let val = to_json_vec(&LegacyConfigV1 { default_timeout: DEFAULT_TIMEOUT, gov_contract: w.govs[0].clone() }).unwrap();
            try_sudo(&mut w.app, &c, &Shim::RawSet { key: b"ics20_config".to_vec().into(), value: val.into() }).expect("rawset");
            try_sudo(&mut w.app, &c, &Shim::RawRemove { key: b"admin".to_vec().into() }).expect("rawremove");
        }
        let val = to_json_vec(&LegacyVersion { contract: "crates.io:cw20-ics20".into(), version: version.into() }).unwrap();
        try_sudo(&mut w.app, &c, &Shim::RawSet { key: b"contract_info".to_vec().into(), value: val.into() }).expect("rawset");
        // fault: the first cw20 token with a channel entry cannot be reached while the migration runs
        let unreachable: Option<usize> = if l.token_query_fails { booked.keys().map(|(_, t)| *t).find(|t| *t >= N_NATIVE) } else { None };
        if let Some(t) = unreachable {
            let _ = try_sudo(&mut w.app, &w.cw20[t - N_NATIVE].clone(), &FlakyCtl::SetQuery { on: true });
        }
        let r = try_migrate(&mut w.app, &w.wasm_admin.clone(), &c, &MigrateMsg { default_gas_limit: l.migrate_default_gas }, w.code);
        if let Some(t) = unreachable {
            let _ = try_sudo(&mut w.app, &w.cw20[t - N_NATIVE].clone(), &FlakyCtl::SetQuery { on: false });
        }
        if let Err(e) = r {
            // the <= 0.13.0 migration refuses more than one channel and cannot complete without the tokens'
            // balances; a refused migration changes nothing and the old code keeps running: nothing to judge
            if n_pre >= 2 || unreachable.is_some() {
                ctx.count("legacy_migrate_refused");
                return Ok(());
            }
            return Err(v(prop, "legacy-migrate-failed", format!("migrating a fabricated {version} storage image failed: {e}")));
        }
        ctx.flag("legacy");
        for i in n_pre..n_ch {
            let channel = IbcChannel::new(IbcEndpoint { port_id: w.port(), channel_id: chan_id(i) }, IbcEndpoint { port_id: REMOTE_PORT.into(), channel_id: remote_chan_id(i) }, IbcOrder::Unordered, "ics20-1", "connection-0");
            try_sudo(&mut w.app, &w.ics20.clone(), &Shim::ChannelConnect { msg: IbcChannelConnectMsg::new_ack(channel, "ics20-1") }).expect("channel connect after the upgrade");
            ctx.count("channel_opened_after_upgrade");
        }
        // known finding: the <= 0.13.0 upgrade reconciles only the pairs that have a record, so the escrow of a
        // pair whose sends were all still unacknowledged stays unbooked for good
        if prop == "C12" && !unbooked.is_empty() {
            let after = w.observe().map_err(qerr)?;
            if let Some((ch, tok)) = unbooked.iter().find(|(ch, tok)| World::outstanding(&after, *ch, &w.local_denom(*tok)) != sent[*ch][*tok]) {
                let what = format!("after migrating a {version} image: channel {ch} {}: outstanding {} != sent {} (all of it in flight at the upgrade, no record in the old format)", w.local_denom(*tok), World::outstanding(&after, *ch, &w.local_denom(*tok)), sent[*ch][*tok]);
                if ctx.tolerate("C12/legacy-inflight-unbooked") {
                    return Ok(());
                }
                return Err(v(prop, "legacy-inflight-unbooked", what));
            }
        }
        // an upgrade is not a governance call: every token allowed before is still allowed, no limit lowered
        let after = w.observe().map_err(qerr)?;
        for (t, g) in &allow_init {
            let key = w.cw20[*t].to_string();
            match after.allowed.get(&key) {
                None => return Err(v(prop, "token-removed", format!("after migrating a {version} image: allowed token {key} is no longer on the allow list"))),
                Some(new) => {
                    if !gas_le(*g, *new) {
                        return Err(v(prop, "gas-limit-lowered", format!("after migrating a {version} image: gas limit of {key} went {:?} -> {:?}", g, new)));
                    }
                }
            }
        }
    }

    // dust: 33 further native denominations, one unit each, all over channel 0 and all still in flight
    if case.dust {
        let u0 = w.users[0].clone();
        for k in 0..N_DUST {
            let d = dust_denom(k);
            w.app.sudo(SudoMsg::Bank(BankSudo::Mint { to_address: u0.to_string(), amount: coins(1, d.clone()) })).expect("mint");
            let tmsg = TransferMsg { channel: chan_id(0), remote_address: "remote-dust".into(), timeout: None, memo: None };
            try_exec(&mut w.app, &u0, &w.ics20.clone(), &ExecuteMsg::Transfer(tmsg), &[Coin::new(1u128, d)]).expect("a plain native transfer");
            seq_out[0] += 1;
        }
        ctx.count("dust_channel");
    }
    let mut pre = w.observe().map_err(qerr)?;
    // C18: the list starts as the instantiate message gives it: each initial entry with the limit it was given
    // (none = unlimited), nothing else listed, the default as requested
    if prop == "C18" && case.legacy.is_none() {
        let want: BTreeMap<String, Option<u64>> = allow_init.iter().map(|(t, g)| (w.cw20[*t].to_string(), *g)).collect();
        if pre.allowed != want || pre.cfg.default_gas_limit != case.default_gas {
            return Err(v(prop, "instantiate-not-as-requested", format!("after instantiate with allow list {want:?} and default gas limit {:?}: the contract lists {:?} and reports default {:?}", case.default_gas, pre.allowed, pre.cfg.default_gas_limit)));
        }
        if want.values().any(|g| g.is_none()) && case.default_gas.is_some() {
            ctx.count("init_unlimited_entry_with_default");
        }
    }
    check_state(prop, &w, &pre, &sent, &failed, &redeemed, &escrowed, &paid, "after setup", ctx)?;

    for (step_no, op) in case.ops.iter().enumerate() {
        let block_time = w.app.block_info().time;
        let mut outside_gain: Option<u128> = None;
        let unfinished: Vec<usize> = pkts.iter().enumerate().filter(|(_, p)| p.state != PState::Done).map(|(i, _)| i).collect();
        let done: Done = match op {
            Op::Advance { secs } => {
                // C11: now and then somebody sends the contract a few native tokens directly (a gift: it is not
                // escrow of any channel), and the chain-level admin re-runs migrate on the current version (e.g. to
                // set nothing new): neither books anything on any channel
                if prop == "C11" && *secs % 7 == 3 {
                    let d = w.natives[*secs as usize % N_NATIVE].clone();
                    let gift = 1 + *secs as u128;
                    w.app.sudo(SudoMsg::Bank(BankSudo::Mint { to_address: w.ics20.to_string(), amount: coins(gift, d) })).expect("mint");
                    ctx.count("gift_to_the_contract");
                    if *secs % 2 == 1 {
                        let r = try_migrate(&mut w.app, &w.wasm_admin.clone(), &w.ics20.clone(), &MigrateMsg { default_gas_limit: None }, w.code);
                        ctx.count(if r.is_ok() { "same_version_migrate_ok" } else { "same_version_migrate_failed" });
                    }
                }
                let s = *secs as u64;
                w.app.update_block(|b| {
                    b.height += 1;
                    b.time = b.time.plus_seconds(s);
                });
                Done::Other
            }
            Op::SendAlias { by, ch, tok, amt } => {
                if prop == "C18" {
                    let by = *by as usize % N_USERS;
                    let chx = *ch as usize % n_ch;
                    // (a third of them spell the token's address in upper case)
                    let spelled = if *amt % 3 == 0 { w.cw20[*tok as usize % N_CW20].to_string().to_uppercase() } else { w.cw20[*tok as usize % N_CW20].to_string() };
                    let denom = format!("cw20:{spelled}");
                    let amount = 1 + *amt as u128;
                    w.app.sudo(SudoMsg::Bank(BankSudo::Mint { to_address: w.users[by].to_string(), amount: coins(amount, denom.clone()) })).expect("mint");
                    let tmsg = TransferMsg { channel: chan_id(chx), remote_address: "remote-user-a".into(), timeout: None, memo: None };
                    let r = try_exec(&mut w.app, &w.users[by].clone(), &w.ics20.clone(), &ExecuteMsg::Transfer(tmsg), &[Coin::new(amount, denom)]);
                    ctx.count(if r.is_ok() { "op_alias_native_ok" } else { "op_alias_native_fail" });
                    // the packet is in flight like any other: it can be acknowledged, refused or time out later
                    // (a refund is paid in the cw20 token the denom names - with that token's gas limit)
                    if r.is_ok() {
                        let all = sent_packets(&w.app);
                        if let (Some(sp), true) = (all.last(), all.len() == pre.n_sent + 1) {
                            seq_out[chx] += 1;
                            pkts.push(Pkt { ch: chx, tok: N_NATIVE + *tok as usize % N_CW20, amount, sender: w.users[by].to_string(), data: sp.data.clone(), timeout: sp.timeout.clone(), state: PState::InFlight, seq: seq_out[chx] });
                        }
                    }
                }
                Done::Other
            }
            Op::SendNative { by, ch, denom, amt, timeout, memo } | Op::SendCw20 { by, ch, tok: denom, amt, timeout, memo } => {
                let is_native = matches!(op, Op::SendNative { .. });
                // C18: a cw20 transfer whose initiator (the sender the token reports) is the governance address
                let by_gov: Option<Addr> = if prop == "C18" && !is_native && *by >= 200 { pre.admin.as_ref().map(|a| Addr::unchecked(a.clone())) } else { None };
                let by = *by as usize % N_USERS;
                let tok = if is_native { *denom as usize % N_NATIVE } else { N_NATIVE + *denom as usize % N_CW20 };
                // ch == 3 addresses a channel that was never connected
                let ch_exists = *ch < 3;
                let chx = if ch_exists { *ch as usize % n_ch } else { 99 };
                let amount = match amt {
                    SendAmt::Abs(a) => *a,
                    SendAmt::Frac(k) => ((pre.users[by][tok] >> 8) * (*k as u128 + 1)).min(u64::MAX as u128),
                };
                let amount = if by_gov.is_some() { amount.min(1_000_000) } else { amount };
                // (now and then pasted with white space around it: it is carried as given)
                // (and now and then left empty, blank, or very long: the contract forwards what it is given, and a
                // transfer it accepted can be refused by the other side or time out like any other)
                let remote = match step_no % 23 {
                    3 => String::new(),
                    9 => "   ".to_string(),
                    15 => format!("remote-user-{}", "z".repeat(3000)),
                    _ if step_no % 5 == 4 => format!(" remote-user-{} \n", step_no % 3),
                    _ => format!("remote-user-{}", step_no % 3),
                };
                let memo: Option<String> = match memo {
                    Some(m) if step_no % 7 == 2 => Some(format!("{m}{}", "m".repeat(40_000))),
                    other => other.clone(),
                };
                let memo = &memo;
                // (a channel that was never connected: an id nobody uses, or - every other time - the id the other
                // side uses for one of our channels, where that is not an id of ours as well)
                // (... or, every third time, no channel id at all)
                let unknown_channel: String = if step_no % 3 == 1 { String::new() } else { (0..n_ch).map(remote_chan_id).find(|r| step_no % 2 == 0 && !(0..n_ch).any(|l| chan_id(l) == *r)).unwrap_or_else(|| "channel-77".to_string()) };
                let tmsg = TransferMsg { channel: if ch_exists { chan_id(chx) } else { unknown_channel }, remote_address: remote.clone(), timeout: timeout.map(|t| t as u64), memo: memo.clone() };
                let r = if is_native {
                    // (now and then an empty coin of another denomination is listed in front of the payment: one
                    // payment, of the denomination that carries the amount - or a refusal)
                    let mut funds = vec![Coin::new(amount, w.natives[tok].clone())];
                    if step_no % 9 == 5 {
                        funds.insert(0, Coin::new(0u128, w.natives[(tok + 1) % N_NATIVE].clone()));
                        ctx.count("transfer_with_an_empty_coin_in_front");
                    }
                    try_exec(&mut w.app, &w.users[by].clone(), &w.ics20.clone(), &ExecuteMsg::Transfer(tmsg), &funds)
                } else {
                    let from = by_gov.clone().unwrap_or_else(|| w.users[by].clone());
                    if by_gov.is_some() {
                        ctx.count("cw20_transfer_sent_by_governance");
                    }
                    try_exec(&mut w.app, &from, &w.cw20[tok - N_NATIVE].clone(), &Cw20ExecuteMsg::Send { contract: w.ics20.to_string(), amount: Uint128::new(amount), msg: to_json_binary(&tmsg).unwrap() }, &[])
                };
                Done::Send { by, ch: chx, tok, amount, ok: r.is_ok(), timeout: *timeout, memo: memo.clone(), remote, ch_exists }
            }
            Op::Deliver { pkt } => {
                let cand: Vec<usize> = unfinished.iter().cloned().filter(|i| pkts[*i].state == PState::InFlight).collect();
                if !cand.is_empty() {
                    let i = cand[pick(*pkt, cand.len())];
                    pkts[i].state = PState::Delivered;
                    remote_held[pkts[i].ch][pkts[i].tok] += pkts[i].amount;
                }
                Done::Other
            }
            Op::Recv { ch, tok, live, form, amt, receiver, payout_fails, memo } => {
                let mut chx = *ch as usize % n_ch;
                let mut tok = *tok as usize % N_TOK;
                if let Some(k) = live {
                    let mut pairs: Vec<(usize, usize)> = vec![];
                    for c in 0..n_ch {
                        for t in 0..N_TOK {
                            let alive = if case.malicious { World::outstanding(&pre, c, &w.local_denom(t)) > 0 } else { remote_held[c][t] > 0 };
                            if alive {
                                pairs.push((c, t));
                            }
                        }
                    }
                    if !pairs.is_empty() {
                        let (c, t) = pairs[pick(*k, pairs.len())];
                        chx = c;
                        tok = t;
                    }
                }
                let base = w.local_denom(tok);
                let denom = match form {
                    DenomForm::Right => format!("{REMOTE_PORT}/{}/{base}", remote_chan_id(chx)),
                    DenomForm::Bare => base.clone(),
                    DenomForm::WrongPort => format!("transfer2/{}/{base}", remote_chan_id(chx)),
                    DenomForm::WrongChannel => format!("{REMOTE_PORT}/channel-424242/{base}"),
                    DenomForm::OtherChannel(k) => format!("{REMOTE_PORT}/{}/{base}", remote_chan_id((chx + 1 + *k as usize % 2) % 3)),
                    DenomForm::NearChannel => format!("{REMOTE_PORT}/{}5/{base}", remote_chan_id(chx)),
                    DenomForm::NearPort => format!("{REMOTE_PORT}x/{}/{base}", remote_chan_id(chx)),
                    DenomForm::WasmPort => format!("wasm.{REMOTE_PORT}/{}/{base}", remote_chan_id(chx)),
                    DenomForm::Nested => format!("{REMOTE_PORT}/{}/{REMOTE_PORT}/{}/{base}", remote_chan_id(chx), remote_chan_id(chx)),
                    DenomForm::UnknownBase => format!("{REMOTE_PORT}/{}/unknowndenom", remote_chan_id(chx)),
                    DenomForm::OwnEnd => format!("{}/{}/{base}", w.port(), chan_id(chx)),
                };
                let out = World::outstanding(&pre, chx, &base);
                let held = remote_held[chx][tok];
                let rel = |b: u128, d: i8| if d >= 0 { b.saturating_add(d as u128) } else { b.saturating_sub((-(d as i16)) as u128) };
                let mut amount = match amt {
                    RecvAmt::Abs(a) => *a,
                    RecvAmt::Outstanding(d) => rel(out, *d),
                    RecvAmt::RemoteHeld(d) => rel(held, *d),
                    RecvAmt::Frac(k) => {
                        let b = if case.malicious { out } else { held };
                        ((b as f64) * ((*k as f64 + 1.0) / 256.0)) as u128
                    }
                };
                let mut eff_form = *form;
                // what counts is the denom itself: with equal counterparty endpoints "another channel's prefix"
                // is this channel's own prefix
                if denom == format!("{REMOTE_PORT}/{}/{base}", remote_chan_id(chx)) {
                    eff_form = DenomForm::Right;
                }
                if !case.malicious {
                    // the honest counterparty only returns vouchers it holds
                    if matches!(form, DenomForm::Right) {
                        amount = amount.min(held);
                    } else {
                        eff_form = DenomForm::Bare;
                    }
                }
                // receiver N_USERS: not an address at all; N_USERS + 1: the ics20 contract's own address
                let (rcv_ix, rcv_str) = if (*receiver as usize) < N_USERS {
                    (Some(*receiver as usize), w.users[*receiver as usize].to_string())
                } else if *receiver as usize == N_USERS + 1 {
                    (None, w.ics20.to_string())
                } else {
                    (None, "not-a-valid-address".to_string())
                };
                let data = to_json_binary(&WirePacket { amount: Uint128::new(amount), denom, receiver: rcv_str.clone(), sender: "remote-sender".into(), memo: if *memo { Some("hello".into()) } else { None } }).unwrap();
                // fault injection for this step only
                let inject = *payout_fails;
                if inject {
                    if tok < N_NATIVE {
                        set_blocked(&rcv_str, true);
                    } else {
                        let _ = try_sudo(&mut w.app, &w.cw20[tok - N_NATIVE].clone(), &FlakyCtl::Set { on: true });
                    }
                }
                seq_in[chx] += 1;
                let packet = IbcPacket::new(data, IbcEndpoint { port_id: REMOTE_PORT.into(), channel_id: remote_chan_id(chx) }, IbcEndpoint { port_id: w.port(), channel_id: chan_id(chx) }, seq_in[chx], IbcTimeout::with_timestamp(block_time.plus_seconds(600)));
                let r = try_sudo(&mut w.app, &w.ics20.clone(), &Shim::Receive { msg: IbcPacketReceiveMsg::new(packet, w.relayer.clone()) });
                if inject {
                    if tok < N_NATIVE {
                        set_blocked(&rcv_str, false);
                    } else {
                        let _ = try_sudo(&mut w.app, &w.cw20[tok - N_NATIVE].clone(), &FlakyCtl::Set { on: false });
                    }
                }
                Done::Recv { ch: chx, tok: Some(tok), form: Some(eff_form), amount, receiver: rcv_ix, result: r.map(|x| x.data), injected: inject }
            }
            Op::RecvRaw { ch, bytes } => {
                let chx = *ch as usize % n_ch;
                seq_in[chx] += 1;
                // if the bytes happen to be a well-formed ICS-20 packet, interpret it like a structured one
                let parsed: Option<WirePacket> = cosmwasm_std::from_json::<WirePacket>(bytes.as_slice()).ok();
                let (tok, form, amount, receiver) = match &parsed {
                    Some(wp) => {
                        let parts: Vec<&str> = wp.denom.splitn(3, '/').collect();
                        let right = parts.len() == 3 && parts[0] == REMOTE_PORT && parts[1] == remote_chan_id(chx);
                        let base = if parts.len() == 3 { parts[2] } else { wp.denom.as_str() };
                        let tok = (0..N_TOK).find(|t| w.local_denom(*t) == base);
                        let rcv = w.users.iter().position(|u| u.as_str() == wp.receiver);
                        (tok, Some(if right { DenomForm::Right } else { DenomForm::Bare }), wp.amount.u128(), rcv)
                    }
                    None => (None, None, 0, None),
                };
                // a valid receiver outside the user pool: watch its balance directly
                let extra: Option<(Addr, usize, u128)> = match (&parsed, tok, receiver) {
                    (Some(wp), Some(t), None) if w.app.api().addr_validate(&wp.receiver).is_ok() => {
                        let a = Addr::unchecked(wp.receiver.clone());
                        let b = w.balance(&a, t).unwrap_or(0);
                        Some((a, t, b))
                    }
                    _ => None,
                };
                let packet = IbcPacket::new(Binary::from(bytes.clone()), IbcEndpoint { port_id: REMOTE_PORT.into(), channel_id: remote_chan_id(chx) }, IbcEndpoint { port_id: w.port(), channel_id: chan_id(chx) }, seq_in[chx], IbcTimeout::with_timestamp(block_time.plus_seconds(600)));
                let r = try_sudo(&mut w.app, &w.ics20.clone(), &Shim::Receive { msg: IbcPacketReceiveMsg::new(packet, w.relayer.clone()) });
                if let Some((a, t, before)) = extra {
                    let after = w.balance(&a, t).unwrap_or(0);
                    outside_gain = Some(after.saturating_sub(before));
                }
                Done::Recv { ch: chx, tok, form, amount, receiver, result: r.map(|x| x.data), injected: false }
            }
            Op::Ack { pkt, .. } | Op::Timeout { pkt, .. } => {
                if unfinished.is_empty() {
                    Done::Other
                } else {
                    let (want_ok, refund_fails, is_timeout) = match op {
                        Op::Ack { ok, refund_fails, .. } => (*ok, *refund_fails, false),
                        Op::Timeout { refund_fails, .. } => (false, *refund_fails, true),
                        _ => unreachable!(),
                    };
                    let i = unfinished[pick(*pkt, unfinished.len())];
                    // an honest chain never reports failure for a packet it has processed
                    let success = if pkts[i].state == PState::Delivered { true } else { want_ok && !is_timeout };
                    let p = pkts[i].clone();
                    let inject = refund_fails && !success;
                    // a cw20 refund fails either for good, or (odd amounts) only at the first attempt - what a
                    // sub-call that ran out of its gas limit looks like
                    let one_shot = inject && p.tok >= N_NATIVE && p.amount % 2 == 1;
                    if inject {
                        if p.tok < N_NATIVE {
                            set_blocked(&p.sender, true);
                        } else if one_shot {
                            set_fail_next(1);
                        } else {
                            let _ = try_sudo(&mut w.app, &w.cw20[p.tok - N_NATIVE].clone(), &FlakyCtl::Set { on: true });
                        }
                    }
                    let original = IbcPacket::new(p.data.clone(), IbcEndpoint { port_id: w.port(), channel_id: chan_id(p.ch) }, IbcEndpoint { port_id: REMOTE_PORT.into(), channel_id: remote_chan_id(p.ch) }, p.seq, p.timeout.clone());
                    // whoever relays: a relayer account, or - every third time - the governance address itself
                    // (relaying gives nobody any say in how a packet is handled)
                    let relayer = match (step_no % 3, &pre.admin) {
                        (1, Some(g)) => Addr::unchecked(g.clone()),
                        _ => w.relayer.clone(),
                    };
                    let r = if is_timeout && !success {
                        try_sudo(&mut w.app, &w.ics20.clone(), &Shim::Timeout { msg: IbcPacketTimeoutMsg::new(original, relayer) })
                    } else {
                        // (error texts are never empty: ibc-go always says something, and the chain refuses the empty
                        // `error` attribute the handler would emit - cw-multi-test like wasmd - so that on the pinned
                        // tree such an acknowledgement can never be processed at all; see DESIGN section 3)
                        let ack = if success { br#"{"result":"AQ=="}"#.to_vec() } else if step_no % 4 == 2 { br#"{"error":"e"}"#.to_vec() } else { br#"{"error":"remote refused the packet"}"#.to_vec() };
                        try_sudo(&mut w.app, &w.ics20.clone(), &Shim::Ack { msg: IbcPacketAckMsg::new(IbcAcknowledgement::new(ack), original, relayer) })
                    };
                    if inject {
                        if p.tok < N_NATIVE {
                            set_blocked(&p.sender, false);
                        } else if one_shot {
                            set_fail_next(0);
                        } else {
                            let _ = try_sudo(&mut w.app, &w.cw20[p.tok - N_NATIVE].clone(), &FlakyCtl::Set { on: false });
                        }
                    }
                    Done::AckOrTimeout { pkt: i, success_ack: success, result: r.map(|_| ()), injected: inject }
                }
            }
            Op::Allow { by, tok, gas } => {
                let who = resolve_who(&w, by, &pre, &former_admins);
                let tok = *tok as usize % N_CW20;
                let r = try_exec(&mut w.app, &who, &w.ics20.clone(), &ExecuteMsg::Allow(AllowMsg { contract: w.cw20[tok].to_string(), gas_limit: *gas }), &[]);
                Done::Allow { by: who, tok, gas: *gas, ok: r.is_ok() }
            }
            Op::UpdateAdmin { by, to } => {
                let who = resolve_who(&w, by, &pre, &former_admins);
                let r = try_exec(&mut w.app, &who, &w.ics20.clone(), &ExecuteMsg::UpdateAdmin { admin: w.govs[*to as usize % 3].to_string() }, &[]);
                Done::UpdateAdmin { by: who, ok: r.is_ok() }
            }
            Op::Migrate { default_gas, from } => {
                if *from % 4 != 0 {
                    let version = ["", "1.1.0", "0.16.0", "0.13.1"][*from as usize % 4];
                    let val = to_json_vec(&LegacyVersion { contract: "crates.io:cw20-ics20".into(), version: version.into() }).unwrap();
                    try_sudo(&mut w.app, &w.ics20.clone(), &Shim::RawSet { key: b"contract_info".to_vec().into(), value: val.into() }).expect("rawset");
                    pre = w.observe().map_err(qerr)?;
                }
                let r = try_migrate(&mut w.app, &w.wasm_admin.clone(), &w.ics20.clone(), &MigrateMsg { default_gas_limit: *default_gas }, w.code);
                Done::Migrate { ok: r.is_ok(), default_gas: *default_gas }
            }
        };
        let subs = sublog();
        let post = w.observe().map_err(qerr)?;
        let at = format!("step {step_no} {:?} -> {:?}", op, done);

        // ---------------- ledger updates + per-step oracles
        match &done {
            Done::Send { by, ch, tok, amount, ok, timeout, memo, remote, ch_exists } => {
                ctx.count(if *ok { "op_send_ok" } else { "op_send_fail" });
                if *ok {
                    // funds really moved
                    let moved = post.hold[*tok].saturating_sub(pre.hold[*tok]);
                    let left = pre.users[*by][*tok].saturating_sub(post.users[*by][*tok]);
                    if !*ch_exists {
                        return Err(v(prop, "send-on-unknown-channel", format!("{at}: a transfer on a channel that was never connected was accepted")));
                    }
                    if prop == "C11" || prop == "C12" {
                        if moved != *amount || left != *amount {
                            return Err(v(prop, "escrow-not-received", format!("{at}: accepted transfer of {amount}: contract holdings rose by {moved}, sender balance fell by {left}")));
                        }
                    }
                    escrowed[*ch][*tok] += moved;
                    sent[*ch][*tok] += moved;
                    // the packet as seen by IBC core
                    let all = sent_packets(&w.app);
                    if prop == "C12" {
                        if all.len() != pre.n_sent + 1 {
                            return Err(v(prop, "packet-count", format!("{at}: accepted transfer emitted {} packets, expected exactly one", all.len() as i64 - pre.n_sent as i64)));
                        }
                        let sp = all.last().unwrap();
                        let parsed: Result<WirePacket, _> = cosmwasm_std::from_json(&sp.data);
                        let Ok(wp) = parsed else {
                            return Err(v(prop, "packet-format", format!("{at}: packet data is not ICS-20 JSON: {}", String::from_utf8_lossy(sp.data.as_slice()))));
                        };
                        let raw: serde_json::Value = serde_json::from_slice(sp.data.as_slice()).unwrap_or(serde_json::Value::Null);
                        let want_timeout = IbcTimeout::with_timestamp(block_time.plus_seconds(timeout.map(|t| t as u64).unwrap_or(DEFAULT_TIMEOUT)));
                        let want_sender = w.users[*by].to_string();
                        let mut bad: Vec<String> = vec![];
                        if sp.channel_id != chan_id(*ch) {
                            bad.push(format!("channel {} != {}", sp.channel_id, chan_id(*ch)));
                        }
                        if sp.sender != w.ics20.as_str() {
                            bad.push(format!("emitted by {}", sp.sender));
                        }
                        if wp.amount.u128() != moved {
                            bad.push(format!("amount {} != escrowed {}", wp.amount, moved));
                        }
                        if wp.amount.u128() > u64::MAX as u128 {
                            bad.push(format!("amount {} exceeds 2^64-1", wp.amount));
                        }
                        if wp.denom != w.local_denom(*tok) {
                            bad.push(format!("denom {} != {}", wp.denom, w.local_denom(*tok)));
                        }
                        if wp.sender != want_sender {
                            bad.push(format!("sender {} != {}", wp.sender, want_sender));
                        }
                        if wp.receiver != *remote {
                            bad.push(format!("receiver {} != {}", wp.receiver, remote));
                        }
                        if wp.memo != *memo || (memo.is_none() && raw.get("memo").is_some()) {
                            bad.push(format!("memo {:?} != {:?}", wp.memo, memo));
                        }
                        if sp.timeout != want_timeout {
                            bad.push(format!("timeout {:?} != {:?}", sp.timeout, want_timeout));
                        }
                        if !bad.is_empty() {
                            return Err(v(prop, "packet-content", format!("{at}: emitted packet differs from the accepted transfer: {}", bad.join("; "))));
                        }
                    }
                    if prop == "C18" && *tok >= N_NATIVE {
                        let listed = pre.allowed.contains_key(w.cw20[*tok - N_NATIVE].as_str());
                        if !listed && pre.cfg.default_gas_limit.is_none() {
                            return Err(v(prop, "unlisted-cw20-accepted", format!("{at}: a cw20 transfer was accepted although the token is not on the allow list and no default gas limit is configured")));
                        }
                        ctx.flag("cw20_transfer_accepted");
                    }
                    if let Some(sp) = all.last() {
                        if all.len() == pre.n_sent + 1 {
                            seq_out[*ch] += 1;
                            pkts.push(Pkt { ch: *ch, tok: *tok, amount: moved, sender: w.users[*by].to_string(), data: sp.data.clone(), timeout: sp.timeout.clone(), state: PState::InFlight, seq: seq_out[*ch] });
                        }
                    }
                    ctx.flag("sent");
                } else {
                    if post != pre {
                        return Err(v(prop, "refused-transfer-changed-state", format!("{at}: a refused transfer changed state")));
                    }
                }
            }
            Done::Recv { ch, tok, form, amount, receiver, result, injected } => {
                let ack = match result {
                    Ok(Some(d)) => d.clone(),
                    Ok(None) => {
                        if prop == "C12" {
                            return Err(v(prop, "no-acknowledgement", format!("{at}: packet handled without an acknowledgement")));
                        }
                        Binary::default()
                    }
                    Err(e) => {
                        if prop == "C12" {
                            return Err(v(prop, "receive-aborted", format!("{at}: handling an incoming packet failed instead of answering with an error acknowledgement: {e}")));
                        }
                        // for the other properties an aborted receive is simply a packet that was not processed
                        if post != pre {
                            return Err(v(prop, "aborted-receive-changed-state", format!("{at}: aborted receive changed state")));
                        }
                        pre = post;
                        continue;
                    }
                };
                let ackv: serde_json::Value = serde_json::from_slice(ack.as_slice()).unwrap_or(serde_json::Value::Null);
                let success = ackv.get("result").is_some() && ackv.get("error").is_none();
                let is_error = ackv.get("error").is_some();
                if prop == "C12" && !success && !is_error {
                    return Err(v(prop, "ack-format", format!("{at}: acknowledgement is neither {{result}} nor {{error}}: {}", String::from_utf8_lossy(ack.as_slice()))));
                }
                ctx.count(if success { "recv_success_ack" } else { "recv_error_ack" });
                let moved_any = post.users != pre.users || post.hold != pre.hold;
                if success {
                    ctx.flag("recv_success");
                    let (Some(tok), Some(form)) = (tok, form) else {
                        return Err(v(prop, "garbage-packet-accepted", format!("{at}: a packet with undecodable data got a success acknowledgement")));
                    };
                    let base = w.local_denom(*tok);
                    let out_pre = World::outstanding(&pre, *ch, &base);
                    let out_post = World::outstanding(&post, *ch, &base);
                    let gained = receiver.map(|r| post.users[r][*tok].saturating_sub(pre.users[r][*tok])).or(outside_gain).unwrap_or(0);
                    if prop == "C11" && (!matches!(form, DenomForm::Right) || *amount > out_pre) {
                        return Err(v(prop, "foreign-or-excess-packet-released", format!("{at}: packet with denom form {:?} and amount {amount} (channel outstanding {out_pre}) got a success acknowledgement", form)));
                    }
                    let to_self = matches!(op, Op::Recv { receiver, .. } if *receiver as usize == N_USERS + 1);
                    if prop == "C12" && to_self {
                        // paid to the contract's own account: balances cannot show it, the payout itself must have
                        // been issued (a bank send / cw20 transfer of the full amount to that account)
                        let me = w.ics20.to_string();
                        let issued = *amount == 0 || subs.iter().any(|s| match &s.msg {
                            cosmwasm_std::CosmosMsg::Bank(cosmwasm_std::BankMsg::Send { to_address, amount: coins }) => *to_address == me && coins.iter().any(|c| c.amount.u128() == *amount),
                            cosmwasm_std::CosmosMsg::Wasm(WasmMsg::Execute { msg, .. }) => matches!(cosmwasm_std::from_json::<Cw20ExecuteMsg>(msg), Ok(Cw20ExecuteMsg::Transfer { recipient, amount: a }) if recipient == me && a.u128() == *amount),
                            _ => false,
                        });
                        ctx.count("redeemed_to_the_contract_itself");
                        if !issued {
                            return Err(v(prop, "success-ack-without-full-payout", format!("{at}: success acknowledgement for a packet whose receiver is the contract's own account, but no payout of {amount} to it was issued (sub-messages: {:?})", subs.iter().map(|s| &s.msg).collect::<Vec<_>>())));
                        }
                    } else if prop == "C12" {
                        if gained != *amount || (receiver.is_none() && outside_gain.is_none()) {
                            return Err(v(prop, "success-ack-without-full-payout", format!("{at}: success acknowledgement but the receiver gained {gained} of {amount}")));
                        }
                    }
                    if prop == "C12" {
                        if out_pre.checked_sub(*amount) != Some(out_post) {
                            return Err(v(prop, "success-ack-balance", format!("{at}: success acknowledgement: channel balance went {out_pre} -> {out_post}, amount {amount}")));
                        }
                    }
                    // ledgers follow the observed effects
                    let released = pre.hold[*tok].saturating_sub(post.hold[*tok]);
                    paid[*ch][*tok] += released;
                    redeemed[*ch][*tok] += *amount;
                    remote_held[*ch][*tok] = remote_held[*ch][*tok].saturating_sub(*amount);
                    if *amount > 0 {
                        ctx.flag("redeemed");
                    }
                } else {
                    ctx.flag("recv_error");
                    if *injected {
                        ctx.flag("payout_failure_injected");
                    }
                    match form {
                        Some(DenomForm::Right) => {
                            if !*injected {
                                ctx.count("error_ack_insufficient_or_other")
                            } else {
                                ctx.count("error_ack_failed_payout")
                            }
                        }
                        Some(_) => ctx.count("error_ack_bad_denom"),
                        None => ctx.count("error_ack_garbage"),
                    }
                    if prop == "C12" && post != pre {
                        let sig = "error-ack-changed-state";
                        let msg = format!("{at}: the packet was answered with an error acknowledgement ({}) but state changed: channels {:?} -> {:?}, holdings {:?} -> {:?}", String::from_utf8_lossy(ack.as_slice()), pre.chans, post.chans, pre.hold, post.hold);
                        if !ctx.tolerate("C12/error-ack-changed-state") {
                            return Err(v(prop, sig, msg));
                        }
                    }
                    if prop == "C11" && moved_any {
                        return Err(v(prop, "error-ack-released-funds", format!("{at}: error acknowledgement but balances moved")));
                    }
                    // keep the identity ledger aligned with a tolerated divergence
                    if let Some(tok) = tok {
                        let base = w.local_denom(*tok);
                        let d = World::outstanding(&pre, *ch, &base).saturating_sub(World::outstanding(&post, *ch, &base));
                        redeemed[*ch][*tok] += d;
                    }
                }
                if prop == "C18" {
                    check_gas(prop, &w, &pre, &subs, &at, ctx, allow_changed)?;
                }
            }
            Done::AckOrTimeout { pkt, success_ack, result, injected } => {
                let p = pkts[*pkt].clone();
                match result {
                    Ok(()) => {
                        pkts[*pkt].state = PState::Done;
                        if *success_ack {
                            ctx.count("ack_success");
                            if p.state == PState::InFlight {
                                remote_held[p.ch][p.tok] += p.amount;
                            }
                            if post != pre {
                                return Err(v(prop, "success-ack-changed-state", format!("{at}: acknowledging a delivered packet changed balances or channel state")));
                            }
                        } else {
                            ctx.count("ack_failure");
                            ctx.flag("refund_processed");
                            if *injected {
                                ctx.flag("refund_failure_injected");
                            }
                            let released = pre.hold[p.tok].saturating_sub(post.hold[p.tok]);
                            paid[p.ch][p.tok] += released;
                            let base = w.local_denom(p.tok);
                            let d = World::outstanding(&pre, p.ch, &base).saturating_sub(World::outstanding(&post, p.ch, &base));
                            failed[p.ch][p.tok] += d;
                            if prop == "C12" && d != p.amount {
                                return Err(v(prop, "failed-send-balance", format!("{at}: a failed/timed-out send of {} reduced the channel balance by {d}", p.amount)));
                            }
                            if released > 0 {
                                ctx.flag("refunded");
                            }
                        }
                        if prop == "C18" {
                            check_gas(prop, &w, &pre, &subs, &at, ctx, allow_changed)?;
                        }
                    }
                    Err(e) => {
                        ctx.count("ack_handling_failed");
                        // C12 (an honest counterparty: every packet is acknowledged or times out once): a send that
                        // failed or timed out comes off the balance - the handler has no reason to abort. (Upgraded
                        // contracts are left out: there a refund in a token that is not on the allow list yet
                        // is refused until governance allows the token, and can be retried then.)
                        if prop == "C12" && case.legacy.is_none() && p.state != PState::Done {
                            return Err(v(prop, "failed-send-not-processed", format!("{at}: handling the {} of a packet this contract sent ({} of {}, still {:?}) aborted: {}", if *success_ack { "success acknowledgement" } else { "error acknowledgement / timeout" }, p.amount, w.local_denom(p.tok), p.state, &e[..e.len().min(200)])));
                        }
                        if post != pre {
                            return Err(v(prop, "failed-ack-changed-state", format!("{at}: failed acknowledgement handling changed state")));
                        }
                    }
                }
            }
            Done::Allow { by, tok, gas, ok } => {
                ctx.count(if *ok { "op_allow_ok" } else { "op_allow_fail" });
                if prop == "C18" {
                    let was_admin = pre.admin.as_deref() == Some(by.as_str());
                    let key = w.cw20[*tok].to_string();
                    let old = pre.allowed.get(&key).cloned();
                    if *ok {
                        if !was_admin {
                            return Err(v(prop, "allow-by-non-governance", format!("{at}: Allow succeeded for a sender that is not the governance address {:?}", pre.admin)));
                        }
                        if post.allowed.get(&key) != Some(gas) {
                            return Err(v(prop, "allow-not-applied", format!("{at}: after a successful Allow the token's entry is {:?}", post.allowed.get(&key))));
                        }
                        if let Some(o) = old {
                            if !gas_le(o, *gas) {
                                return Err(v(prop, "gas-limit-lowered", format!("{at}: gas limit lowered from {:?} to {:?}", o, gas)));
                            }
                            if o != *gas {
                                ctx.flag("accepted_raise");
                            }
                        }
                        allow_changed = true;
                    } else if was_admin {
                        if let Some(o) = old {
                            if !gas_le(o, *gas) {
                                ctx.flag("refused_lowering");
                            }
                        }
                    }
                    if !was_admin && former_admins.contains(by) {
                        ctx.flag("attempt_by_former_gov");
                    }
                }
            }
            Done::UpdateAdmin { by, ok } => {
                if prop == "C18" {
                    let was_admin = pre.admin.as_deref() == Some(by.as_str());
                    if *ok && !was_admin {
                        return Err(v(prop, "admin-changed-by-non-governance", format!("{at}: UpdateAdmin succeeded for a sender that is not the governance address {:?}", pre.admin)));
                    }
                    if !was_admin && former_admins.contains(by) {
                        ctx.flag("attempt_by_former_gov");
                    }
                }
                if *ok && post.admin != pre.admin {
                    if let Some(a) = &pre.admin {
                        former_admins.push(Addr::unchecked(a.clone()));
                    }
                }
            }
            Done::Migrate { ok, default_gas } => {
                ctx.count(if *ok { "op_migrate_ok" } else { "op_migrate_fail" });
                if *ok && default_gas.is_some() {
                    allow_changed = true;
                }
            }
            Done::Other => {}
        }

        // governance state changes only through the governance address (C18)
        if prop == "C18" {
            let gov_op_by: Option<&Addr> = match &done {
                Done::Allow { by, ok: true, .. } | Done::UpdateAdmin { by, ok: true } => Some(by),
                _ => None,
            };
            let is_migrate_ok = matches!(done, Done::Migrate { ok: true, .. });
            if post.allowed != pre.allowed || post.admin != pre.admin {
                let legit = gov_op_by.map(|b| pre.admin.as_deref() == Some(b.as_str())).unwrap_or(false);
                if !legit {
                    return Err(v(prop, "governance-state-changed", format!("{at}: allow list or admin changed ({:?} -> {:?}, {:?} -> {:?}) outside a successful call of the governance address", pre.allowed, post.allowed, pre.admin, post.admin)));
                }
            }
            for (k, old) in &pre.allowed {
                match post.allowed.get(k) {
                    None => return Err(v(prop, "token-removed", format!("{at}: allowed token {k} was removed"))),
                    Some(new) => {
                        if !gas_le(*old, *new) {
                            return Err(v(prop, "gas-limit-lowered", format!("{at}: gas limit of {k} lowered {:?} -> {:?}", old, new)));
                        }
                    }
                }
            }
            if pre.cfg.default_gas_limit.is_some() && post.cfg.default_gas_limit.is_none() {
                return Err(v(prop, "default-gas-unset", format!("{at}: the default gas limit went from {:?} to none", pre.cfg.default_gas_limit)));
            }
            if post.cfg != pre.cfg && !is_migrate_ok && post.cfg.gov_contract == pre.cfg.gov_contract {
                return Err(v(prop, "config-changed", format!("{at}: config changed {:?} -> {:?} outside migrate", pre.cfg, post.cfg)));
            }
        }

        check_state(prop, &w, &post, &sent, &failed, &redeemed, &escrowed, &paid, &at, ctx)?;
        pre = post;
    }

    // ---------------- non-triviality
    ctx.nontrivial = match prop {
        "C11" => ctx.has("redeemed") && ctx.has("refund_processed") && (ctx.has("payout_failure_injected") || ctx.has("refund_failure_injected") || ctx.has("same_token_two_channels")),
        "C12" => ctx.has("recv_success") && ctx.has("recv_error"),
        "C18" => [ctx.has("accepted_raise"), ctx.has("refused_lowering"), ctx.has("payout_after_change"), ctx.has("attempt_by_former_gov")].iter().filter(|x| **x).count() >= 2,
        _ => false,
    };
    Ok(())
}

fn resolve_who(w: &World, by: &Who, pre: &Obs, former: &[Addr]) -> Addr {
    match by {
        Who::Gov => pre.admin.as_ref().map(|a| Addr::unchecked(a.clone())).unwrap_or_else(|| w.govs[0].clone()),
        Who::Former(k) => {
            if former.is_empty() {
                w.govs[*k as usize % 3].clone()
            } else {
                former[*k as usize % former.len()].clone()
            }
        }
        Who::User(i) => w.users[*i as usize % N_USERS].clone(),
        Who::ChainAdmin => w.wasm_admin.clone(),
        // (one past the last token: the ics20 contract's own address)
        Who::Token(k) => if *k as usize % (N_CW20 + 1) == N_CW20 { w.ics20.clone() } else { w.cw20[*k as usize % (N_CW20 + 1)].clone() },
    }
}

/// every payout / refund sub-message carries the token's allow-list limit, else the default (C18)
fn check_gas(prop: &str, w: &World, pre: &Obs, subs: &[SubLog], at: &str, ctx: &mut CaseCtx, allow_changed: bool) -> Result<(), Violation> {
    for s in subs {
        match &s.msg {
            cosmwasm_std::CosmosMsg::Wasm(WasmMsg::Execute { contract_addr, .. }) => {
                // (whatever the spelling: an address names the same account in upper and lower case)
                let contract_addr = &contract_addr.to_lowercase();
                if !w.cw20.iter().any(|c| c.as_str() == contract_addr) {
                    continue;
                }
                let want = match pre.allowed.get(contract_addr) {
                    Some(limit) => *limit,
                    None => pre.cfg.default_gas_limit,
                };
                // "the token's current limit or else the default": with neither an allow-list entry nor a
                // default there is nothing a payout could be issued with (the contract refuses such payouts)
                if !pre.allowed.contains_key(contract_addr) && pre.cfg.default_gas_limit.is_none() {
                    return Err(v(prop, "payout-without-limit-source", format!("{at}: payout sub-call to {contract_addr} although the token is not on the allow list and no default gas limit is configured")));
                }
                if s.gas_limit != want {
                    return Err(v(prop, "payout-gas-limit", format!("{at}: payout sub-call to {contract_addr} issued with gas limit {:?}, expected {:?} (allow list entry {:?}, default {:?})", s.gas_limit, want, pre.allowed.get(contract_addr), pre.cfg.default_gas_limit)));
                }
                ctx.count("cw20_payouts_checked");
                if allow_changed {
                    ctx.flag("payout_after_change");
                }
            }
            cosmwasm_std::CosmosMsg::Bank(_) => {
                if s.gas_limit.is_some() {
                    return Err(v(prop, "payout-gas-limit", format!("{at}: native payout issued with gas limit {:?}", s.gas_limit)));
                }
            }
            _ => {}
        }
    }
    Ok(())
}

#[allow(clippy::too_many_arguments)]
fn check_state(prop: &str, w: &World, o: &Obs, sent: &[[u128; N_TOK]], failed: &[[u128; N_TOK]], redeemed: &[[u128; N_TOK]], escrowed: &[[u128; N_TOK]], paid: &[[u128; N_TOK]], at: &str, ctx: &mut CaseCtx) -> Result<(), Violation> {
    match prop {
        "C11" => {
            for tok in 0..N_TOK {
                let denom = w.local_denom(tok);
                let mut sum: u128 = 0;
                let mut carrying = 0;
                for ch in 0..w.n_ch {
                    let out = World::outstanding(o, ch, &denom);
                    if out > 0 {
                        carrying += 1;
                    }
                    sum = sum.checked_add(out).ok_or_else(|| v(prop, "outstanding-overflow", format!("{at}: sum of outstanding balances overflows")))?;
                    if paid[ch][tok] > escrowed[ch][tok] {
                        return Err(v(prop, "paid-exceeds-escrowed", format!("{at}: channel {ch} has paid out {} of {denom} but only {} was ever escrowed on it", paid[ch][tok], escrowed[ch][tok])));
                    }
                }
                if carrying >= 2 {
                    ctx.flag("same_token_two_channels");
                }
                if o.hold[tok] < sum {
                    return Err(v(prop, "escrow-below-outstanding", format!("{at}: the contract holds {} of {denom} but reports {} outstanding over its channels", o.hold[tok], sum)));
                }
            }
            // "for every token": a denomination the reports name beyond the tokens the case moves is a token too
            let mut others: BTreeMap<String, u128> = BTreeMap::new();
            for ch in 0..w.n_ch.min(o.chans.len()) {
                for (d, (out, _)) in &o.chans[ch] {
                    if !(0..N_TOK).any(|t| w.local_denom(t) == *d) {
                        let e = others.entry(d.clone()).or_insert(0);
                        *e = e.saturating_add(*out);
                    }
                }
            }
            for (d, sum) in others {
                // (a cw20 denomination naming no token contract of this chain cannot be held at all)
                let hold = if d.starts_with("cw20:") { 0 } else { w.app.wrap().query_balance(w.ics20.to_string(), d.clone()).map(|c| c.amount.u128()).unwrap_or(0) };
                ctx.count("other_denoms_reported");
                if hold < sum {
                    return Err(v(prop, "escrow-below-outstanding", format!("{at}: the contract holds {hold} of {d} but reports {sum} outstanding over its channels")));
                }
            }
        }
        "C12" => {
            for ch in 0..w.n_ch {
                for tok in 0..N_TOK {
                    let denom = w.local_denom(tok);
                    let out = World::outstanding(o, ch, &denom);
                    let want = sent[ch][tok].checked_sub(failed[ch][tok]).and_then(|x| x.checked_sub(redeemed[ch][tok]));
                    if want != Some(out) {
                        return Err(v(prop, "balance-identity", format!("{at}: channel {ch} {denom}: outstanding {out} != sent {} - failed/timed out {} - redeemed {}", sent[ch][tok], failed[ch][tok], redeemed[ch][tok])));
                    }
                }
                for d in o.chans[ch].keys() {
                    let dust = w.dust && ch == 0 && (0..N_DUST).any(|k| dust_denom(k) == *d);
                    if !dust && !(0..N_TOK).any(|t| w.local_denom(t) == *d) {
                        return Err(v(prop, "unknown-denom-in-channel", format!("{at}: channel {ch} reports a balance for unknown denom {d}")));
                    }
                }
                // every dust denomination was sent once (one unit) and is neither failed nor redeemed
                if w.dust && ch == 0 {
                    for k in 0..N_DUST {
                        let d = dust_denom(k);
                        if o.chans[0].get(&d) != Some(&(1, 1)) {
                            return Err(v(prop, "balance-identity", format!("{at}: channel 0 {d}: reported (outstanding, total sent) {:?} != (1, 1): one unit was sent and is still in flight", o.chans[0].get(&d))));
                        }
                    }
                }
            }
        }
        _ => {}
    }
    Ok(())
}

/// fixed small state + one incoming packet with arbitrary data bytes (fuzz target `ics20_packet_bytes`):
/// two channels, native and cw20 tokens outstanding, then the raw packet on channel 0
pub fn raw_packet_case(bytes: &[u8]) -> Case {
    Case {
        channels: 2,
        allow: vec![(0, None), (1, Some(500_000))],
        default_gas: None,
        legacy: None,
        malicious: false,
        same_remote: false,
        dust: false,
        ops: vec![
            Op::SendNative { by: 0, ch: 0, denom: 0, amt: SendAmt::Abs(1000), timeout: None, memo: None },
            Op::SendCw20 { by: 1, ch: 0, tok: 0, amt: SendAmt::Abs(700), timeout: Some(50), memo: Some("m".into()) },
            Op::SendNative { by: 2, ch: 1, denom: 0, amt: SendAmt::Abs(300), timeout: None, memo: None },
            Op::Ack { pkt: 0, ok: true, refund_fails: false },
            Op::Ack { pkt: 0, ok: true, refund_fails: false },
            Op::RecvRaw { ch: 0, bytes: bytes.to_vec() },
            Op::RecvRaw { ch: 0, bytes: bytes.to_vec() },
        ],
    }
}

/// seed inputs for the raw-packet target: well-formed packets for the fixed state above
pub fn raw_packet_seeds() -> Vec<Vec<u8>> {
    let app = new_app();
    let user0 = app.api().addr_make("user0").to_string();
    let mut out = vec![];
    for (denom, amount) in [("transfer/channel-1/uatom", "100"), ("transfer/channel-1/uatom", "1000"), ("transfer/channel-1/uatom", "1001"), ("uatom", "5"), ("transfer/channel-2/uatom", "5"), ("transfer/channel-1/cw20:unknown", "1")] {
        out.push(format!(r#"{{"amount":"{amount}","denom":"{denom}","receiver":"{user0}","sender":"remote"}}"#).into_bytes());
    }
    out.push(br#"{"amount":"1","denom":"transfer/channel-1/uatom","receiver":"x","sender":"remote","memo":"hi"}"#.to_vec());
    out
}

// ------------------------------------------------------------------ family

pub struct Ics20Family;

const ASSUME: &[&str] = &[
    "cw-multi-test 2.0.0 + the harness' sudo shim stand for wasmd/IBC core: sub-messages are dispatched atomically, `reply` runs on failure and its data overrides the acknowledgement; gas limits are recorded, not enforced",
    "IBC core is honest: packets arrive on connected channels with src = the channel's counterparty endpoint, each sent packet gets at most one ack or timeout carrying the original packet bytes; the counterparty's packet contents are arbitrary (C11) or follow the honest voucher model (C12)",
    "native denoms never start with 'cw20:' (C11, C12; C18 also sends a bank coin named cw20:<token address>, its governance oracle does not depend on the escrow ledger)",
    "legacy storage images (0.11.1 / 0.12.1 / 0.13.0) are fabricated from frozen layouts; one channel, as the migration requires",
];

impl Family for Ics20Family {
    type Case = Case;
    fn name(&self) -> &'static str {
        "ics20"
    }
    fn props(&self) -> Vec<PropSpec> {
        vec![
            PropSpec { id: "C11", quick_cases: 6000, thorough_cases: 7000, floor: 150, rule: "case = 1-3 channels, allow list, default gas limit, up to 36 (thorough 90) ops: native and cw20 transfers (amounts up to and above 2^64-1), incoming packets from a malicious counterparty (denom forms: right prefix, bare, wrong port, wrong channel, another channel's prefix, nested, unknown base; amounts around / above the outstanding balance, 0, > 2^64; valid and invalid receivers; raw garbage), deliver / ack success / ack error / timeout per sent packet in any order, payout and refund sub-calls failing on demand (blocked bank recipient, flaky cw20); oracle: real holdings >= sum over channels of reported outstanding per token and paid <= escrowed per (channel, token), foreign / excess packets release nothing, error acks move nothing. Non-trivial: >=1 redeeming packet, >=1 processed refund and (an injected payout/refund failure or one token outstanding on two channels).", assumptions: ASSUME },
            PropSpec { id: "C12", quick_cases: 6000, thorough_cases: 7000, floor: 225, rule: "as C11 with an honest counterparty model (vouchers minted on delivery, only held vouchers returned), governance changes (Allow, UpdateAdmin, migrate) and a 30% upgrade arm starting from a fabricated 0.11.1 / 0.12.1 / 0.13.0 storage image (acked sends booked, in-flight sends held but unbooked, cw20 tokens possibly absent from the allow list) that is migrated first; oracle: outstanding == sent - failed/timed-out - redeemed per (channel, denom) after every op; receive never aborts and always acks; success ack => full payout and balance reduced; error ack => all channel states, holdings and user balances unchanged; every accepted transfer emits exactly one packet with amount == escrowed funds (<= 2^64-1), denom, true sender, receiver, memo, timeout == block time + requested-or-default. Non-trivial: >=1 success ack and >=1 error ack on incoming packets.", assumptions: ASSUME },
            PropSpec { id: "C18", quick_cases: 7000, thorough_cases: 8000, floor: 140, rule: "case with sparse initial allow list and default gas limit, ops weighted to Allow (new / raise / lower / some->none / none->some), UpdateAdmin, migrate, cw20 transfers (also after a native coin named cw20:<token> was sent on the channel) and packets that trigger payouts, by governance, former governance and strangers; oracle: allow list / admin change only in successful calls of the pre-call governance address, set only grows, per-token limit never decreases (none = unlimited), default never unset, cw20 transfer accepted only if allowed or default set, every cw20 payout/refund sub-message carries the token's current limit else the default (native: none). Non-trivial: >= 2 of {accepted raise, refused lowering, cw20 payout after a change, attempt by former governance}.", assumptions: ASSUME },
        ]
    }
    fn strategy(&self, prop: &str, tier: Tier) -> BoxedStrategy<Case> {
        case_strategy(prop, tier)
    }
    fn run(&self, prop: &str, case: &Case, ctx: &mut CaseCtx) -> Result<(), Violation> {
        run_case(prop, case, ctx)
    }
    fn decode(&self, prop: &str, u: &mut arbitrary::Unstructured) -> Option<Case> {
        Some(decode_case(prop, u))
    }
}

// ------------------------------------------------------------------ byte decoder (fuzz front-end)

pub fn decode_case(prop: &str, u: &mut arbitrary::Unstructured) -> Case {
    use vcore::amounts::{arb_below, arb_bool};
    let d_gas = |u: &mut arbitrary::Unstructured| -> Option<u64> {
        match arb_below(u, 8) {
            0 | 1 => None,
            2 => Some(0),
            7 => Some(u64::MAX),
            _ => Some(1 + u.arbitrary::<u32>().unwrap_or(0) as u64 % 1_000_000),
        }
    };
    let malicious = match prop {
        "C11" => true,
        "C12" => false,
        _ => arb_bool(u, 1, 2),
    };
    let legacy = if arb_bool(u, if prop == "C12" { 3 } else { 1 }, 10) {
        let n = 1 + arb_below(u, 3);
        let tokens = (0..n)
            .map(|_| {
                let k = arb_below(u, 3);
                (arb_below(u, N_TOK) as u8, if arb_bool(u, 1, 3) { 0 } else { u.arbitrary::<u16>().unwrap_or(0) as u64 % 3000 }, (0..k).map(|_| 1 + u.arbitrary::<u16>().unwrap_or(0) as u32 % 500).collect())
            })
            .collect();
        Some(Legacy { version: arb_below(u, 3) as u8, tokens, listed: (0..N_CW20).map(|_| arb_bool(u, 1, 2)).collect(), migrate_default_gas: d_gas(u), token_query_fails: arb_bool(u, 1, 8), late_channels: if arb_bool(u, 1, 2) { 1 + arb_below(u, 2) as u8 } else { 0 } })
    } else {
        None
    };
    let channels = if legacy.is_some() && !arb_bool(u, 1, 7) { 1 } else { 1 + arb_below(u, 3) as u8 };
    let n_allow = arb_below(u, 4);
    let allow = (0..n_allow).map(|_| (arb_below(u, N_CW20) as u8, d_gas(u))).collect();
    let default_gas = d_gas(u);
    let d_send_amt = |u: &mut arbitrary::Unstructured| -> SendAmt {
        match arb_below(u, 12) {
            0 => SendAmt::Abs(0),
            1 => SendAmt::Abs(u64::MAX as u128),
            2 => SendAmt::Abs(u64::MAX as u128 + 1),
            3 => SendAmt::Frac(u.arbitrary().unwrap_or(0)),
            _ => SendAmt::Abs(1 + u.arbitrary::<u16>().unwrap_or(0) as u128 % 2000),
        }
    };
    let d_memo = |u: &mut arbitrary::Unstructured| -> Option<String> {
        match arb_below(u, 4) {
            0 | 1 => None,
            2 => Some(String::new()),
            _ => Some(format!("m{}", u.arbitrary::<u8>().unwrap_or(0))),
        }
    };
    let d_who = |u: &mut arbitrary::Unstructured| -> Who {
        match arb_below(u, 9) {
            0..=3 => Who::Gov,
            4 | 5 => Who::Former(arb_below(u, 3) as u8),
            6 => Who::User(arb_below(u, N_USERS) as u8),
            7 => Who::ChainAdmin,
            _ => Who::Token(arb_below(u, N_CW20 + 1) as u8),
        }
    };
    let n_ops = arb_below(u, 44);
    let mut ops = vec![];
    for _ in 0..n_ops {
        let ch = if arb_bool(u, 1, 16) { 3 } else { arb_below(u, 3) as u8 };
        let timeout = if arb_bool(u, 2, 5) { Some(u.arbitrary::<u16>().unwrap_or(0) as u32 % 5000) } else { None };
        let op = match arb_below(u, 16) {
            0 | 1 => Op::SendNative { by: arb_below(u, N_USERS) as u8, ch, denom: arb_below(u, N_NATIVE) as u8, amt: d_send_amt(u), timeout, memo: d_memo(u) },
            2 | 3 => Op::SendCw20 { by: if arb_bool(u, 1, 13) { 200 } else { arb_below(u, N_USERS) as u8 }, ch, tok: arb_below(u, N_CW20) as u8, amt: d_send_amt(u), timeout, memo: d_memo(u) },
            4 => Op::Deliver { pkt: u.arbitrary().unwrap_or(0) },
            5..=8 => {
                let form = if malicious {
                    match arb_below(u, 10) {
                        0..=4 => DenomForm::Right,
                        5 => DenomForm::Bare,
                        6 => DenomForm::WrongPort,
                        7 => DenomForm::WrongChannel,
                        8 => if arb_bool(u, 1, 2) { DenomForm::OtherChannel(arb_below(u, 3) as u8) } else { DenomForm::NearChannel },
                        _ => [DenomForm::Nested, DenomForm::UnknownBase, DenomForm::NearPort, DenomForm::WasmPort, DenomForm::OwnEnd][arb_below(u, 5)],
                    }
                } else if arb_bool(u, 1, 12) {
                    DenomForm::Bare
                } else {
                    DenomForm::Right
                };
                let amt = match arb_below(u, 6) {
                    0 => RecvAmt::Abs(u.arbitrary::<u16>().unwrap_or(0) as u128 % 2000),
                    1 | 2 => RecvAmt::Outstanding(arb_below(u, 5) as i8 - 2),
                    3 => RecvAmt::RemoteHeld(arb_below(u, 2) as i8 - 1),
                    4 => RecvAmt::Frac(u.arbitrary().unwrap_or(0)),
                    _ => if malicious { RecvAmt::Abs(vcore::amounts::arb_u128(u)) } else { RecvAmt::Frac(255) },
                };
                Op::Recv { ch: arb_below(u, 3) as u8, tok: arb_below(u, N_TOK) as u8, live: if arb_bool(u, 4, 5) { Some(u.arbitrary().unwrap_or(0)) } else { None }, form, amt, receiver: if arb_bool(u, 1, 13) { N_USERS as u8 + if arb_bool(u, 1, 2) { 1 } else { 0 } } else { arb_below(u, N_USERS) as u8 }, payout_fails: arb_bool(u, 1, 5), memo: arb_bool(u, 1, 5) }
            }
            9 => {
                let n = arb_below(u, 40);
                Op::RecvRaw { ch: arb_below(u, 3) as u8, bytes: (0..n).map(|_| u.arbitrary().unwrap_or(0)).collect() }
            }
            10 | 11 => Op::Ack { pkt: u.arbitrary().unwrap_or(0), ok: arb_bool(u, 3, 5), refund_fails: arb_bool(u, 1, 4) },
            12 => Op::Timeout { pkt: u.arbitrary().unwrap_or(0), refund_fails: arb_bool(u, 1, 4) },
            13 => Op::Allow { by: d_who(u), tok: arb_below(u, N_CW20) as u8, gas: d_gas(u) },
            14 => if arb_bool(u, 1, 2) { Op::UpdateAdmin { by: d_who(u), to: arb_below(u, 3) as u8 } } else { Op::Migrate { default_gas: d_gas(u), from: arb_below(u, 4) as u8 } },
            _ => if prop == "C18" && arb_bool(u, 1, 2) { Op::SendAlias { by: arb_below(u, N_USERS) as u8, ch: arb_below(u, 3) as u8, tok: arb_below(u, N_CW20) as u8, amt: u.arbitrary().unwrap_or(0) } } else { Op::Advance { secs: u.arbitrary::<u16>().unwrap_or(0) % 3000 } },
        };
        ops.push(op);
    }
    let same_remote = arb_bool(u, 1, 5);
    let dust = prop != "C18" && arb_bool(u, 1, 16);
    Case { channels, allow, default_gas, legacy, malicious, ops, same_remote, dust }
}
