// stub
