//! cw1 family (cw1-whitelist and cw1-subkeys proxies): C07 (relays exactly the submitted
//! messages, only when authorised), C08 (a subkey never spends beyond its unexpired native
//! allowance), C16 (CanExecute predicts Execute), C17 (admin set changes only by admins
//! while mutable; freezing is permanent).
//! One case type + one interpreter; the oracle that is evaluated is chosen by the property
//! id, so every check reports only its own property.
#![allow(deprecated)] // CosmosMsg::Stargate is deprecated but still a constructible kind

use cosmwasm_std::{
    AnyMsg, BankMsg, Binary, Coin, CosmosMsg, Decimal, DistributionMsg, Empty, GovMsg, IbcMsg,
    IbcTimeout, IbcTimeoutBlock, ReplyOn, Response, StakingMsg, Timestamp, Uint128, Uint256,
    VoteOption, WasmMsg, WeightedVoteOption,
};
use cosmwasm_std::Addr;
use cw1::CanExecuteResponse;
use cw1_subkeys::msg::{ExecuteMsg as SubExec, QueryMsg as SubQuery};
use cw1_subkeys::state::{Allowance, Permissions};
use cw1_whitelist::msg::{AdminListResponse, ExecuteMsg as WlExec, InstantiateMsg, QueryMsg as WlQuery};
use cw_utils::Expiration;
use proptest::prelude::*;
use proptest::strategy::Union;
use serde::{Deserialize, Serialize};
use std::collections::{BTreeMap, BTreeSet};
use vcore::amounts::{edge_u128, pick};
use vcore::direct::Direct;
use vcore::exp::{exp_spec, is_expired_ns, ExpSpec};
use vcore::{CaseCtx, Family, PropSpec, Tier, Violation};

/// pool of valid addresses that appear in admin lists and as subkeys
pub const N_ACTORS: usize = 5;
/// address-field indices: 0..N_ACTORS are the actors, N_ACTORS.. are invalid address strings
pub const N_ADDR: usize = N_ACTORS + 2;
/// sender indices: 0..N_ACTORS are the actors, N_ACTORS is one more valid address that never
/// appears in any admin list or grant (the outsider)
pub const N_SENDERS: usize = N_ACTORS + 1;
/// index 3 is a denom nobody is ever granted, index 4 a different denom that differs from index 0 only in
/// letter case
// (the last one is shorter than a bank denomination may be: the proxy keeps books in whatever it is told)
const DENOMS: [&str; 6] = ["uatom", "ubtc", "ueth", "zzz", "UATOM", "ux"];
const VALIDATORS: [&str; 2] = ["valoper-one", "valoper-two"];
const CHANNELS: [&str; 2] = ["channel-0", "channel-7"];
const TYPE_URLS: [&str; 2] = ["/cosmos.bank.v1beta1.MsgSend", "/cosmos.authz.v1beta1.MsgExec"];

// ---------------------------------------------------------------- case

/// who sends a call; the state-relative variants are resolved by the interpreter against the
/// proxy's current state so that every caller class stays common along a history
#[derive(Clone, Debug, Serialize, Deserialize, PartialEq)]
pub enum Who {
    /// sender index (0..N_SENDERS)
    Actor(u8),
    /// k-th current admin among the senders
    Admin(u16),
    /// k-th non-admin sender that was granted an allowance or permissions at some point
    Granted(u16),
    /// k-th non-admin sender that has a visible allowance or a permission flag now
    Holding(u16),
    /// k-th non-admin sender that never received a grant
    Plain(u16),
    /// k-th sender that used to be admin and is not any more
    Removed(u16),
    /// k-th actor that is not an admin now (the same address as `Sp::NonAdmin(k)`)
    NonAdmin(u16),
}

/// the subkey an allowance / permission call refers to
#[derive(Clone, Debug, Serialize, Deserialize, PartialEq)]
pub enum Sp {
    /// address-field index (0..N_ADDR, the last two are invalid strings)
    Addr(u8),
    /// k-th actor that is not an admin now
    NonAdmin(u16),
    /// k-th actor that has a visible allowance now
    Holding(u16),
}

#[derive(Clone, Debug, Serialize, Deserialize, PartialEq)]
pub enum Amt {
    Abs(u128),
    /// the visible allowance (of the sender for messages, of the subkey for grants) in this denom, +d
    Rel(i8),
    /// (k+1)/256 of that allowance
    Frac(u8),
    /// what is left of that allowance after the earlier bank sends of the same call, +d
    Rest(i8),
}

/// a denomination: fixed index into the denom pool, or relative to the allowance in question
#[derive(Clone, Debug, Serialize, Deserialize, PartialEq)]
pub enum Den {
    Ix(u8),
    /// k-th denom of the visible allowance (of the sender for messages, of the subkey for
    /// grants); falls back to the pool when that allowance is empty
    Held(u16),
}

pub type Coins = Vec<(Den, Amt)>;

/// serialisable description of one CosmosMsg; the interpreter builds the real message
#[derive(Clone, Debug, Serialize, Deserialize, PartialEq)]
pub enum MsgSpec {
    Send { to: u8, coins: Coins },
    Burn { coins: Coins },
    Delegate { val: u8, denom: Den, amt: Amt },
    Undelegate { val: u8, denom: Den, amt: Amt },
    Redelegate { src: u8, dst: u8, denom: Den, amt: Amt },
    SetWithdrawAddress { to: u8 },
    WithdrawReward { val: u8 },
    FundCommunityPool { coins: Coins },
    WasmExecute { to: u8, payload: Vec<u8>, coins: Coins },
    WasmInstantiate { admin: Option<u8>, code_id: u64, payload: Vec<u8>, coins: Coins },
    WasmInstantiate2 { admin: Option<u8>, code_id: u64, payload: Vec<u8>, coins: Coins, salt: Vec<u8> },
    WasmMigrate { to: u8, code_id: u64, payload: Vec<u8> },
    WasmUpdateAdmin { to: u8, admin: u8 },
    WasmClearAdmin { to: u8 },
    IbcTransfer { channel: u8, to: u8, denom: Den, amt: Amt, timeout: u8, memo: bool },
    IbcSendPacket { channel: u8, data: Vec<u8>, timeout: u8 },
    IbcCloseChannel { channel: u8 },
    GovVote { id: u64, option: u8 },
    GovVoteWeighted { id: u64, options: Vec<(u8, u8)> },
    Stargate { url: u8, value: Vec<u8> },
    Any { url: u8, value: Vec<u8> },
    Custom,
}

impl MsgSpec {
    fn kind(&self) -> &'static str {
        match self {
            MsgSpec::Send { .. } => "send",
            MsgSpec::Burn { .. } => "burn",
            MsgSpec::Delegate { .. } => "delegate",
            MsgSpec::Undelegate { .. } => "undelegate",
            MsgSpec::Redelegate { .. } => "redelegate",
            MsgSpec::SetWithdrawAddress { .. } => "set_withdraw_address",
            MsgSpec::WithdrawReward { .. } => "withdraw_reward",
            MsgSpec::FundCommunityPool { .. } => "fund_community_pool",
            MsgSpec::WasmExecute { .. } => "wasm_execute",
            MsgSpec::WasmInstantiate { .. } => "wasm_instantiate",
            MsgSpec::WasmInstantiate2 { .. } => "wasm_instantiate2",
            MsgSpec::WasmMigrate { .. } => "wasm_migrate",
            MsgSpec::WasmUpdateAdmin { .. } => "wasm_update_admin",
            MsgSpec::WasmClearAdmin { .. } => "wasm_clear_admin",
            MsgSpec::IbcTransfer { .. } => "ibc_transfer",
            MsgSpec::IbcSendPacket { .. } => "ibc_send_packet",
            MsgSpec::IbcCloseChannel { .. } => "ibc_close_channel",
            MsgSpec::GovVote { .. } => "gov_vote",
            MsgSpec::GovVoteWeighted { .. } => "gov_vote_weighted",
            MsgSpec::Stargate { .. } => "stargate",
            MsgSpec::Any { .. } => "any",
            MsgSpec::Custom => "custom",
        }
    }
}

#[derive(Clone, Debug, Serialize, Deserialize, PartialEq)]
pub enum Op {
    /// `funds`: coins attached to the call (denom index, amount); they play no role in authorisation or
    /// in what an allowance is charged
    Execute { by: Who, msgs: Vec<MsgSpec>, #[serde(default)] funds: Vec<(u8, u8)> },
    Freeze { by: Who },
    UpdateAdmins { by: Who, admins: Vec<u8> },
    Increase { by: Who, spender: Sp, denom: Den, amt: Amt, exp: Option<ExpSpec> },
    Decrease { by: Who, spender: Sp, denom: Den, amt: Amt, exp: Option<ExpSpec> },
    /// perm bits: 1 delegate, 2 redelegate, 4 undelegate, 8 withdraw
    SetPermissions { by: Who, spender: Sp, perm: u8 },
    Advance { blocks: u8, secs: u16, #[serde(default)] nanos: u32 },
    /// cw1-subkeys only: the stored cw2 version is set to an older release (same storage layout) and
    /// `migrate` runs - a code upgrade, which is not a call of any admin
    Upgrade { from: u8 },
}

#[derive(Clone, Debug, Serialize, Deserialize, PartialEq)]
pub struct Probe {
    pub sender: Who,
    pub msg: MsgSpec,
}

#[derive(Clone, Debug, Serialize, Deserialize, PartialEq)]
pub struct Case {
    /// true: cw1-subkeys, false: cw1-whitelist
    pub subkeys: bool,
    /// address-field indices (duplicates and invalid strings possible)
    pub admins: Vec<u8>,
    pub mutable: bool,
    pub ops: Vec<Op>,
    /// C16: (sender, message) pairs compared on the state reached by `ops`
    pub probes: Vec<Probe>,
    /// the chain-level (wasm module) admin of the proxy - who may migrate it; an actor that need not be in
    /// the proxy's own admin list. The role gives no rights inside the contract.
    #[serde(default)]
    pub chain_admin: Option<u8>,
    /// who instantiates the proxy (sender index; N_ACTORS = the legacy default) and with which coins
    /// attached: neither gives the creator any role
    #[serde(default = "default_creator")]
    pub creator: u8,
    #[serde(default)]
    pub init_funds: Vec<(u8, u8)>,
    /// actor 3 is itself a contract (a proxy of its own) that answers every smart query put to it with
    /// `{"can_execute":true}`; being asked gives nobody any rights here
    #[serde(default)]
    pub peer: bool,
}

fn default_creator() -> u8 {
    N_ACTORS as u8
}

fn attached() -> BoxedStrategy<Vec<(u8, u8)>> {
    prop_oneof![6 => Just(vec![]), 1 => proptest::collection::vec((0u8..3, 1u8..30), 1..=2)].boxed()
}

fn attached_coins(f: &[(u8, u8)]) -> Vec<Coin> {
    let mut m: BTreeMap<&str, u128> = BTreeMap::new();
    for (d, a) in f {
        *m.entry(DENOMS[*d as usize % 3]).or_insert(0) += *a as u128;
    }
    m.into_iter().map(|(d, a)| Coin::new(a, d)).collect()
}

// ---------------------------------------------------------------- strategies

fn addr_ix() -> BoxedStrategy<u8> {
    prop_oneof![40 => 0u8..N_ACTORS as u8, 1 => N_ACTORS as u8..N_ADDR as u8, 3 => Just(N_ADDR as u8)].boxed()
}
/// denom of a coin inside a message
fn denom_ix() -> BoxedStrategy<Den> {
    prop_oneof![20 => any::<u16>().prop_map(Den::Held), 8 => (0u8..3).prop_map(Den::Ix), 2 => Just(Den::Ix(3)), 1 => (4u8..6).prop_map(Den::Ix)].boxed()
}
fn denom_grant() -> BoxedStrategy<Den> {
    // (index 4: `UATOM`, another denomination than `uatom`)
    prop_oneof![6 => any::<u16>().prop_map(Den::Held), 16 => (0u8..3).prop_map(Den::Ix), 2 => Just(Den::Ix(3)), 1 => (4u8..6).prop_map(Den::Ix)].boxed()
}
fn denom_decrease() -> BoxedStrategy<Den> {
    prop_oneof![24 => any::<u16>().prop_map(Den::Held), 6 => (0u8..3).prop_map(Den::Ix), 2 => Just(Den::Ix(3)), 1 => (4u8..6).prop_map(Den::Ix)].boxed()
}
fn bytes() -> BoxedStrategy<Vec<u8>> {
    proptest::collection::vec(any::<u8>(), 0..5).boxed()
}

fn amt_msg() -> BoxedStrategy<Amt> {
    prop_oneof![
        6 => any::<u8>().prop_map(Amt::Frac),
        5 => (-1i8..=1).prop_map(Amt::Rest),
        4 => (-1i8..=1).prop_map(Amt::Rel),
        2 => Just(Amt::Abs(0)),
        1 => Just(Amt::Abs(1)),
        3 => (0u128..200).prop_map(Amt::Abs),
        1 => edge_u128().prop_map(Amt::Abs),
    ]
    .boxed()
}

fn amt_grant() -> BoxedStrategy<Amt> {
    prop_oneof![
        1 => Just(Amt::Abs(0)),
        1 => Just(Amt::Abs(1)),
        14 => (1u128..1000).prop_map(Amt::Abs),
        2 => (0u128..=1_000_000).prop_map(Amt::Abs),
        1 => edge_u128().prop_map(Amt::Abs),
        1 => (-1i8..=1).prop_map(Amt::Rel),
    ]
    .boxed()
}

fn amt_decrease() -> BoxedStrategy<Amt> {
    prop_oneof![
        5 => (-1i8..=1).prop_map(Amt::Rel),
        6 => any::<u8>().prop_map(Amt::Frac),
        1 => Just(Amt::Abs(0)),
        4 => (0u128..300).prop_map(Amt::Abs),
        1 => edge_u128().prop_map(Amt::Abs),
    ]
    .boxed()
}

fn coins(max: usize) -> BoxedStrategy<Coins> {
    prop_oneof![
        1 => Just(vec![]),
        8 => proptest::collection::vec((denom_ix(), amt_msg()), 1..=1),
        4 => proptest::collection::vec((denom_ix(), amt_msg()), 0..=max),
    ]
    .boxed()
}

#[derive(Clone, Copy)]
struct MsgWeights {
    send: u32,
    burn: u32,
    staking: u32, // each of the three staking variants
    distr: u32,   // each of the three distribution variants
    other: u32,   // each of the remaining 14 kinds
}

fn msg_spec(w: MsgWeights) -> BoxedStrategy<MsgSpec> {
    let b = |s: BoxedStrategy<MsgSpec>| s;
    let arms: Vec<(u32, BoxedStrategy<MsgSpec>)> = vec![
        (w.send, b((addr_ix(), coins(3)).prop_map(|(to, coins)| MsgSpec::Send { to, coins }).boxed())),
        (w.burn, b(coins(2).prop_map(|coins| MsgSpec::Burn { coins }).boxed())),
        (w.staking, b((0u8..2, denom_ix(), amt_msg()).prop_map(|(val, denom, amt)| MsgSpec::Delegate { val, denom, amt }).boxed())),
        (w.staking, b((0u8..2, denom_ix(), amt_msg()).prop_map(|(val, denom, amt)| MsgSpec::Undelegate { val, denom, amt }).boxed())),
        (w.staking, b((0u8..2, 0u8..2, denom_ix(), amt_msg()).prop_map(|(src, dst, denom, amt)| MsgSpec::Redelegate { src, dst, denom, amt }).boxed())),
        (w.distr, b(addr_ix().prop_map(|to| MsgSpec::SetWithdrawAddress { to }).boxed())),
        (w.distr, b((0u8..2).prop_map(|val| MsgSpec::WithdrawReward { val }).boxed())),
        (w.distr, b(coins(2).prop_map(|coins| MsgSpec::FundCommunityPool { coins }).boxed())),
        (w.other, b((addr_ix(), bytes(), coins(2)).prop_map(|(to, payload, coins)| MsgSpec::WasmExecute { to, payload, coins }).boxed())),
        (w.other, b((proptest::option::of(addr_ix()), 0u64..9, bytes(), coins(2)).prop_map(|(admin, code_id, payload, coins)| MsgSpec::WasmInstantiate { admin, code_id, payload, coins }).boxed())),
        (w.other, b((proptest::option::of(addr_ix()), 0u64..9, bytes(), coins(2), bytes()).prop_map(|(admin, code_id, payload, coins, salt)| MsgSpec::WasmInstantiate2 { admin, code_id, payload, coins, salt }).boxed())),
        (w.other, b((addr_ix(), 0u64..9, bytes()).prop_map(|(to, code_id, payload)| MsgSpec::WasmMigrate { to, code_id, payload }).boxed())),
        (w.other, b((addr_ix(), addr_ix()).prop_map(|(to, admin)| MsgSpec::WasmUpdateAdmin { to, admin }).boxed())),
        (w.other, b(addr_ix().prop_map(|to| MsgSpec::WasmClearAdmin { to }).boxed())),
        (w.other, b((0u8..2, addr_ix(), denom_ix(), amt_msg(), 0u8..3, any::<bool>()).prop_map(|(channel, to, denom, amt, timeout, memo)| MsgSpec::IbcTransfer { channel, to, denom, amt, timeout, memo }).boxed())),
        (w.other, b((0u8..2, bytes(), 0u8..3).prop_map(|(channel, data, timeout)| MsgSpec::IbcSendPacket { channel, data, timeout }).boxed())),
        (w.other, b((0u8..2).prop_map(|channel| MsgSpec::IbcCloseChannel { channel }).boxed())),
        (w.other, b((0u64..5, 0u8..4).prop_map(|(id, option)| MsgSpec::GovVote { id, option }).boxed())),
        (w.other, b((0u64..5, proptest::collection::vec((0u8..4, 0u8..=100), 0..3)).prop_map(|(id, options)| MsgSpec::GovVoteWeighted { id, options }).boxed())),
        (w.other, b((0u8..2, bytes()).prop_map(|(url, value)| MsgSpec::Stargate { url, value }).boxed())),
        (w.other, b((0u8..2, bytes()).prop_map(|(url, value)| MsgSpec::Any { url, value }).boxed())),
        (w.other, b(Just(MsgSpec::Custom).boxed())),
    ];
    Union::new_weighted(arms.into_iter().filter(|(w, _)| *w > 0).collect::<Vec<_>>()).boxed()
}

/// messages a subkey may be entitled to (bank sends within the allowance, staking /
/// distribution messages covered by flags): used as the allowed prefix of mixed lists
fn grantable_msg() -> BoxedStrategy<MsgSpec> {
    let small = || prop_oneof![4 => (0u8..80).prop_map(Amt::Frac), 2 => Just(Amt::Rest(0)), 1 => Just(Amt::Abs(1)), 1 => Just(Amt::Abs(0))];
    prop_oneof![
        8 => (addr_ix(), proptest::collection::vec((any::<u16>().prop_map(Den::Held), small()), 1..=2)).prop_map(|(to, coins)| MsgSpec::Send { to, coins }),
        1 => (0u8..2, denom_ix(), amt_msg()).prop_map(|(val, denom, amt)| MsgSpec::Delegate { val, denom, amt }),
        1 => (0u8..2, denom_ix(), amt_msg()).prop_map(|(val, denom, amt)| MsgSpec::Undelegate { val, denom, amt }),
        1 => (0u8..2, 0u8..2, denom_ix(), amt_msg()).prop_map(|(src, dst, denom, amt)| MsgSpec::Redelegate { src, dst, denom, amt }),
        1 => addr_ix().prop_map(|to| MsgSpec::SetWithdrawAddress { to }),
        1 => (0u8..2).prop_map(|val| MsgSpec::WithdrawReward { val }),
    ]
    .boxed()
}

fn who(admin: u32, granted: u32, plain: u32, removed: u32, actor: u32) -> BoxedStrategy<Who> {
    let arms: Vec<(u32, BoxedStrategy<Who>)> = vec![
        (admin, any::<u16>().prop_map(Who::Admin).boxed()),
        (granted * 2, any::<u16>().prop_map(Who::Holding).boxed()),
        (granted, any::<u16>().prop_map(Who::Granted).boxed()),
        (plain, any::<u16>().prop_map(Who::Plain).boxed()),
        (removed, any::<u16>().prop_map(Who::Removed).boxed()),
        (actor, (0u8..N_SENDERS as u8).prop_map(Who::Actor).boxed()),
    ];
    Union::new_weighted(arms.into_iter().filter(|(w, _)| *w > 0).collect::<Vec<_>>()).boxed()
}

fn sp() -> BoxedStrategy<Sp> {
    prop_oneof![
        6 => any::<u16>().prop_map(Sp::NonAdmin),
        5 => any::<u16>().prop_map(Sp::Holding),
        4 => addr_ix().prop_map(Sp::Addr),
    ]
    .boxed()
}

fn perm_bits() -> BoxedStrategy<u8> {
    prop_oneof![4 => Just(15u8), 1 => Just(0u8), 6 => 0u8..16].boxed()
}

fn admin_list() -> BoxedStrategy<Vec<u8>> {
    prop_oneof![
        1 => Just(vec![]),
        8 => proptest::collection::vec(addr_ix(), 1..=2),
        3 => proptest::collection::vec(addr_ix(), 3..=3),
    ]
    .boxed()
}

#[derive(Clone, Copy)]
struct OpWeights {
    exec: u32,
    mixed: u32, // Execute: grantable prefix + one arbitrary last message, by a granted subkey
    covered: u32, // Execute: 1-4 grantable messages by a granted subkey
    freeze: u32,
    upd: u32,
    incr: u32,
    decr: u32,
    perm: u32,
    adv: u32,
    /// grant; advance; spend; grant again on one subkey (C08)
    regrant: u32,
}

fn op_weights(prop: &str, subkeys: bool) -> OpWeights {
    let mut w = match prop {
        "C08" => OpWeights { exec: 12, mixed: 1, covered: 3, freeze: 0, upd: 1, incr: 8, decr: 3, perm: 1, adv: 5, regrant: 3 },
        "C17" => OpWeights { exec: 3, mixed: 0, covered: 1, freeze: 1, upd: 9, incr: 3, decr: 2, perm: 3, adv: 1, regrant: 2 },
        // C07, C16
        _ => OpWeights { exec: 8, mixed: 5, covered: 4, freeze: 1, upd: 2, incr: 7, decr: 2, perm: 4, adv: 3, regrant: 1 },
    };
    if !subkeys {
        w.incr = 0;
        w.decr = 0;
        w.perm = 0;
        w.regrant = 0;
        w.mixed = 0;
        w.covered = 0;
        if prop != "C17" {
            w.upd += 2;
        }
    }
    w
}

fn msg_weights(prop: &str) -> MsgWeights {
    match prop {
        "C08" => MsgWeights { send: 120, burn: 2, staking: 1, distr: 1, other: 0 },
        "C17" => MsgWeights { send: 20, burn: 1, staking: 2, distr: 2, other: 1 },
        _ => MsgWeights { send: 22, burn: 4, staking: 3, distr: 3, other: 1 },
    }
}

fn op_group(prop: &str, subkeys: bool) -> BoxedStrategy<Vec<Op>> {
    let w = op_weights(prop, subkeys);
    let mw = msg_weights(prop);
    let one = |s: BoxedStrategy<Op>| s.prop_map(|o| vec![o]).boxed();
    let exec_who = if subkeys { who(3, 8, 1, 1, 1) } else { who(5, 0, 4, 2, 3) };
    let admin_who = || who(10, 1, 1, 1, 1);
    let msgs = prop_oneof![
        1 => Just(vec![]),
        6 => proptest::collection::vec(msg_spec(mw), 1..=1),
        8 => proptest::collection::vec(msg_spec(mw), 2..=5),
    ];
    let arms: Vec<(u32, BoxedStrategy<Vec<Op>>)> = vec![
        (w.exec, one((exec_who, msgs, attached()).prop_map(|(by, msgs, funds)| Op::Execute { by, msgs, funds }).boxed())),
        (w.mixed, one((who(0, 12, 1, 0, 1), proptest::collection::vec(grantable_msg(), 1..=3), msg_spec(MsgWeights { send: 6, burn: 4, staking: 1, distr: 2, other: 1 }))
            .prop_map(|(by, mut msgs, last)| {
                msgs.push(last);
                Op::Execute { by, msgs, funds: vec![] }
            })
            .boxed())),
        (w.covered, one((who(0, 12, 0, 0, 1), proptest::collection::vec(grantable_msg(), 1..=4), attached()).prop_map(|(by, msgs, funds)| Op::Execute { by, msgs, funds }).boxed())),
        (w.freeze, one(who(6, 2, 2, 2, 2).prop_map(|by| Op::Freeze { by }).boxed())),
        (w.upd, one((who(8, 1, 1, 3, 2), admin_list()).prop_map(|(by, admins)| Op::UpdateAdmins { by, admins }).boxed())),
        (w.incr, one((admin_who(), sp(), denom_grant(), amt_grant(), prop_oneof![2 => Just(None), 3 => exp_spec().prop_map(Some)]).prop_map(|(by, spender, denom, amt, exp)| Op::Increase { by, spender, denom, amt, exp }).boxed())),
        (w.decr, one((admin_who(), sp(), denom_decrease(), amt_decrease(), prop_oneof![4 => Just(None), 1 => exp_spec().prop_map(Some)]).prop_map(|(by, spender, denom, amt, exp)| Op::Decrease { by, spender, denom, amt, exp }).boxed())),
        (w.perm, one((admin_who(), sp(), perm_bits()).prop_map(|(by, spender, perm)| Op::SetPermissions { by, spender, perm }).boxed())),
        // block times are not whole seconds: a third of the steps also move the sub-second part
        (w.adv, one((0u8..4, 0u16..40, prop_oneof![2 => Just(0u32), 1 => 1u32..1_000_000_000]).prop_map(|(blocks, secs, nanos)| Op::Advance { blocks, secs, nanos }).boxed())),
        (1, one((0u8..4).prop_map(|from| Op::Upgrade { from }).boxed())),
        (w.regrant, (any::<u16>(), (0u8..3).prop_map(Den::Ix), 1u128..500, prop_oneof![(1i32..4).prop_map(ExpSpec::Height), (1i64..15).prop_map(ExpSpec::Time)], 0u8..4, proptest::collection::vec(msg_spec(MsgWeights { send: 1, burn: 0, staking: 0, distr: 0, other: 0 }), 1..=2), 1u128..500, proptest::option::weighted(0.7, exp_spec()), 0u8..N_SENDERS as u8)
            .prop_map(|(s, denom, g1, e1, adv, msgs, g2, e2, other)| {
                vec![
                    Op::Increase { by: Who::Admin(0), spender: Sp::NonAdmin(s), denom: denom.clone(), amt: Amt::Abs(g1), exp: Some(e1) },
                    Op::Advance { blocks: adv, secs: adv as u16 * 5, nanos: 0 },
                    Op::Execute { by: Who::NonAdmin(s), msgs, funds: vec![] },
                    // somebody relays nothing (always accepted), then the admin tops the subkey up again - with
                    // a new deadline, or without one (refused if the allowance has run out in the meantime)
                    Op::Execute { by: Who::Actor(other), msgs: vec![], funds: vec![] },
                    Op::Increase { by: Who::Admin(0), spender: Sp::NonAdmin(s), denom, amt: Amt::Abs(g2), exp: e2 },
                ]
            })
            .boxed()),
        // a subkey wraps a payment in a call back into the proxy itself (next to zero to two messages it is
        // entitled to): whatever the proxy's own standing, the subkey's call is about a message kind nobody
        // granted it
        (w.regrant, (who(0, 12, 1, 0, 1), proptest::collection::vec(grantable_msg(), 0..=2))
            .prop_map(|(by, mut msgs)| {
                msgs.push(MsgSpec::WasmExecute { to: N_ADDR as u8, payload: vec![], coins: vec![] });
                vec![Op::Execute { by, msgs, funds: vec![] }]
            })
            .boxed()),
        // on the brink: a grant with a time deadline that is not on a whole second, then a block in the deadline's
        // own second, shortly before it (half of the time) or after it, and the subkey spends
        (w.regrant, (any::<u16>(), (0u8..3).prop_map(Den::Ix), 1u128..500, 1u32..1_000_000_000, 1i64..6, 0u32..1_000_000_000, proptest::collection::vec(msg_spec(MsgWeights { send: 1, burn: 0, staking: 0, distr: 0, other: 0 }), 1..=2))
            .prop_map(|(s, denom, g, n1, k, n2, msgs)| {
                vec![
                    Op::Advance { blocks: 0, secs: 0, nanos: n1 },
                    Op::Increase { by: Who::Admin(0), spender: Sp::NonAdmin(s), denom, amt: Amt::Abs(g), exp: Some(ExpSpec::Time(k)) },
                    Op::Advance { blocks: 1, secs: (k - 1) as u16, nanos: n2 },
                    Op::Execute { by: Who::NonAdmin(s), msgs, funds: vec![] },
                ]
            })
            .boxed()),
    ];
    Union::new_weighted(arms.into_iter().filter(|(w, _)| *w > 0).collect::<Vec<_>>()).boxed()
}

fn probe(subkeys: bool) -> BoxedStrategy<Probe> {
    let sender = if subkeys { who(2, 8, 1, 1, 2) } else { who(4, 0, 3, 2, 3) };
    (sender, msg_spec(MsgWeights { send: 30, burn: 4, staking: 3, distr: 3, other: 1 })).prop_map(|(sender, msg)| Probe { sender, msg }).boxed()
}

pub fn case_strategy(prop: &str, tier: Tier) -> BoxedStrategy<Case> {
    let max_groups = match (prop, tier) {
        ("C16", Tier::Quick) => 25usize,
        ("C16", Tier::Thorough) => 50,
        (_, Tier::Quick) => 40,
        (_, Tier::Thorough) => 100,
    };
    let p_subkeys = match prop {
        "C08" => 1.0,
        "C17" => 0.5,
        "C16" => 0.75,
        _ => 0.7,
    };
    let prop = prop.to_string();
    let n_probes = if prop == "C16" { 20usize } else { 0 };
    let p_mutable = if prop == "C17" { 0.8 } else { 0.9 };
    proptest::bool::weighted(p_subkeys)
        .prop_flat_map(move |subkeys| {
            // subkeys histories usually start with a few grants so that subkeys are live early
            let prologue = if subkeys {
                proptest::collection::vec(
                    prop_oneof![
                        5 => (any::<u16>(), (0u8..3).prop_map(Den::Ix), 20u128..2000, prop_oneof![3 => Just(None), 1 => Just(Some(ExpSpec::Never)), 2 => (5i32..40).prop_map(|h| Some(ExpSpec::Height(h))), 2 => (30i64..400).prop_map(|t| Some(ExpSpec::Time(t)))])
                            .prop_map(|(k, denom, g, exp)| Op::Increase { by: Who::Admin(0), spender: Sp::NonAdmin(k), denom, amt: Amt::Abs(g), exp }),
                        2 => (any::<u16>(), perm_bits()).prop_map(|(k, perm)| Op::SetPermissions { by: Who::Admin(0), spender: Sp::NonAdmin(k), perm }),
                    ],
                    0..=4,
                )
                .boxed()
            } else {
                Just(vec![]).boxed()
            };
            let groups = prop_oneof![
                1 => proptest::collection::vec(op_group(&prop, subkeys), 0..12),
                4 => proptest::collection::vec(op_group(&prop, subkeys), 12..max_groups),
            ];
            let ops = (prologue, groups).prop_map(|(mut p, g)| {
                p.extend(g.into_iter().flatten());
                p
            });
            let probes = proptest::collection::vec(probe(subkeys), n_probes..=n_probes);
            (admin_list(), proptest::bool::weighted(p_mutable), ops, probes, proptest::option::weighted(0.5, 0u8..N_ACTORS as u8), 0u8..N_SENDERS as u8, attached(), proptest::bool::weighted(0.3)).prop_map(move |(admins, mutable, ops, probes, chain_admin, creator, init_funds, peer)| Case { subkeys, admins, mutable, ops, probes, chain_admin, creator, init_funds, peer })
        })
        .boxed()
}

// ---------------------------------------------------------------- world

#[derive(Clone, Debug, PartialEq)]
struct Vis {
    /// denom -> amount, zero amounts dropped
    bal: BTreeMap<String, u128>,
    expires: Expiration,
}

impl Vis {
    fn none() -> Vis {
        Vis { bal: BTreeMap::new(), expires: Expiration::Never {} }
    }
    fn get(&self, denom: &str) -> u128 {
        self.bal.get(denom).copied().unwrap_or(0)
    }
}

/// everything the public queries show, for the admin list and the N_SENDERS addresses
#[derive(Clone, Debug, PartialEq)]
struct Obs {
    admins: Vec<String>,
    mutable: bool,
    allow: Vec<Vis>,
    perms: Vec<Permissions>,
    /// the stored allowance / permission records as they are (address -> bytes): the queries hide expired
    /// allowances, the records are still what admins created
    raw_allow: BTreeMap<String, Vec<u8>>,
    raw_perm: BTreeMap<String, Vec<u8>>,
}

impl Obs {
    fn is_admin(&self, a: &str) -> bool {
        self.admins.iter().any(|x| x == a)
    }
}

#[derive(Clone, Debug)]
enum Call {
    Execute(Vec<CosmosMsg>),
    Freeze,
    UpdateAdmins(Vec<String>),
    Increase { spender: String, coin: Coin, exp: Option<Expiration> },
    Decrease { spender: String, coin: Coin, exp: Option<Expiration> },
    SetPermissions { spender: String, perm: Permissions },
}

impl Call {
    fn kind(&self) -> &'static str {
        match self {
            Call::Execute(_) => "Execute",
            Call::Freeze => "Freeze",
            Call::UpdateAdmins(_) => "UpdateAdmins",
            Call::Increase { .. } => "Increase",
            Call::Decrease { .. } => "Decrease",
            Call::SetPermissions { .. } => "SetPermissions",
        }
    }
}

struct World {
    d: Direct,
    subkeys: bool,
    senders: Vec<Addr>,
    addrs: Vec<String>,
}

fn exec_on(d: &mut Direct, subkeys: bool, sender: &Addr, call: &Call) -> Result<Response, String> {
    exec_with(d, subkeys, sender, call, &[])
}

fn exec_with(d: &mut Direct, subkeys: bool, sender: &Addr, call: &Call, funds: &[Coin]) -> Result<Response, String> {
    let info = Direct::info(sender, funds);
    if subkeys {
        let msg: SubExec<Empty> = match call.clone() {
            Call::Execute(msgs) => SubExec::Execute { msgs },
            Call::Freeze => SubExec::Freeze {},
            Call::UpdateAdmins(admins) => SubExec::UpdateAdmins { admins },
            Call::Increase { spender, coin, exp } => SubExec::IncreaseAllowance { spender, amount: coin, expires: exp },
            Call::Decrease { spender, coin, exp } => SubExec::DecreaseAllowance { spender, amount: coin, expires: exp },
            Call::SetPermissions { spender, perm } => SubExec::SetPermissions { spender, permissions: perm },
        };
        d.tx(|deps, env| cw1_subkeys::contract::execute(deps, env, info, msg))
    } else {
        let msg: WlExec<Empty> = match call.clone() {
            Call::Execute(msgs) => WlExec::Execute { msgs },
            Call::Freeze => WlExec::Freeze {},
            Call::UpdateAdmins(admins) => WlExec::UpdateAdmins { admins },
            _ => return Err("not a cw1-whitelist message".to_string()),
        };
        d.tx(|deps, env| cw1_whitelist::contract::execute(deps, env, info, msg))
    }
}

fn can_execute_on(d: &Direct, subkeys: bool, sender: &Addr, msg: &CosmosMsg) -> Result<bool, String> {
    let r: CanExecuteResponse = if subkeys {
        let q: SubQuery<Empty> = SubQuery::CanExecute { sender: sender.to_string(), msg: msg.clone() };
        d.query(|deps, env| cw1_subkeys::contract::query(deps, env, q))?
    } else {
        let q: WlQuery<Empty> = WlQuery::CanExecute { sender: sender.to_string(), msg: msg.clone() };
        d.query(|deps, env| cw1_whitelist::contract::query(deps, env, q))?
    };
    Ok(r.can_execute)
}

impl World {
    fn new(subkeys: bool) -> World {
        let d = Direct::new();
        let mut senders: Vec<Addr> = (0..N_ACTORS).map(|i| d.api.addr_make(&format!("actor{i}"))).collect();
        // the extra sender outside the actor pool is the proxy's own address: a contract can be its own
        // admin and can call itself (address index N_ADDR names it in admin lists and message fields)
        senders.push(d.contract.clone());
        let mut addrs: Vec<String> = senders[..N_ACTORS].iter().map(|a| a.to_string()).collect();
        addrs.push("x".to_string());
        addrs.push(senders[0].to_string().to_uppercase());
        World { d, subkeys, senders, addrs }
    }

    fn observe(&self) -> Result<Obs, String> {
        let al: AdminListResponse = if self.subkeys {
            self.d.query(|deps, env| cw1_subkeys::contract::query(deps, env, SubQuery::AdminList {}))?
        } else {
            self.d.query(|deps, env| cw1_whitelist::contract::query(deps, env, WlQuery::AdminList {}))?
        };
        let mut allow = vec![];
        let mut perms = vec![];
        for a in &self.senders {
            if self.subkeys {
                let r: Allowance = self.d.query(|deps, env| cw1_subkeys::contract::query(deps, env, SubQuery::Allowance { spender: a.to_string() }))?;
                let mut bal: BTreeMap<String, u128> = BTreeMap::new();
                for c in r.balance.0 {
                    let e = bal.entry(c.denom).or_insert(0);
                    *e = e.saturating_add(c.amount.u128());
                }
                bal.retain(|_, v| *v != 0);
                allow.push(Vis { bal, expires: r.expires });
                let p: Permissions = self.d.query(|deps, env| cw1_subkeys::contract::query(deps, env, SubQuery::Permissions { spender: a.to_string() }))?;
                perms.push(p);
            } else {
                allow.push(Vis::none());
                perms.push(Permissions::default());
            }
        }
        let raw = |ns: &str| -> BTreeMap<String, Vec<u8>> {
            let mut prefix = vec![0u8, ns.len() as u8];
            prefix.extend_from_slice(ns.as_bytes());
            self.d.store.data.iter().filter(|(k, _)| k.starts_with(&prefix)).map(|(k, v)| (String::from_utf8_lossy(&k[prefix.len()..]).to_string(), v.clone())).collect()
        };
        Ok(Obs { admins: al.admins, mutable: al.mutable, allow, perms, raw_allow: raw("allowances"), raw_perm: raw("permissions") })
    }
}

/// Allowance and permission *records* are created or altered only by calls from current admins; the one
/// exception is a subkey's own successful spending, which rewrites its own allowance record.
fn check_records_only_by_admins(prop: &str, w: &World, s: &Step, ok: bool, pre: &Obs, post: &Obs, at: &str) -> Result<(), Violation> {
    let admin = pre.is_admin(w.senders[s.sender].as_str());
    if ok && admin {
        return Ok(());
    }
    let own = w.senders[s.sender].as_str();
    for (name, a, b, spending_allowed) in [("allowance", &pre.raw_allow, &post.raw_allow, true), ("permission", &pre.raw_perm, &post.raw_perm, false)] {
        for k in a.keys().chain(b.keys()) {
            if a.get(k) != b.get(k) {
                // (spending rewrites an existing record; it neither creates nor deletes one)
                // and spending only ever lowers what is there: no amount grows, no denomination appears, the
                // deadline stays)
                if spending_allowed && ok && matches!(s.call, Call::Execute(_)) && k == own && a.contains_key(k) && b.contains_key(k) {
                    let parse = |raw: &Vec<u8>| cosmwasm_std::from_json::<cw1_subkeys::state::Allowance>(raw).ok();
                    match (parse(&a[k]), parse(&b[k])) {
                        (Some(x), Some(y)) => {
                            let before = |d: &str| x.balance.0.iter().filter(|c| c.denom == d).map(|c| c.amount.u128()).sum::<u128>();
                            let grown = y.balance.0.iter().any(|c| c.amount.u128() > before(&c.denom));
                            if !grown && x.expires == y.expires {
                                continue;
                            }
                            return Err(v(prop, "record-changed-by-non-admin", format!("{at}: the subkey's own call raised its stored allowance (or moved its deadline): {:?} / {:?} -> {:?} / {:?}", x.balance.0, x.expires, y.balance.0, y.expires)));
                        }
                        _ => continue,
                    }
                }
                return Err(v(prop, "record-changed-by-non-admin", format!("{at}: the stored {name} record of {k} was {} in a call that is not a successful call of a current admin (admins {:?})", if b.contains_key(k) { if a.contains_key(k) { "rewritten" } else { "created" } } else { "deleted" }, pre.admins)));
            }
        }
    }
    Ok(())
}

fn v(prop: &str, sig: &str, msg: String) -> Violation {
    Violation::new(prop, &format!("{prop}/{sig}"), msg)
}

fn adj(base: u128, d: i8) -> u128 {
    if d >= 0 {
        base.saturating_add(d as u128)
    } else {
        base.saturating_sub((-(d as i16)) as u128)
    }
}

fn resolve_den(d: &Den, allow: &Vis) -> String {
    match d {
        Den::Ix(i) => DENOMS[*i as usize % DENOMS.len()].to_string(),
        Den::Held(k) => {
            if allow.bal.is_empty() {
                DENOMS[pick(*k, 3)].to_string()
            } else {
                allow.bal.keys().nth(pick(*k, allow.bal.len())).cloned().unwrap_or_default()
            }
        }
    }
}

fn frac(x: u128, k: u8) -> u128 {
    let r = Uint256::from(x) * Uint256::from(k as u128 + 1) / Uint256::from(256u128);
    Uint128::try_from(r).map(|u| u.u128()).unwrap_or(x)
}

/// builds the real messages of one call for one sender
struct Builder<'a> {
    w: &'a World,
    allow: &'a Vis,
    /// per denom: amount already put into bank sends of this call
    used: BTreeMap<String, u128>,
}

impl<'a> Builder<'a> {
    fn amount(&self, denom: &str, a: &Amt) -> u128 {
        let have = self.allow.get(denom);
        match a {
            Amt::Abs(x) => *x,
            Amt::Rel(d) => adj(have, *d),
            Amt::Frac(k) => frac(have, *k),
            Amt::Rest(d) => adj(have.saturating_sub(self.used.get(denom).copied().unwrap_or(0)), *d),
        }
    }
    fn coin(&mut self, denom: &Den, a: &Amt, is_send: bool) -> Coin {
        let denom = resolve_den(denom, self.allow);
        let denom = denom.as_str();
        let x = self.amount(denom, a);
        if is_send {
            let e = self.used.entry(denom.to_string()).or_insert(0);
            *e = e.saturating_add(x);
        }
        Coin { denom: denom.to_string(), amount: Uint128::new(x) }
    }
    fn coins(&mut self, cs: &Coins, is_send: bool) -> Vec<Coin> {
        cs.iter().map(|(d, a)| self.coin(d, a, is_send)).collect()
    }
    fn addr(&self, i: u8) -> String {
        // index N_ADDR in a message field means the proxy's own address
        if i as usize == N_ADDR {
            return self.w.d.contract.to_string();
        }
        self.w.addrs[i as usize % N_ADDR].clone()
    }
    fn val(&self, i: u8) -> String {
        VALIDATORS[i as usize % VALIDATORS.len()].to_string()
    }
    fn timeout(&self, k: u8) -> IbcTimeout {
        let ts = Timestamp::from_seconds(self.w.d.time + 60);
        let blk = IbcTimeoutBlock { revision: 1, height: self.w.d.height + 10 };
        match k % 3 {
            0 => IbcTimeout::with_timestamp(ts),
            1 => IbcTimeout::with_block(blk),
            _ => IbcTimeout::with_both(blk, ts),
        }
    }
    fn build(&mut self, m: &MsgSpec) -> CosmosMsg {
        let vote = |o: u8| match o % 4 {
            0 => VoteOption::Yes,
            1 => VoteOption::No,
            2 => VoteOption::Abstain,
            _ => VoteOption::NoWithVeto,
        };
        match m {
            MsgSpec::Send { to, coins } => CosmosMsg::Bank(BankMsg::Send { to_address: self.addr(*to), amount: self.coins(coins, true) }),
            MsgSpec::Burn { coins } => CosmosMsg::Bank(BankMsg::Burn { amount: self.coins(coins, false) }),
            MsgSpec::Delegate { val, denom, amt } => CosmosMsg::Staking(StakingMsg::Delegate { validator: self.val(*val), amount: self.coin(denom, amt, false) }),
            MsgSpec::Undelegate { val, denom, amt } => CosmosMsg::Staking(StakingMsg::Undelegate { validator: self.val(*val), amount: self.coin(denom, amt, false) }),
            MsgSpec::Redelegate { src, dst, denom, amt } => CosmosMsg::Staking(StakingMsg::Redelegate { src_validator: self.val(*src), dst_validator: self.val(*dst), amount: self.coin(denom, amt, false) }),
            MsgSpec::SetWithdrawAddress { to } => CosmosMsg::Distribution(DistributionMsg::SetWithdrawAddress { address: self.addr(*to) }),
            MsgSpec::WithdrawReward { val } => CosmosMsg::Distribution(DistributionMsg::WithdrawDelegatorReward { validator: self.val(*val) }),
            MsgSpec::FundCommunityPool { coins } => CosmosMsg::Distribution(DistributionMsg::FundCommunityPool { amount: self.coins(coins, false) }),
            // (addressed to the proxy itself, a short payload stands for a well-formed call back into the proxy:
            // Execute with one bank send of 1 uatom to actor 0, nothing attached)
            MsgSpec::WasmExecute { to, payload, .. } if *to as usize == N_ADDR && payload.len() <= 2 => {
                let inner: CosmosMsg = CosmosMsg::Bank(BankMsg::Send { to_address: self.w.addrs[0].clone(), amount: vec![Coin::new(1u128, DENOMS[0])] });
                CosmosMsg::Wasm(WasmMsg::Execute { contract_addr: self.addr(*to), msg: cosmwasm_std::to_json_binary(&SubExec::<Empty>::Execute { msgs: vec![inner] }).unwrap(), funds: vec![] })
            }
            MsgSpec::WasmExecute { to, payload, coins } => CosmosMsg::Wasm(WasmMsg::Execute { contract_addr: self.addr(*to), msg: Binary::from(payload.clone()), funds: self.coins(coins, false) }),
            MsgSpec::WasmInstantiate { admin, code_id, payload, coins } => CosmosMsg::Wasm(WasmMsg::Instantiate { admin: admin.map(|a| self.addr(a)), code_id: *code_id, msg: Binary::from(payload.clone()), funds: self.coins(coins, false), label: "proxy-child".to_string() }),
            MsgSpec::WasmInstantiate2 { admin, code_id, payload, coins, salt } => CosmosMsg::Wasm(WasmMsg::Instantiate2 { admin: admin.map(|a| self.addr(a)), code_id: *code_id, label: "proxy-child".to_string(), msg: Binary::from(payload.clone()), funds: self.coins(coins, false), salt: Binary::from(salt.clone()) }),
            MsgSpec::WasmMigrate { to, code_id, payload } => CosmosMsg::Wasm(WasmMsg::Migrate { contract_addr: self.addr(*to), new_code_id: *code_id, msg: Binary::from(payload.clone()) }),
            MsgSpec::WasmUpdateAdmin { to, admin } => CosmosMsg::Wasm(WasmMsg::UpdateAdmin { contract_addr: self.addr(*to), admin: self.addr(*admin) }),
            MsgSpec::WasmClearAdmin { to } => CosmosMsg::Wasm(WasmMsg::ClearAdmin { contract_addr: self.addr(*to) }),
            MsgSpec::IbcTransfer { channel, to, denom, amt, timeout, memo } => CosmosMsg::Ibc(IbcMsg::Transfer {
                channel_id: CHANNELS[*channel as usize % CHANNELS.len()].to_string(),
                to_address: self.addr(*to),
                amount: self.coin(denom, amt, false),
                timeout: self.timeout(*timeout),
                memo: if *memo { Some("memo".to_string()) } else { None },
            }),
            MsgSpec::IbcSendPacket { channel, data, timeout } => CosmosMsg::Ibc(IbcMsg::SendPacket { channel_id: CHANNELS[*channel as usize % CHANNELS.len()].to_string(), data: Binary::from(data.clone()), timeout: self.timeout(*timeout) }),
            MsgSpec::IbcCloseChannel { channel } => CosmosMsg::Ibc(IbcMsg::CloseChannel { channel_id: CHANNELS[*channel as usize % CHANNELS.len()].to_string() }),
            MsgSpec::GovVote { id, option } => CosmosMsg::Gov(GovMsg::Vote { proposal_id: *id, option: vote(*option) }),
            MsgSpec::GovVoteWeighted { id, options } => CosmosMsg::Gov(GovMsg::VoteWeighted { proposal_id: *id, options: options.iter().map(|(o, w)| WeightedVoteOption { option: vote(*o), weight: Decimal::percent(*w as u64) }).collect() }),
            MsgSpec::Stargate { url, value } => CosmosMsg::Stargate { type_url: TYPE_URLS[*url as usize % TYPE_URLS.len()].to_string(), value: Binary::from(value.clone()) },
            MsgSpec::Any { url, value } => CosmosMsg::Any(AnyMsg { type_url: TYPE_URLS[*url as usize % TYPE_URLS.len()].to_string(), value: Binary::from(value.clone()) }),
            MsgSpec::Custom => CosmosMsg::Custom(Empty {}),
        }
    }
}

// ---------------------------------------------------------------- authorisation predicate (C07)

/// What the subkeys documentation grants to a non-admin, written from the property text and
/// the README: bank sends within the unexpired allowance (cumulatively in list order), staking /
/// distribution messages whose permission flag is set; nothing else.
/// Returns the index of the first message the caller's grants do not cover and why.
fn first_forbidden(msgs: &[CosmosMsg], allow: &Vis, perm: &Permissions) -> Option<(usize, &'static str)> {
    let mut total: BTreeMap<String, Uint256> = BTreeMap::new();
    for (i, m) in msgs.iter().enumerate() {
        match m {
            CosmosMsg::Bank(BankMsg::Send { amount, .. }) => {
                for c in amount {
                    *total.entry(c.denom.clone()).or_insert(Uint256::zero()) += Uint256::from(c.amount);
                }
                for c in amount {
                    if total[&c.denom] > Uint256::from(allow.get(&c.denom)) {
                        return Some((i, "send-not-covered"));
                    }
                }
            }
            CosmosMsg::Staking(StakingMsg::Delegate { .. }) => {
                if !perm.delegate {
                    return Some((i, "permission-flag-missing"));
                }
            }
            CosmosMsg::Staking(StakingMsg::Undelegate { .. }) => {
                if !perm.undelegate {
                    return Some((i, "permission-flag-missing"));
                }
            }
            CosmosMsg::Staking(StakingMsg::Redelegate { .. }) => {
                if !perm.redelegate {
                    return Some((i, "permission-flag-missing"));
                }
            }
            CosmosMsg::Distribution(DistributionMsg::SetWithdrawAddress { .. }) | CosmosMsg::Distribution(DistributionMsg::WithdrawDelegatorReward { .. }) => {
                if !perm.withdraw {
                    return Some((i, "permission-flag-missing"));
                }
            }
            _ => return Some((i, "message-kind-not-grantable")),
        }
    }
    None
}

/// per-denom total of all bank sends in a list (zero totals dropped)
fn send_totals(msgs: &[CosmosMsg]) -> BTreeMap<String, Uint256> {
    let mut total: BTreeMap<String, Uint256> = BTreeMap::new();
    for m in msgs {
        // (native tokens a relayed message takes out of the proxy: sent away or burned)
        if let CosmosMsg::Bank(BankMsg::Send { amount, .. }) | CosmosMsg::Bank(BankMsg::Burn { amount }) = m {
            for c in amount {
                *total.entry(c.denom.clone()).or_insert(Uint256::zero()) += Uint256::from(c.amount);
            }
        }
    }
    total.retain(|_, v| !v.is_zero());
    total
}

// ---------------------------------------------------------------- interpreter

struct Step {
    call: Call,
    sender: usize,
    /// sender index of the subkey an allowance / permission call refers to (None: not one of the observed addresses)
    target: Option<usize>,
    kinds: Vec<&'static str>,
}

#[derive(Default)]
struct Track {
    ever_admin: BTreeSet<usize>,
    ever_granted: BTreeSet<usize>,
    /// allowance of s vanished during an Advance and was not changed by an admin since
    expired_now: BTreeSet<usize>,
    granted: BTreeMap<(usize, String), Uint256>,
    relayed: BTreeMap<(usize, String), Uint256>,
    frozen: Option<Vec<String>>,
    attempts_after_freeze: u32,
    admin_attempts_after_freeze: u32,
}

fn resolve_who(wh: &Who, w: &World, o: &Obs, t: &Track) -> usize {
    let admins: Vec<usize> = (0..N_SENDERS).filter(|i| o.is_admin(w.senders[*i].as_str())).collect();
    let choose = |k: u16, pool: Vec<usize>| -> usize {
        if pool.is_empty() {
            pick(k, N_SENDERS)
        } else {
            pool[pick(k, pool.len())]
        }
    };
    match wh {
        Who::Actor(i) => *i as usize % N_SENDERS,
        Who::Admin(k) => choose(*k, admins),
        Who::Granted(k) => choose(*k, (0..N_SENDERS).filter(|i| !admins.contains(i) && t.ever_granted.contains(i)).collect()),
        Who::Holding(k) => {
            let holding: Vec<usize> = (0..N_SENDERS).filter(|i| !admins.contains(i) && (!o.allow[*i].bal.is_empty() || o.perms[*i] != Permissions::default())).collect();
            if holding.is_empty() {
                choose(*k, (0..N_SENDERS).filter(|i| !admins.contains(i) && t.ever_granted.contains(i)).collect())
            } else {
                choose(*k, holding)
            }
        }
        Who::Plain(k) => choose(*k, (0..N_SENDERS).filter(|i| !admins.contains(i) && !t.ever_granted.contains(i)).collect()),
        Who::NonAdmin(k) => choose(*k, (0..N_ACTORS).filter(|i| !admins.contains(i)).collect()),
        Who::Removed(k) => choose(*k, (0..N_SENDERS).filter(|i| !admins.contains(i) && t.ever_admin.contains(i)).collect()),
    }
}

/// (address string, sender index if it is an observed address)
fn resolve_sp(sp: &Sp, w: &World, o: &Obs) -> (String, Option<usize>) {
    let ix = match sp {
        Sp::Addr(i) => *i as usize % N_ADDR,
        Sp::NonAdmin(k) => {
            let pool: Vec<usize> = (0..N_ACTORS).filter(|i| !o.is_admin(w.senders[*i].as_str())).collect();
            if pool.is_empty() {
                pick(*k, N_ACTORS)
            } else {
                pool[pick(*k, pool.len())]
            }
        }
        Sp::Holding(k) => {
            let pool: Vec<usize> = (0..N_ACTORS).filter(|i| !o.allow[*i].bal.is_empty()).collect();
            if pool.is_empty() {
                pick(*k, N_ACTORS)
            } else {
                pool[pick(*k, pool.len())]
            }
        }
    };
    (w.addrs[ix].clone(), if ix < N_ACTORS { Some(ix) } else { None })
}

fn perm_of(bits: u8) -> Permissions {
    Permissions { delegate: bits & 1 != 0, redelegate: bits & 2 != 0, undelegate: bits & 4 != 0, withdraw: bits & 8 != 0 }
}

/// C16: the query and the call on a copy of the same state
fn differential(prop: &str, w: &World, pre: &Obs, t: &Track, sender: usize, msg: &CosmosMsg, kind: &str, at: &str, ctx: &mut CaseCtx) -> Result<(), Violation> {
    let addr = &w.senders[sender];
    let q = can_execute_on(&w.d, w.subkeys, addr, msg);
    let mut copy = w.d.clone();
    let e = exec_on(&mut copy, w.subkeys, addr, &Call::Execute(vec![msg.clone()]));
    let q_true = matches!(q, Ok(true));
    let admin = pre.is_admin(addr.as_str());
    ctx.count("probes");
    if q.is_err() {
        ctx.count("probe_query_error");
    }
    ctx.count(&format!("probe_{}_{}", if admin { "admin" } else { "nonadmin" }, if q_true { "true" } else { "false" }));
    if !admin {
        ctx.count(&format!("probe_nonadmin_{kind}_{}", if q_true { "true" } else { "false" }));
        if q_true {
            ctx.flag("probe_nonadmin_true");
        } else if matches!(msg, CosmosMsg::Bank(BankMsg::Send { .. })) && t.ever_granted.contains(&sender) {
            // a subkey that holds or held an allowance is refused: amount or expiry
            ctx.flag("probe_refused_amount_or_expiry");
            ctx.count("probe_refused_amount_or_expiry");
            if t.expired_now.contains(&sender) {
                ctx.count("probe_refused_expired");
            }
        }
    }
    if q_true != e.is_ok() {
        let sig = if q_true { "query-true-execute-fails" } else { "query-false-execute-succeeds" };
        return Err(v(prop, sig, format!("{at}: CanExecute{{sender: sender{sender}, msg: {msg:?}}} answered {q:?} but Execute with just that message on a copy of the same state returned {}", match &e { Ok(_) => "Ok".to_string(), Err(x) => format!("Err({x})") })));
    }
    Ok(())
}

pub fn run_case(prop: &str, case: &Case, ctx: &mut CaseCtx) -> Result<(), Violation> {
    let mut w = World::new(case.subkeys);
    w.d.chain_admin = case.chain_admin.map(|i| w.senders[i as usize % N_ACTORS].clone());
    // the proxy holds delegations with both validators, with rewards waiting (claiming them is the proxy's business:
    // it gives nobody an allowance)
    w.d.delegations = vec![(VALIDATORS[0].to_string(), vec![Coin::new(777u128, DENOMS[0]), Coin::new(5u128, DENOMS[1])]), (VALIDATORS[1].to_string(), vec![Coin::new(3u128, DENOMS[2])])];
    if case.peer {
        // (asked for its admin list it names every actor; to anything else it says yes)
        let everybody = serde_json::to_vec(&serde_json::json!({"admins": w.senders[..N_ACTORS].iter().map(|a| a.to_string()).collect::<Vec<_>>(), "mutable": true})).unwrap();
        w.d.peers.insert(w.senders[3].to_string(), vec![("admin_list".to_string(), everybody), (String::new(), br#"{"can_execute":true}"#.to_vec())]);
        ctx.count("obliging_peer_contract");
    }
    let qerr = |e: String| v(prop, "query-failed", format!("a query failed or panicked: {e}"));
    ctx.count(if case.subkeys { "cases_subkeys" } else { "cases_whitelist" });

    // ---------------- instantiate
    let addr_of = |i: u8| -> String { if i as usize == N_ADDR { w.d.contract.to_string() } else { w.addrs[i as usize % N_ADDR].clone() } };
    let init_admins: Vec<String> = case.admins.iter().map(|i| addr_of(*i)).collect();
    {
        let info = Direct::info(&w.senders[case.creator as usize % N_SENDERS], &attached_coins(&case.init_funds));
        let msg = InstantiateMsg { admins: init_admins.clone(), mutable: case.mutable };
        let r = if case.subkeys {
            w.d.tx(|deps, env| cw1_subkeys::contract::instantiate(deps, env, info, msg))
        } else {
            w.d.tx(|deps, env| cw1_whitelist::contract::instantiate(deps, env, info, msg))
        };
        if r.is_err() {
            ctx.count("init_rejected");
            return Ok(());
        }
        ctx.count("init_accepted");
    }
    let mut pre = w.observe().map_err(qerr)?;
    // the proxy starts out exactly as requested: the listed admins, the requested mutability, and no
    // allowance or permission for anybody (whoever instantiated it, with whatever coins attached)
    {
        let fresh = (0..N_SENDERS).all(|i| pre.allow[i] == Vis::none());
        let as_set = |l: &[String]| l.iter().cloned().collect::<BTreeSet<String>>();
        if as_set(&pre.admins) != as_set(&init_admins) || pre.mutable != case.mutable || !fresh || !pre.raw_allow.is_empty() || !pre.raw_perm.is_empty() {
            return Err(v(prop, "instantiate-not-as-requested", format!("after instantiate by sender{} with funds {:?}: admins {:?} (requested {:?}), mutable {} (requested {}), allowances {:?}", case.creator as usize % N_SENDERS, case.init_funds, pre.admins, init_admins, pre.mutable, case.mutable, pre.allow)));
        }
    }
    let mut t = Track::default();
    for i in 0..N_SENDERS {
        if pre.is_admin(w.senders[i].as_str()) {
            t.ever_admin.insert(i);
        }
    }
    if !pre.mutable {
        t.frozen = Some(pre.admins.clone());
        ctx.flag("immutable_from_start");
    }

    for (step_no, op) in case.ops.iter().enumerate() {
        // ------------ resolve
        let mut step_funds: Vec<Coin> = vec![];
        let step: Step = match op {
            Op::Upgrade { from } => {
                if !w.subkeys {
                    continue;
                }
                let version = ["2.0.0", "1.1.2", "1.0.0", "0.16.0"][*from as usize % 4];
                w.d.store.data.insert(b"contract_info".to_vec(), format!(r#"{{"contract":"crates.io:cw1-subkeys","version":"{version}"}}"#).into_bytes());
                // the instance ran that release until now: it holds what that release keeps (the admin list, the
                // cw2 record, allowances, permissions) and nothing else
                let known = |k: &[u8]| -> bool {
                    let pre = |ns: &str| { let mut p = vec![0u8, ns.len() as u8]; p.extend_from_slice(ns.as_bytes()); p };
                    k == b"admin_list" || k == b"contract_info" || k.starts_with(&pre("allowances")) || k.starts_with(&pre("permissions"))
                };
                let before = w.d.store.data.len();
                w.d.store.data.retain(|k, _| known(k));
                if w.d.store.data.len() != before {
                    ctx.count("upgrade_dropped_keys_the_release_does_not_keep");
                }
                let r = w.d.tx(|deps, env| cw1_subkeys::contract::migrate(deps, env, Empty {}));
                let post = w.observe().map_err(qerr)?;
                ctx.count(if r.is_ok() { "op_Upgrade_ok" } else { "op_Upgrade_fail" });
                if post.admins != pre.admins || post.mutable != pre.mutable || post.perms != pre.perms || post.allow != pre.allow || post.raw_allow != pre.raw_allow || post.raw_perm != pre.raw_perm {
                    return Err(v(prop, "upgrade-changed-state", format!("step {step_no} Upgrade(from {version}) -> {:?}: a migration changed the admin list, allowances or permissions: admins {:?} -> {:?}, allowances {:?} -> {:?}, permissions {:?} -> {:?}", r.map(|_| ()), pre.admins, post.admins, pre.allow, post.allow, pre.perms, post.perms)));
                }
                pre = post;
                continue;
            }
            Op::Advance { blocks, secs, nanos } => {
                w.d.advance(*blocks as u64, *secs as u64);
                w.d.advance_nanos(*nanos);
                let post = w.observe().map_err(qerr)?;
                let at = format!("step {step_no} Advance({blocks} blocks, {secs} s)");
                if post.admins != pre.admins || post.mutable != pre.mutable {
                    if prop == "C17" {
                        return Err(v(prop, "admin-list-changed-illegitimately", format!("{at}: the admin list changed {:?}/{} -> {:?}/{} by the passing of time", pre.admins, pre.mutable, post.admins, post.mutable)));
                    }
                    return Err(v(prop, "advance-changed-state", format!("{at}: the admin list changed by the passing of time")));
                }
                for s in 0..N_SENDERS {
                    if post.perms[s] != pre.perms[s] {
                        return Err(v(prop, "advance-changed-state", format!("{at}: permissions of sender{s} changed by the passing of time")));
                    }
                    if post.allow[s] != pre.allow[s] {
                        // time may only hide an allowance (expiry), never alter it
                        if post.allow[s] != Vis::none() || !is_expired_ns(&pre.allow[s].expires, w.d.height, w.d.now_ns()) {
                            let sig = if prop == "C08" { "advance-changed-allowance" } else { "advance-changed-state" };
                            return Err(v(prop, sig, format!("{at}: visible allowance of sender{s} changed {:?} -> {:?} although it is not a plain expiry", pre.allow[s], post.allow[s])));
                        }
                        t.expired_now.insert(s);
                        ctx.flag("expiry_crossed");
                        ctx.count("expiry_crossed");
                    }
                }
                pre = post;
                continue;
            }
            Op::Execute { by, msgs, funds } => {
                step_funds = attached_coins(funds);
                let sender = resolve_who(by, &w, &pre, &t);
                let mut b = Builder { w: &w, allow: &pre.allow[sender], used: BTreeMap::new() };
                let built: Vec<CosmosMsg> = msgs.iter().map(|m| b.build(m)).collect();
                Step { call: Call::Execute(built), sender, target: None, kinds: msgs.iter().map(|m| m.kind()).collect() }
            }
            Op::Freeze { by } => Step { call: Call::Freeze, sender: resolve_who(by, &w, &pre, &t), target: None, kinds: vec![] },
            Op::UpdateAdmins { by, admins } => Step { call: Call::UpdateAdmins(admins.iter().map(|i| if *i as usize == N_ADDR { w.d.contract.to_string() } else { w.addrs[*i as usize % N_ADDR].clone() }).collect()), sender: resolve_who(by, &w, &pre, &t), target: None, kinds: vec![] },
            Op::Increase { by, spender, denom, amt, exp } | Op::Decrease { by, spender, denom, amt, exp } => {
                if !case.subkeys {
                    ctx.count("op_skipped_on_whitelist");
                    continue;
                }
                let sender = resolve_who(by, &w, &pre, &t);
                let (sp_str, target) = resolve_sp(spender, &w, &pre);
                let none = Vis::none();
                let denom = resolve_den(denom, target.map(|s| &pre.allow[s]).unwrap_or(&none));
                let denom = denom.as_str();
                let have = target.map(|s| pre.allow[s].get(denom)).unwrap_or(0);
                let x = match amt {
                    Amt::Abs(x) => *x,
                    Amt::Rel(d) | Amt::Rest(d) => adj(have, *d),
                    Amt::Frac(k) => frac(have, *k),
                };
                let coin = Coin { denom: denom.to_string(), amount: Uint128::new(x) };
                // (every fourth grant call comes with coins attached - at least the amount it names, in the same
                // denomination: paying the proxy gives nobody a say over allowances)
                if step_no % 4 == 1 && x > 0 {
                    step_funds = vec![Coin { denom: denom.to_string(), amount: Uint128::new(x.saturating_add((step_no % 2) as u128)) }];
                }
                let e = exp.map(|e| e.resolve_ns(w.d.height, w.d.now_ns()));
                let call = if matches!(op, Op::Increase { .. }) { Call::Increase { spender: sp_str, coin, exp: e } } else { Call::Decrease { spender: sp_str, coin, exp: e } };
                Step { call, sender, target, kinds: vec![] }
            }
            Op::SetPermissions { by, spender, perm } => {
                if !case.subkeys {
                    ctx.count("op_skipped_on_whitelist");
                    continue;
                }
                let sender = resolve_who(by, &w, &pre, &t);
                let (sp_str, target) = resolve_sp(spender, &w, &pre);
                Step { call: Call::SetPermissions { spender: sp_str, perm: perm_of(*perm) }, sender, target, kinds: vec![] }
            }
        };
        let sender_addr = w.senders[step.sender].clone();
        let sender_is_admin = pre.is_admin(sender_addr.as_str());
        let kname = step.call.kind();

        // ------------ C16: every message of an Execute is also a probe on the state before the call
        if prop == "C16" {
            if let Call::Execute(msgs) = &step.call {
                for (i, m) in msgs.iter().enumerate() {
                    differential(prop, &w, &pre, &t, step.sender, m, step.kinds[i], &format!("step {step_no} (before Execute, message {i})"), ctx)?;
                }
            }
        }

        // ------------ run
        let res = exec_with(&mut w.d, w.subkeys, &sender_addr, &step.call, &step_funds);
        let ok = res.is_ok();
        let post = w.observe().map_err(qerr)?;
        ctx.count(&format!("op_{kname}_{}", if ok { "ok" } else { "fail" }));
        ctx.count(&format!("op_{kname}_by_{}_{}", if sender_is_admin { "admin" } else { "nonadmin" }, if ok { "ok" } else { "fail" }));
        let at = format!(
            "step {step_no} {} by sender{}({}) at height {} time {} -> {}",
            match &step.call {
                Call::Execute(m) => format!("Execute{m:?}"),
                c => format!("{c:?}"),
            },
            step.sender,
            if sender_is_admin { "admin" } else { "non-admin" },
            w.d.height,
            w.d.time,
            match &res {
                Ok(_) => "ok".to_string(),
                Err(e) => format!("err({e})"),
            }
        );
        if !ok && post != pre {
            return Err(v(prop, "failed-call-changed-state", format!("{at}: harness rollback broken?")));
        }

        // (C07 too: the allowance a subkey's send is judged against is one that admins made)
        if matches!(prop, "C07" | "C08" | "C17") {
            check_records_only_by_admins(prop, &w, &step, ok, &pre, &post, &at)?;
        }

        match prop {
            "C07" => check_c07(&w, &step, res.as_ref().ok(), &pre, &post, &at, ctx)?,
            "C08" => check_c08(&w, &step, ok, &pre, &post, &at, ctx, &mut t)?,
            "C17" => check_c17(&w, &step, ok, &pre, &post, &at, ctx, &mut t)?,
            _ => {}
        }

        // ------------ bookkeeping shared by all oracles
        if ok {
            if let (Call::Increase { .. } | Call::SetPermissions { .. }, Some(s)) = (&step.call, step.target) {
                t.ever_granted.insert(s);
            }
            if let (Call::Increase { .. } | Call::Decrease { .. }, Some(s)) = (&step.call, step.target) {
                t.expired_now.remove(&s);
            }
        }
        for i in 0..N_SENDERS {
            if post.is_admin(w.senders[i].as_str()) {
                t.ever_admin.insert(i);
            }
        }
        pre = post;
    }

    // ---------------- C16 probes on the reached state
    if prop == "C16" {
        for (i, p) in case.probes.iter().enumerate() {
            let sender = resolve_who(&p.sender, &w, &pre, &t);
            let mut b = Builder { w: &w, allow: &pre.allow[sender], used: BTreeMap::new() };
            let m = b.build(&p.msg);
            differential(prop, &w, &pre, &t, sender, &m, p.msg.kind(), &format!("probe {i} at height {} time {}", w.d.height, w.d.time), ctx)?;
        }
    }

    if !(0..N_SENDERS).any(|i| pre.is_admin(w.senders[i].as_str())) {
        ctx.flag("no_admin_at_end");
    }
    // ---------------- non-triviality
    ctx.nontrivial = match prop {
        "C07" => ctx.has("nonadmin_mixed_list") || ctx.has("last_only_forbidden"),
        "C08" => case.subkeys && ctx.has("multi_spend_ok") && ctx.has("spend_refused") && ctx.has("regrant_after_expiry"),
        "C16" => ctx.has("probe_nonadmin_true") && ctx.has("probe_refused_amount_or_expiry"),
        "C17" => ctx.has("self_removal") || (t.frozen.is_some() && t.attempts_after_freeze >= 2 && t.admin_attempts_after_freeze >= 1),
        _ => false,
    };
    Ok(())
}

fn check_c07(w: &World, s: &Step, resp: Option<&Response>, pre: &Obs, post: &Obs, at: &str, ctx: &mut CaseCtx) -> Result<(), Violation> {
    let prop = "C07";
    let _ = post;
    let sender = w.senders[s.sender].as_str();
    let admin = pre.is_admin(sender);
    if w.subkeys {
        // "within its unexpired allowance": the deadline an allowance is judged by is the one admins set
        check_grant_expiry(prop, s, resp.is_some(), pre, post, at)?;
    }
    check_update_admins_applied(prop, s, resp.is_some(), post, at)?;
    // ... and it is an allowance in the denomination the admin named: a successful IncreaseAllowance leaves at
    // least the granted amount of exactly that denomination visible, and makes no other denomination grow
    if let (true, true, Call::Increase { coin, .. }, Some(x)) = (w.subkeys, resp.is_some(), &s.call, s.target) {
        let got = post.allow[x].bal.get(&coin.denom).copied().unwrap_or(0);
        let grew: Vec<&String> = post.allow[x].bal.iter().filter(|(d, a)| **d != coin.denom && **a > pre.allow[x].bal.get(*d).copied().unwrap_or(0)).map(|(d, _)| d).collect();
        if (coin.amount.u128() > 0 && got < coin.amount.u128()) || !grew.is_empty() {
            return Err(v(prop, "grant-not-as-requested", format!("{at}: IncreaseAllowance of {coin} succeeded; the visible allowance went {:?} -> {:?}", pre.allow[x].bal, post.allow[x].bal)));
        }
    }
    let Call::Execute(msgs) = &s.call else {
        // nothing but Execute re-dispatches anything
        if let Some(r) = resp {
            if !r.messages.is_empty() {
                return Err(v(prop, "non-execute-relays", format!("{at}: a call that is not Execute returned {} messages to dispatch", r.messages.len())));
            }
        }
        return Ok(());
    };
    let ok = resp.is_some();
    // "any other caller": a sender that is no admin and holds neither an allowance nor permissions (no record of
    // either kind) gets nothing relayed, whatever the messages say - not even a payment of nothing
    if w.subkeys && ok && !admin && !msgs.is_empty() && !pre.raw_allow.contains_key(sender) && !pre.raw_perm.contains_key(sender) {
        return Err(v(prop, "stranger-relayed", format!("{at}: sender{} is no admin and has no allowance or permission record, yet its messages were relayed", s.sender)));
    }
    for k in &s.kinds {
        ctx.count(&format!("msg_{k}_{}_{}", if admin { "admin" } else { "nonadmin" }, if ok { "relayed" } else { "refused" }));
    }
    let forbidden = if admin || !w.subkeys { None } else { first_forbidden(msgs, &pre.allow[s.sender], &pre.perms[s.sender]) };
    // "within its unexpired allowance": whether the allowance has run out is judged by the documented
    // Expiration semantics (expired once block >= expiry), not by what the contract's queries still show
    if ok && !admin && w.subkeys && msgs.iter().any(|m| matches!(m, CosmosMsg::Bank(BankMsg::Send { .. }))) && is_expired_ns(&pre.allow[s.sender].expires, w.d.height, w.d.now_ns()) {
        return Err(v(prop, "send-after-expiry", format!("{at}: a bank send was relayed for a subkey whose allowance expired ({:?}) at height {} time {} ns", pre.allow[s.sender].expires, w.d.height, w.d.now_ns())));
    }
    if !admin {
        let distinct: BTreeSet<&&str> = s.kinds.iter().collect();
        if msgs.len() >= 2 && distinct.len() >= 2 {
            ctx.flag("nonadmin_mixed_list");
        }
        if w.subkeys && msgs.len() >= 2 && forbidden.map(|f| f.0) == Some(msgs.len() - 1) {
            ctx.flag("last_only_forbidden");
            ctx.count(&format!("last_only_forbidden_{}", forbidden.unwrap().1));
        }
        if w.subkeys {
            ctx.count(if pre.allow[s.sender].bal.is_empty() { "exec_nonadmin_without_visible_allowance" } else { "exec_nonadmin_with_visible_allowance" });
        }
        if w.subkeys && !msgs.is_empty() {
            ctx.count(if forbidden.is_none() { "nonadmin_list_covered" } else { "nonadmin_list_not_covered" });
            if forbidden.is_none() && !ok {
                ctx.count("nonadmin_list_covered_but_refused");
            }
            if forbidden.is_none() && ok && msgs.len() >= 2 {
                ctx.flag("nonadmin_multi_relayed");
            }
        }
    }
    let Some(r) = resp else { return Ok(()) };
    if !admin && !w.subkeys {
        return Err(v(prop, "whitelist-non-admin-relayed", format!("{at}: Execute by a non-admin of a whitelist proxy succeeded (admins {:?})", pre.admins)));
    }
    if let Some((i, why)) = forbidden {
        return Err(v(prop, why, format!("{at}: the call succeeded although message {i} is not covered by the caller's rights (visible allowance {:?}, permissions {:?}, admins {:?})", pre.allow[s.sender], pre.perms[s.sender], pre.admins)));
    }
    // exactly the submitted messages, in order, nothing added, altered or dropped
    let same = r.messages.len() == msgs.len() && r.messages.iter().zip(msgs.iter()).all(|(sm, m)| sm.msg == *m && sm.gas_limit.is_none() && sm.reply_on == ReplyOn::Never);
    if !same {
        return Err(v(prop, "relayed-differs", format!("{at}: relayed {:?}, submitted {:?}", r.messages, msgs)));
    }
    Ok(())
}

fn u256(x: u128) -> Uint256 {
    Uint256::from(x)
}



/// A successful UpdateAdmins replaces the admin list by exactly the submitted one ("current admin" in the
/// statements means: member of the list the last successful UpdateAdmins installed).
fn check_update_admins_applied(prop: &str, s: &Step, ok: bool, post: &Obs, at: &str) -> Result<(), Violation> {
    if let (true, Call::UpdateAdmins(list)) = (ok, &s.call) {
        // (as sets: how the list is spelled out in storage - order, repeats - is not the property's business)
        let as_set = |l: &[String]| l.iter().cloned().collect::<BTreeSet<String>>();
        if as_set(&post.admins) != as_set(list) {
            return Err(v(prop, "update-admins-not-applied", format!("{at}: UpdateAdmins({:?}) succeeded but AdminList reports {:?}", list, post.admins)));
        }
    }
    // likewise a successful SetPermissions leaves exactly the submitted flags on record (whatever other
    // roles the address holds): later authorisation decisions are made from them
    if let (true, Call::SetPermissions { perm, .. }, Some(x)) = (ok, &s.call, s.target) {
        if post.perms[x] != *perm {
            return Err(v(prop, "set-permissions-not-applied", format!("{at}: SetPermissions({:?}) succeeded but Permissions of sender{x} reports {:?}", perm, post.perms[x])));
        }
    }
    Ok(())
}

/// Grants follow the cw20-style rule the contract's README refers to ("similar to cw20
/// IncreaseAllowance / DecreaseAllowance"): `expires: Some(e)` sets the deadline to e, `expires: None`
/// leaves the deadline the subkey's allowance had before the call (as the Allowance query reports it)
/// untouched. A grant that silently moves a deadline lets an allowance outlive the expiry an admin set.
fn check_grant_expiry(prop: &str, s: &Step, ok: bool, pre: &Obs, post: &Obs, at: &str) -> Result<(), Violation> {
    if !ok {
        return Ok(());
    }
    let (exp, is_decrease) = match &s.call {
        Call::Increase { exp, .. } => (exp, false),
        Call::Decrease { exp, .. } => (exp, true),
        _ => return Ok(()),
    };
    let Some(x) = s.target else { return Ok(()) };
    let (p, q) = (&pre.allow[x], &post.allow[x]);
    if is_decrease {
        // a decrease never makes more spendable than was visible (unexpired) before it
        for (denom, amount) in &q.bal {
            if *amount > p.get(denom) {
                return Err(v(prop, "decrease-revived-allowance", format!("{at}: after a DecreaseAllowance sender{x} may spend {amount} {denom}, before it only {} was visible (unexpired)", p.get(denom))));
            }
        }
    }
    if is_decrease && q.bal.is_empty() {
        return Ok(()); // the entry is gone (or empty): nothing left that could outlive anything
    }
    let want = match exp {
        Some(e) => *e,
        None => p.expires,
    };
    if q.expires != want {
        return Err(v(prop, "grant-moved-deadline", format!("{at}: the allowance of sender{x} had deadline {:?} before the call; after a grant with expires={:?} it is {:?}", p.expires, exp, q.expires)));
    }
    Ok(())
}

#[allow(clippy::too_many_arguments)]
fn check_c08(w: &World, s: &Step, ok: bool, pre: &Obs, post: &Obs, at: &str, ctx: &mut CaseCtx, t: &mut Track) -> Result<(), Violation> {
    let prop = "C08";
    if !w.subkeys {
        return Ok(());
    }
    check_grant_expiry(prop, s, ok, pre, post, at)?;
    // (who is exempt from allowances - an admin - is decided by the list the last successful UpdateAdmins installed)
    check_update_admins_applied(prop, s, ok, post, at)?;
    let sender = w.senders[s.sender].as_str();
    let admin = pre.is_admin(sender);
    // who may see its allowance / permissions change in this call, and to what
    let mut allow_changer: Option<usize> = None;
    let mut perm_changer: Option<usize> = None;
    match &s.call {
        Call::Execute(msgs) => {
            let d = send_totals(msgs);
            let n_sends = msgs.iter().filter(|m| matches!(m, CosmosMsg::Bank(BankMsg::Send { .. }))).count();
            let only_sends = n_sends == msgs.len() && n_sends > 0;
            if ok && !admin {
                let p = &pre.allow[s.sender];
                let q = &post.allow[s.sender];
                // expiry judged by the documented Expiration semantics (expired when block >= expiry),
                // independently of what the contract's own queries consider visible
                if !d.is_empty() && is_expired_ns(&p.expires, w.d.height, w.d.now_ns()) {
                    return Err(v(prop, "spend-after-expiry", format!("{at}: a bank send was relayed although the subkey's allowance expired ({:?}) at height {} time {}", p.expires, w.d.height, w.d.time)));
                }
                for (denom, x) in &d {
                    if *x > u256(p.get(denom)) {
                        return Err(v(prop, "spend-exceeds-allowance", format!("{at}: relayed {x} {denom} with a visible (unexpired) allowance of {}", p.get(denom))));
                    }
                }
                let mut denoms: BTreeSet<&String> = p.bal.keys().collect();
                denoms.extend(q.bal.keys());
                denoms.extend(d.keys());
                for denom in denoms {
                    let spent = d.get(denom).copied().unwrap_or(Uint256::zero());
                    if u256(q.get(denom)) + spent != u256(p.get(denom)) {
                        return Err(v(prop, "deduction-not-exact", format!("{at}: allowance in {denom} went {} -> {} for relayed sends of {spent}", p.get(denom), q.get(denom))));
                    }
                }
                if q.expires != p.expires {
                    return Err(v(prop, "spend-changed-expiry", format!("{at}: expiry went {:?} -> {:?} by spending", p.expires, q.expires)));
                }
                for (denom, x) in &d {
                    let r = t.relayed.entry((s.sender, denom.clone())).or_insert(Uint256::zero());
                    *r += *x;
                    let g = t.granted.get(&(s.sender, denom.clone())).copied().unwrap_or(Uint256::zero());
                    if *r > g {
                        return Err(v(prop, "relayed-exceeds-granted", format!("{at}: sender{} has now relayed {r} {denom} but admins only ever granted it {g}", s.sender)));
                    }
                }
                // a relayed call back into the proxy is carried out by the chain with the proxy as sender (and the
                // whole transaction stands or falls with it): whatever bank sends that inner call relays left the
                // proxy on this subkey's behalf without being charged to its allowance
                for m in msgs {
                    if let CosmosMsg::Wasm(WasmMsg::Execute { contract_addr, msg, .. }) = m {
                        if *contract_addr == w.d.contract.as_str() {
                            if let Ok(SubExec::<Empty>::Execute { msgs: inner }) = cosmwasm_std::from_json::<SubExec<Empty>>(msg) {
                                let mut copy = w.d.clone();
                                let me = w.d.contract.clone();
                                if let Ok(r) = exec_on(&mut copy, w.subkeys, &me, &Call::Execute(inner)) {
                                    let out: Vec<CosmosMsg> = r.messages.iter().map(|sm| sm.msg.clone()).collect();
                                    let through = send_totals(&out);
                                    ctx.count("self_call_carried_out");
                                    if !through.is_empty() {
                                        return Err(v(prop, "relayed-through-self-call", format!("{at}: the subkey's call was accepted with a call back into the proxy, which (carried out with the proxy as sender) relays {:?} - native tokens leaving the proxy on this subkey's behalf that are not charged to its allowance {:?}", through, p.bal)));
                                    }
                                }
                            }
                        }
                    }
                }
                allow_changer = Some(s.sender);
                if !d.is_empty() {
                    ctx.flag("spend_ok");
                    ctx.count("spend_ok");
                    if n_sends >= 2 || d.len() >= 2 {
                        ctx.flag("multi_spend_ok");
                        ctx.count("multi_spend_ok");
                    }
                    if d.iter().any(|(denom, x)| *x == u256(p.get(denom))) {
                        ctx.count("spend_exhausts_denom");
                    }
                }
            }
            if !admin {
                ctx.count(&format!("c08_exec_nonadmin_{}_{}_{}", if t.ever_granted.contains(&s.sender) { "granted" } else { "nevergranted" }, if only_sends { "onlysends" } else { "mixed" }, if ok { "ok" } else { "fail" }));
            }
            if !ok && !admin && only_sends && t.ever_granted.contains(&s.sender) {
                let p = &pre.allow[s.sender];
                if t.expired_now.contains(&s.sender) {
                    ctx.flag("spend_refused");
                    ctx.count("spend_refused_expired");
                } else if d.iter().any(|(denom, x)| *x > u256(p.get(denom))) {
                    ctx.flag("spend_refused");
                    ctx.count("spend_refused_amount");
                    if n_sends >= 2 && msgs.iter().all(|m| send_totals(std::slice::from_ref(m)).iter().all(|(denom, x)| *x <= u256(p.get(denom)))) {
                        ctx.count("spend_refused_only_cumulatively");
                    }
                } else {
                    ctx.count("spend_refused_other");
                }
            }
        }
        Call::Increase { coin, exp, .. } => {
            if ok {
                if !admin {
                    return Err(v(prop, "grant-by-non-admin", format!("{at}: IncreaseAllowance succeeded for a sender that is not an admin (admins {:?})", pre.admins)));
                }
                if let Some(e) = exp {
                    if is_expired_ns(e, w.d.height, w.d.now_ns()) {
                        return Err(v(prop, "expired-expiry-accepted", format!("{at}: an allowance was granted with an expiry that has already passed")));
                    }
                }
                if let Some(x) = s.target {
                    let (p, q) = (&pre.allow[x], &post.allow[x]);
                    let mut denoms: BTreeSet<&String> = p.bal.keys().collect();
                    denoms.extend(q.bal.keys());
                    denoms.insert(&coin.denom);
                    for denom in denoms {
                        let add = if *denom == coin.denom { coin.amount.u128() } else { 0 };
                        if u256(p.get(denom)) + u256(add) != u256(q.get(denom)) {
                            return Err(v(prop, "increase-amount", format!("{at}: visible allowance of sender{x} in {denom} went {} -> {} (visible before: {:?}, after: {:?})", p.get(denom), q.get(denom), p, q)));
                        }
                    }
                    *t.granted.entry((x, coin.denom.clone())).or_insert(Uint256::zero()) += Uint256::from(coin.amount);
                    allow_changer = Some(x);
                    if t.expired_now.contains(&x) {
                        ctx.flag("regrant_after_expiry");
                        ctx.count("regrant_after_expiry");
                    }
                    ctx.count("grant_ok");
                    ctx.flag("grant_ok");
                }
            }
        }
        Call::Decrease { coin, .. } => {
            if ok {
                if !admin {
                    return Err(v(prop, "grant-by-non-admin", format!("{at}: DecreaseAllowance succeeded for a sender that is not an admin (admins {:?})", pre.admins)));
                }
                if let Some(x) = s.target {
                    let (p, q) = (&pre.allow[x], &post.allow[x]);
                    let mut denoms: BTreeSet<&String> = p.bal.keys().collect();
                    denoms.extend(q.bal.keys());
                    for denom in denoms {
                        let want = if *denom == coin.denom { p.get(denom).saturating_sub(coin.amount.u128()) } else { p.get(denom) };
                        if want != q.get(denom) {
                            return Err(v(prop, "decrease-amount", format!("{at}: visible allowance of sender{x} in {denom} went {} -> {}, expected {want}", p.get(denom), q.get(denom))));
                        }
                    }
                    allow_changer = Some(x);
                    ctx.count("decrease_ok");
                    if coin.amount.u128() > p.get(&coin.denom) {
                        ctx.count("decrease_saturated");
                    }
                }
            }
        }
        Call::SetPermissions { .. } => {
            if ok {
                perm_changer = s.target;
            }
        }
        Call::Freeze | Call::UpdateAdmins(_) => {}
    }
    for x in 0..N_SENDERS {
        if post.allow[x] != pre.allow[x] && allow_changer != Some(x) {
            let sig = if matches!(s.call, Call::Execute(_)) && admin && x == s.sender { "admin-execute-changed-allowance" } else { "allowance-changed-by-unrelated-call" };
            return Err(v(prop, sig, format!("{at}: visible allowance of sender{x} changed {:?} -> {:?} in a call that is neither an admin's increase/decrease for it nor its own spending", pre.allow[x], post.allow[x])));
        }
        if post.perms[x] != pre.perms[x] && perm_changer != Some(x) {
            return Err(v(prop, "permissions-changed-by-unrelated-call", format!("{at}: permissions of sender{x} changed {:?} -> {:?}", pre.perms[x], post.perms[x])));
        }
    }
    Ok(())
}

#[allow(clippy::too_many_arguments)]
fn check_c17(w: &World, s: &Step, ok: bool, pre: &Obs, post: &Obs, at: &str, ctx: &mut CaseCtx, t: &mut Track) -> Result<(), Violation> {
    let prop = "C17";
    check_update_admins_applied(prop, s, ok, post, at)?;
    let sender = w.senders[s.sender].as_str();
    let admin = pre.is_admin(sender);
    let is_modify = matches!(s.call, Call::Freeze | Call::UpdateAdmins(_));
    let changed = post.admins != pre.admins || post.mutable != pre.mutable;
    if changed && !(ok && is_modify && admin && pre.mutable) {
        return Err(v(prop, "admin-list-changed-illegitimately", format!("{at}: AdminList went {:?}/mutable={} -> {:?}/mutable={} other than by a successful UpdateAdmins/Freeze of a current admin while mutable", pre.admins, pre.mutable, post.admins, post.mutable)));
    }
    if ok && is_modify {
        if !admin {
            return Err(v(prop, "modified-by-non-admin", format!("{at}: {} succeeded for a sender that is not in the admin list {:?}", s.call.kind(), pre.admins)));
        }
        if !pre.mutable {
            return Err(v(prop, "modified-while-frozen", format!("{at}: {} succeeded on an immutable proxy", s.call.kind())));
        }
        match &s.call {
            Call::Freeze => {
                if post.mutable {
                    return Err(v(prop, "freeze-did-not-freeze", format!("{at}: the proxy is still mutable after a successful Freeze")));
                }
                if post.admins != pre.admins {
                    return Err(v(prop, "freeze-changed-admins", format!("{at}: Freeze changed the admin list {:?} -> {:?}", pre.admins, post.admins)));
                }
                ctx.flag("freeze_ok");
            }
            Call::UpdateAdmins(_) => {
                if post.mutable != pre.mutable {
                    return Err(v(prop, "update-admins-changed-mutable", format!("{at}: UpdateAdmins changed the mutable flag {} -> {}", pre.mutable, post.mutable)));
                }
                ctx.flag("update_admins_ok");
                if !post.is_admin(sender) {
                    ctx.flag("self_removal");
                    ctx.count("self_removal");
                }
            }
            _ => {}
        }
    }
    if let Some(frozen) = &t.frozen {
        if post.mutable || post.admins != *frozen {
            return Err(v(prop, "changed-after-freeze", format!("{at}: the proxy was frozen with admins {:?} but now reports {:?}/mutable={}", frozen, post.admins, post.mutable)));
        }
        if is_modify {
            t.attempts_after_freeze += 1;
            ctx.count("attempts_after_freeze");
            if admin {
                t.admin_attempts_after_freeze += 1;
            }
        }
    } else if !post.mutable {
        t.frozen = Some(post.admins.clone());
    }
    // allowances and permissions are created or altered only by calls from current admins
    // (a subkey's own successful spending reduces its own allowance: C08)
    for x in 0..N_SENDERS {
        if post.perms[x] != pre.perms[x] && !(ok && admin) {
            return Err(v(prop, "permissions-changed-by-non-admin", format!("{at}: permissions of sender{x} changed {:?} -> {:?} in a call that is not a successful call of a current admin (admins {:?})", pre.perms[x], post.perms[x], pre.admins)));
        }
        if post.allow[x] != pre.allow[x] && !(ok && admin) {
            let (p, q) = (&pre.allow[x], &post.allow[x]);
            let own_spending = ok && matches!(s.call, Call::Execute(_)) && x == s.sender && q.expires == p.expires && q.bal.iter().all(|(d, a)| *a <= p.get(d));
            if !own_spending {
                return Err(v(prop, "allowance-changed-by-non-admin", format!("{at}: visible allowance of sender{x} changed {:?} -> {:?} in a call that is neither a successful call of a current admin nor its own spending (admins {:?})", p, q, pre.admins)));
            }
        }
        if (post.perms[x] != pre.perms[x] || post.allow[x] != pre.allow[x]) && ok && admin {
            ctx.count("grant_state_changed_by_admin");
        }
    }
    if !admin && !matches!(s.call, Call::Execute(_)) {
        ctx.count("admin_only_call_by_non_admin");
    }
    Ok(())
}

// ---------------------------------------------------------------- family

pub struct Cw1Family;

const ASSUME: &[&str] = &[
    "transactions are atomic: a failed or panicking call leaves no state (direct driver restores the store)",
    "info.sender is always a valid address (MockApi bech32 validation stands for the chain's); address fields of messages come from a pool of 5 valid addresses plus 2 invalid strings",
    "dispatch of the relayed messages is outside the proxy: success means the handler returned Ok",
    "cosmwasm-std, cw-storage-plus, cw-utils (Expiration, NativeBalance), cw2 are trusted as execution substrate",
    "natively compiled contract code behaves as its wasm build (overflow checks on)",
];

impl Family for Cw1Family {
    type Case = Case;
    fn name(&self) -> &'static str {
        "cw1"
    }
    fn props(&self) -> Vec<PropSpec> {
        vec![
            PropSpec { id: "C07", quick_cases: 30000, thorough_cases: 30_000, floor: 6000, rule: "case = proxy flavour (70% cw1-subkeys, else cw1-whitelist), admin list of 0-3 entries from a 5-address pool (duplicates, invalid strings), mutable flag, up to 40 (thorough 100) op groups: Execute with 0-5 CosmosMsg of all 22 constructible kinds (amounts relative to the caller's visible allowance), Increase/DecreaseAllowance, SetPermissions, UpdateAdmins, Freeze, Advance; callers resolved against the current state (admin, granted subkey, plain, removed admin, fixed index incl. an outsider). Oracle: Execute ok => caller in pre AdminList, or (subkeys) every message covered by the pre-call visible allowance cumulatively in list order / by the pre-call permission flags; ok => Response.messages equal the submitted list (same order, reply_on never, no gas limit); non-Execute calls return no messages. Non-trivial: a non-admin caller submitted >=2 messages of >=2 kinds, or a list of >=2 messages whose last message is the only one its grants do not cover.", assumptions: ASSUME },
            PropSpec { id: "C08", quick_cases: 30000, thorough_cases: 20_000, floor: 1500, rule: "cw1-subkeys only; same case type weighted towards Increase/Decrease (expiry none or relative to the moving block), Execute with 1-5 bank sends of 0-3 coins (same denom twice, zero amounts, ungranted denoms; amounts as fractions / remainder of the visible allowance), Advance, and a grant;advance;spend;re-grant arm. Oracle on the Allowance/Permissions queries of 6 addresses before and after every call: exact per-denom deduction of a non-admin's relayed sends, sends <= pre-visible allowance, exact increase (from the visible allowance, i.e. from zero once expired) / saturating decrease, frame condition for every other address and call, time only hides allowances, ledger relayed <= granted. Non-trivial: >=1 successful spend with >=2 sends or >=2 denoms, >=1 spend refused for amount or expiry, >=1 expiry crossed followed by a successful re-grant.", assumptions: ASSUME },
            PropSpec { id: "C16", quick_cases: 24000, thorough_cases: 25_000, floor: 3600, rule: "states reached by C07-style histories of up to 25 (thorough 50) op groups on both proxies; every message of every Execute op is probed on the state before the call and 20 generated (valid sender, message) probes on the final state: CanExecute == (Execute{msgs:[msg]} on a clone of the store returns Ok). Non-trivial: the case contains >=1 non-admin probe answered true and >=1 bank-send probe of a subkey that holds or held an allowance answered false (amount or expiry).", assumptions: ASSUME },
            PropSpec { id: "C17", quick_cases: 36000, thorough_cases: 40_000, floor: 6900, rule: "both proxies (50/50), initial admin lists incl. empty/duplicates, 20% immutable; up to 40 (thorough 100) ops weighted towards UpdateAdmins/Freeze by current admins, removed admins, subkeys and strangers plus allowance/permission/Execute calls. Oracle: AdminList compared before/after every call (changes only by a successful UpdateAdmins/Freeze of a sender in the pre list while pre mutable; those calls never succeed otherwise; once immutable the response is identical forever); Allowance/Permissions of 6 addresses change only in successful calls of a pre-list admin, except a subkey's own spending. Non-trivial: >=1 successful UpdateAdmins that removes its sender, or a frozen proxy (Freeze or immutable instantiation) followed by >=2 UpdateAdmins/Freeze attempts of which >=1 by a listed admin.", assumptions: ASSUME },
        ]
    }
    fn strategy(&self, prop: &str, tier: Tier) -> BoxedStrategy<Case> {
        case_strategy(prop, tier)
    }
    fn run(&self, prop: &str, case: &Case, ctx: &mut CaseCtx) -> Result<(), Violation> {
        run_case(prop, case, ctx)
    }
    fn decode(&self, prop: &str, u: &mut arbitrary::Unstructured) -> Option<Case> {
        Some(decode_case(prop, u))
    }
}

// ---------------------------------------------------------------- byte decoder (fuzz front-end)
// Mirrors `case_strategy` arm by arm (same arms, same weights, same value ranges); one byte per choice.

use vcore::amounts::{arb_below, arb_bool, arb_u128};

/// arm index drawn with the weights of the corresponding `prop_oneof!` (one byte while the weights sum
/// to <= 256); arms of weight 0 are unreachable, an exhausted input selects the first arm of weight > 0
fn d_arm(u: &mut arbitrary::Unstructured, w: &[u32]) -> usize {
    let total: u32 = w.iter().sum();
    let mut r = arb_below(u, total as usize) as u32;
    for (i, x) in w.iter().enumerate() {
        if r < *x {
            return i;
        }
        r -= *x;
    }
    0
}
/// 16-bit state-relative selector from one byte (`pick` only looks at the top bits)
fn d_sel(u: &mut arbitrary::Unstructured) -> u16 {
    u.arbitrary::<u8>().unwrap_or(0) as u16 * 257
}
/// -1..=1
fn d_delta(u: &mut arbitrary::Unstructured) -> i8 {
    arb_below(u, 3) as i8 - 1
}
/// `addr_ix`
fn d_addr(u: &mut arbitrary::Unstructured) -> u8 {
    match arb_below(u, 45) {
        r @ 0..=39 => (r % N_ACTORS) as u8,
        40 => N_ACTORS as u8,
        41 => N_ACTORS as u8 + 1,
        _ => N_ADDR as u8,
    }
}
/// `denom_ix` / `denom_grant` / `denom_decrease`: weights of [Held, Ix(0..3), Ix(3)]
fn d_den(u: &mut arbitrary::Unstructured, w: [u32; 3]) -> Den {
    match d_arm(u, &w) {
        0 => Den::Held(d_sel(u)),
        1 => Den::Ix(arb_below(u, 3) as u8),
        _ => if arb_bool(u, 1, 3) { Den::Ix(4 + arb_below(u, 2) as u8) } else { Den::Ix(3) },
    }
}
fn d_den_msg(u: &mut arbitrary::Unstructured) -> Den {
    if arb_bool(u, 1, 31) {
        return Den::Ix(4 + arb_below(u, 2) as u8);
    }
    d_den(u, [10, 4, 1])
}
fn d_bytes(u: &mut arbitrary::Unstructured) -> Vec<u8> {
    let n = arb_below(u, 5);
    (0..n).map(|_| u.arbitrary().unwrap_or(0)).collect()
}
/// `amt_msg`
fn d_amt_msg(u: &mut arbitrary::Unstructured) -> Amt {
    match d_arm(u, &[6, 5, 4, 2, 1, 3, 1]) {
        0 => Amt::Frac(u.arbitrary().unwrap_or(0)),
        1 => Amt::Rest(d_delta(u)),
        2 => Amt::Rel(d_delta(u)),
        3 => Amt::Abs(0),
        4 => Amt::Abs(1),
        5 => Amt::Abs(arb_below(u, 200) as u128),
        _ => Amt::Abs(arb_u128(u)),
    }
}
/// `amt_grant`
fn d_amt_grant(u: &mut arbitrary::Unstructured) -> Amt {
    match d_arm(u, &[1, 1, 14, 2, 1, 1]) {
        0 => Amt::Abs(0),
        1 => Amt::Abs(1),
        2 => Amt::Abs(1 + u.arbitrary::<u16>().unwrap_or(0) as u128 % 999),
        3 => Amt::Abs(u.arbitrary::<u32>().unwrap_or(0) as u128 % 1_000_001),
        4 => Amt::Abs(arb_u128(u)),
        _ => Amt::Rel(d_delta(u)),
    }
}
/// `amt_decrease`
fn d_amt_decrease(u: &mut arbitrary::Unstructured) -> Amt {
    match d_arm(u, &[5, 6, 1, 4, 1]) {
        0 => Amt::Rel(d_delta(u)),
        1 => Amt::Frac(u.arbitrary().unwrap_or(0)),
        2 => Amt::Abs(0),
        3 => Amt::Abs(u.arbitrary::<u16>().unwrap_or(0) as u128 % 300),
        _ => Amt::Abs(arb_u128(u)),
    }
}
/// `coins(max)`
fn d_coins(u: &mut arbitrary::Unstructured, max: usize) -> Coins {
    let n = match d_arm(u, &[1, 8, 4]) {
        0 => 0,
        1 => 1,
        _ => arb_below(u, max + 1),
    };
    (0..n).map(|_| (d_den_msg(u), d_amt_msg(u))).collect()
}
/// `exp_spec`
fn d_exp(u: &mut arbitrary::Unstructured) -> ExpSpec {
    match d_arm(u, &[3, 6, 6, 1]) {
        0 => ExpSpec::Never,
        1 => ExpSpec::Height(arb_below(u, 10) as i32 - 2),
        2 => ExpSpec::Time(arb_below(u, 70) as i64 - 10),
        _ => if arb_bool(u, 1, 2) { ExpSpec::Height(u.arbitrary::<u16>().unwrap_or(0) as i32 % 10_000) } else if arb_bool(u, 1, 2) { ExpSpec::Height(i32::MAX) } else { ExpSpec::Time(i64::MAX) },
    }
}
fn d_opt_addr(u: &mut arbitrary::Unstructured) -> Option<u8> {
    if arb_bool(u, 1, 2) {
        None
    } else {
        Some(d_addr(u))
    }
}
/// `msg_spec(w)`
fn d_msg(u: &mut arbitrary::Unstructured, w: MsgWeights) -> MsgSpec {
    let (s, d, o) = (w.staking, w.distr, w.other);
    let val = |u: &mut arbitrary::Unstructured| arb_below(u, 2) as u8;
    match d_arm(u, &[w.send, w.burn, s, s, s, d, d, d, o, o, o, o, o, o, o, o, o, o, o, o, o, o]) {
        0 => MsgSpec::Send { to: d_addr(u), coins: d_coins(u, 3) },
        1 => MsgSpec::Burn { coins: d_coins(u, 2) },
        2 => MsgSpec::Delegate { val: val(u), denom: d_den_msg(u), amt: d_amt_msg(u) },
        3 => MsgSpec::Undelegate { val: val(u), denom: d_den_msg(u), amt: d_amt_msg(u) },
        4 => MsgSpec::Redelegate { src: val(u), dst: val(u), denom: d_den_msg(u), amt: d_amt_msg(u) },
        5 => MsgSpec::SetWithdrawAddress { to: d_addr(u) },
        6 => MsgSpec::WithdrawReward { val: val(u) },
        7 => MsgSpec::FundCommunityPool { coins: d_coins(u, 2) },
        8 => MsgSpec::WasmExecute { to: d_addr(u), payload: d_bytes(u), coins: d_coins(u, 2) },
        9 => MsgSpec::WasmInstantiate { admin: d_opt_addr(u), code_id: arb_below(u, 9) as u64, payload: d_bytes(u), coins: d_coins(u, 2) },
        10 => MsgSpec::WasmInstantiate2 { admin: d_opt_addr(u), code_id: arb_below(u, 9) as u64, payload: d_bytes(u), coins: d_coins(u, 2), salt: d_bytes(u) },
        11 => MsgSpec::WasmMigrate { to: d_addr(u), code_id: arb_below(u, 9) as u64, payload: d_bytes(u) },
        12 => MsgSpec::WasmUpdateAdmin { to: d_addr(u), admin: d_addr(u) },
        13 => MsgSpec::WasmClearAdmin { to: d_addr(u) },
        14 => MsgSpec::IbcTransfer { channel: val(u), to: d_addr(u), denom: d_den_msg(u), amt: d_amt_msg(u), timeout: arb_below(u, 3) as u8, memo: arb_bool(u, 1, 2) },
        15 => MsgSpec::IbcSendPacket { channel: val(u), data: d_bytes(u), timeout: arb_below(u, 3) as u8 },
        16 => MsgSpec::IbcCloseChannel { channel: val(u) },
        17 => MsgSpec::GovVote { id: arb_below(u, 5) as u64, option: arb_below(u, 4) as u8 },
        18 => {
            let id = arb_below(u, 5) as u64;
            let n = arb_below(u, 3);
            MsgSpec::GovVoteWeighted { id, options: (0..n).map(|_| (arb_below(u, 4) as u8, arb_below(u, 101) as u8)).collect() }
        }
        19 => MsgSpec::Stargate { url: val(u), value: d_bytes(u) },
        20 => MsgSpec::Any { url: val(u), value: d_bytes(u) },
        _ => MsgSpec::Custom,
    }
}
/// `grantable_msg`
fn d_grantable(u: &mut arbitrary::Unstructured) -> MsgSpec {
    let val = |u: &mut arbitrary::Unstructured| arb_below(u, 2) as u8;
    match d_arm(u, &[8, 1, 1, 1, 1, 1]) {
        0 => {
            let to = d_addr(u);
            let n = 1 + arb_below(u, 2);
            let coins = (0..n)
                .map(|_| {
                    let den = Den::Held(d_sel(u));
                    let amt = match d_arm(u, &[4, 2, 1, 1]) {
                        0 => Amt::Frac(arb_below(u, 80) as u8),
                        1 => Amt::Rest(0),
                        2 => Amt::Abs(1),
                        _ => Amt::Abs(0),
                    };
                    (den, amt)
                })
                .collect();
            MsgSpec::Send { to, coins }
        }
        1 => MsgSpec::Delegate { val: val(u), denom: d_den_msg(u), amt: d_amt_msg(u) },
        2 => MsgSpec::Undelegate { val: val(u), denom: d_den_msg(u), amt: d_amt_msg(u) },
        3 => MsgSpec::Redelegate { src: val(u), dst: val(u), denom: d_den_msg(u), amt: d_amt_msg(u) },
        4 => MsgSpec::SetWithdrawAddress { to: d_addr(u) },
        _ => MsgSpec::WithdrawReward { val: val(u) },
    }
}
/// `who(admin, granted, plain, removed, actor)`
fn d_who(u: &mut arbitrary::Unstructured, admin: u32, granted: u32, plain: u32, removed: u32, actor: u32) -> Who {
    match d_arm(u, &[admin, granted * 2, granted, plain, removed, actor]) {
        0 => Who::Admin(d_sel(u)),
        1 => Who::Holding(d_sel(u)),
        2 => Who::Granted(d_sel(u)),
        3 => Who::Plain(d_sel(u)),
        4 => Who::Removed(d_sel(u)),
        _ => Who::Actor(arb_below(u, N_SENDERS) as u8),
    }
}
/// `sp`
fn d_sp(u: &mut arbitrary::Unstructured) -> Sp {
    match d_arm(u, &[6, 5, 4]) {
        0 => Sp::NonAdmin(d_sel(u)),
        1 => Sp::Holding(d_sel(u)),
        _ => Sp::Addr(d_addr(u)),
    }
}
/// `perm_bits`
fn d_perm(u: &mut arbitrary::Unstructured) -> u8 {
    match d_arm(u, &[4, 1, 6]) {
        0 => 15,
        1 => 0,
        _ => arb_below(u, 16) as u8,
    }
}
/// `admin_list`
fn d_admin_list(u: &mut arbitrary::Unstructured) -> Vec<u8> {
    let n = match d_arm(u, &[1, 8, 3]) {
        0 => 0,
        1 => 1 + arb_below(u, 2),
        _ => 3,
    };
    (0..n).map(|_| d_addr(u)).collect()
}
/// `op_group`
fn d_group(u: &mut arbitrary::Unstructured, prop: &str, subkeys: bool) -> Vec<Op> {
    let w = op_weights(prop, subkeys);
    let mw = msg_weights(prop);
    let admin_who = |u: &mut arbitrary::Unstructured| d_who(u, 10, 1, 1, 1, 1);
    let op = match d_arm(u, &[w.exec, w.mixed, w.covered, w.freeze, w.upd, w.incr, w.decr, w.perm, w.adv, 1, w.regrant]) {
        0 => {
            let by = if subkeys { d_who(u, 3, 8, 1, 1, 1) } else { d_who(u, 5, 0, 4, 2, 3) };
            let n = match d_arm(u, &[1, 6, 8]) {
                0 => 0,
                1 => 1,
                _ => 2 + arb_below(u, 4),
            };
            let msgs = (0..n).map(|_| d_msg(u, mw)).collect();
            Op::Execute { by, msgs, funds: d_attached(u) }
        }
        1 => {
            let by = d_who(u, 0, 12, 1, 0, 1);
            let n = 1 + arb_below(u, 3);
            let mut msgs: Vec<MsgSpec> = (0..n).map(|_| d_grantable(u)).collect();
            msgs.push(d_msg(u, MsgWeights { send: 6, burn: 4, staking: 1, distr: 2, other: 1 }));
            Op::Execute { by, msgs, funds: vec![] }
        }
        2 => {
            let by = d_who(u, 0, 12, 0, 0, 1);
            let n = 1 + arb_below(u, 4);
            let msgs = (0..n).map(|_| d_grantable(u)).collect();
            Op::Execute { by, msgs, funds: d_attached(u) }
        }
        3 => Op::Freeze { by: d_who(u, 6, 2, 2, 2, 2) },
        4 => Op::UpdateAdmins { by: d_who(u, 8, 1, 1, 3, 2), admins: d_admin_list(u) },
        5 => Op::Increase { by: admin_who(u), spender: d_sp(u), denom: d_den(u, [3, 8, 1]), amt: d_amt_grant(u), exp: if arb_bool(u, 2, 5) { None } else { Some(d_exp(u)) } },
        6 => Op::Decrease { by: admin_who(u), spender: d_sp(u), denom: d_den(u, [8, 2, 1]), amt: d_amt_decrease(u), exp: if arb_bool(u, 4, 5) { None } else { Some(d_exp(u)) } },
        7 => Op::SetPermissions { by: admin_who(u), spender: d_sp(u), perm: d_perm(u) },
        8 => Op::Advance { blocks: arb_below(u, 4) as u8, secs: arb_below(u, 40) as u16, nanos: if arb_bool(u, 1, 3) { 1 + u.int_in_range(0u32..=999_999_998).unwrap_or(0) } else { 0 } },
        9 => Op::Upgrade { from: arb_below(u, 4) as u8 },
        _ => {
            // grant; advance; spend; grant again on one subkey
            let s = d_sel(u);
            let denom = Den::Ix(arb_below(u, 3) as u8);
            let g1 = 1 + u.arbitrary::<u16>().unwrap_or(0) as u128 % 499;
            let e1 = if arb_bool(u, 1, 2) { ExpSpec::Height(1 + arb_below(u, 3) as i32) } else { ExpSpec::Time(1 + arb_below(u, 14) as i64) };
            let adv = arb_below(u, 4) as u8;
            let n = 1 + arb_below(u, 2);
            let msgs = (0..n).map(|_| MsgSpec::Send { to: d_addr(u), coins: d_coins(u, 3) }).collect();
            let g2 = 1 + u.arbitrary::<u16>().unwrap_or(0) as u128 % 499;
            let e2 = if arb_bool(u, 7, 10) { Some(d_exp(u)) } else { None };
            let other = arb_below(u, N_SENDERS) as u8;
            return vec![
                Op::Increase { by: Who::Admin(0), spender: Sp::NonAdmin(s), denom: denom.clone(), amt: Amt::Abs(g1), exp: Some(e1) },
                Op::Advance { blocks: adv, secs: adv as u16 * 5, nanos: 0 },
                Op::Execute { by: Who::NonAdmin(s), msgs, funds: vec![] },
                Op::Execute { by: Who::Actor(other), msgs: vec![], funds: vec![] },
                Op::Increase { by: Who::Admin(0), spender: Sp::NonAdmin(s), denom, amt: Amt::Abs(g2), exp: e2 },
            ];
        }
    };
    vec![op]
}

/// Byte decoder for the cw1 family: same shape as `case_strategy(prop, Tier::Quick)`.
fn d_attached(u: &mut arbitrary::Unstructured) -> Vec<(u8, u8)> {
    if arb_bool(u, 1, 7) {
        (0..1 + arb_below(u, 2)).map(|_| (arb_below(u, 3) as u8, 1 + arb_below(u, 29) as u8)).collect()
    } else {
        vec![]
    }
}

pub fn decode_case(prop: &str, u: &mut arbitrary::Unstructured) -> Case {
    let subkeys = match prop {
        "C08" => true,
        "C17" => arb_bool(u, 1, 2),
        "C16" => arb_bool(u, 3, 4),
        _ => arb_bool(u, 7, 10),
    };
    let admins = d_admin_list(u);
    let mutable = if prop == "C17" { arb_bool(u, 4, 5) } else { arb_bool(u, 9, 10) };
    let mut ops = vec![];
    if subkeys {
        // prologue: a few grants by the first admin so that subkeys are live early
        let n = arb_below(u, 5);
        for _ in 0..n {
            let k = d_sel(u);
            ops.push(if d_arm(u, &[5, 2]) == 0 {
                let denom = Den::Ix(arb_below(u, 3) as u8);
                let g = 20 + u.arbitrary::<u16>().unwrap_or(0) as u128 % 1980;
                let exp = match d_arm(u, &[3, 1, 2, 2]) {
                    0 => None,
                    1 => Some(ExpSpec::Never),
                    2 => Some(ExpSpec::Height(5 + arb_below(u, 35) as i32)),
                    _ => Some(ExpSpec::Time(30 + u.arbitrary::<u16>().unwrap_or(0) as i64 % 370)),
                };
                Op::Increase { by: Who::Admin(0), spender: Sp::NonAdmin(k), denom, amt: Amt::Abs(g), exp }
            } else {
                Op::SetPermissions { by: Who::Admin(0), spender: Sp::NonAdmin(k), perm: d_perm(u) }
            });
        }
    }
    // quick-tier size: 0..max_groups op groups
    let n_groups = arb_below(u, if prop == "C16" { 25 } else { 40 });
    for _ in 0..n_groups {
        ops.extend(d_group(u, prop, subkeys));
    }
    let n_probes = if prop == "C16" { 20 } else { 0 };
    let probes = (0..n_probes)
        .map(|_| {
            let sender = if subkeys { d_who(u, 2, 8, 1, 1, 2) } else { d_who(u, 4, 0, 3, 2, 3) };
            Probe { sender, msg: d_msg(u, MsgWeights { send: 30, burn: 4, staking: 3, distr: 3, other: 1 }) }
        })
        .collect();
    let chain_admin = if arb_bool(u, 1, 2) { Some(arb_below(u, N_ACTORS) as u8) } else { None };
    let creator = arb_below(u, N_SENDERS) as u8;
    let init_funds = d_attached(u);
    let peer = arb_bool(u, 1, 3);
    Case { subkeys, admins, mutable, ops, probes, chain_admin, creator, init_funds, peer }
}
