fn main() {}
