fn main() {
    vcore::runner::main_for(fam_cw1::Cw1Family)
}
