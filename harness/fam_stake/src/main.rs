fn main() {
    vcore::runner::main_for(fam_stake::StakeFamily)
}
