//! cw4-stake family: C10 (stakes fully backed, weight follows stake, exit only after
//! the unbonding delay). Chain driver: a cw-multi-test `App` with the real bank module,
//! a real cw20-base instance as stake token (cw20 arm), a second cw20-base instance as
//! the "foreign" token, and the real cw4-stake contract. Every call is a transaction:
//! it runs under `catch_unwind`; the App only commits on success, so an error or a
//! panic (division by `tokens_per_weight = 0`, `Uint128` overflow ..) leaves no state.
//!
//! Env switch `VERIF_C10_NO_WRAP=1` (default off, development aid only): Bond amounts
//! are clamped while being resolved so that no stake ever reaches a quotient
//! `stake / tokens_per_weight >= 2^64`. It exists to show that everything except the
//! known defect F2 (`calc_weight` casts the quotient with `as u64`) is silent on a
//! tree that still has F2. It is never set by the registered commands.
use cosmwasm_std::{coin, to_json_binary, Addr, BlockInfo, Coin, Empty, Uint128, Uint256};
use cw20::{BalanceResponse, Cw20Coin, Cw20ExecuteMsg, Cw20QueryMsg, Cw20ReceiveMsg, Denom};
use cw4::{MemberListResponse, MemberResponse, TotalWeightResponse};
use cw4_stake::msg::{ClaimsResponse, ExecuteMsg, InstantiateMsg, QueryMsg, ReceiveMsg, StakedResponse};
use cw_multi_test::{App, Contract, ContractWrapper, Executor};
use cw_utils::{Duration, Expiration};
use proptest::prelude::*;
use serde::{Deserialize, Deserializer, Serialize, Serializer};
use std::collections::BTreeMap;
use std::panic::{catch_unwind, AssertUnwindSafe};
use std::sync::OnceLock;
use vcore::amounts::{edge_u128, mostly_small_u128};
use vcore::{CaseCtx, Family, PropSpec, Tier, Violation};

pub const N_USERS: usize = 3;
pub const DENOM: &str = "ustake";
pub const OTHER_DENOM: &str = "uother";
pub const NEAR_DENOM: &str = "USTAKE";
/// every user holds this much of each token that is *not* the stake token
pub const SIDE_FUNDS: u128 = 1_000_000;
pub const MAX_FUNDS: u128 = 1u128 << 127;

/// u128 that serialises as a decimal string (serde_json's `Value` cannot hold
/// integers above u64::MAX, and replay files go through `Value`).
#[derive(Clone, Copy, Debug, PartialEq, Eq, PartialOrd, Ord)]
pub struct N(pub u128);

impl Serialize for N {
    fn serialize<S: Serializer>(&self, s: S) -> Result<S::Ok, S::Error> {
        s.serialize_str(&self.0.to_string())
    }
}
impl<'de> Deserialize<'de> for N {
    fn deserialize<D: Deserializer<'de>>(d: D) -> Result<Self, D::Error> {
        let s = String::deserialize(d)?;
        s.parse::<u128>().map(N).map_err(serde::de::Error::custom)
    }
}

#[derive(Clone, Debug, Serialize, Deserialize, PartialEq)]
pub enum Period {
    Height(u64),
    Time(u64),
}

#[derive(Clone, Debug, Serialize, Deserialize, PartialEq)]
pub enum MinBond {
    Abs(N),
    /// k * tokens_per_weight + d (saturating)
    TpwTimes(u16, i8),
}

#[derive(Clone, Debug, Serialize, Deserialize, PartialEq)]
pub struct Cfg {
    /// stake token is a cw20-base instance (else the native denom `ustake`)
    pub cw20: bool,
    pub tpw: N,
    pub min_bond: MinBond,
    pub period: Period,
    /// stake-token balance of each user at the start (cw20: clamped so that the sum fits u128)
    pub funds: Vec<N>,
    /// the "other" native denom of foreign attempts differs from the stake denom only in letter case
    #[serde(default)]
    pub near_denom: bool,
    /// Some((u, k)): user u (not the separate owner account) instantiates the contract and attaches k
    /// coins of its native stake-denom balance to the call (a transfer to the contract like any other
    /// donation - not a bond)
    #[serde(default)]
    pub init_funds: Option<(u8, u16)>,
}

#[derive(Clone, Debug, Serialize, Deserialize, PartialEq)]
pub enum Amt {
    Abs(N),
    /// the actor's stake-token balance + d
    Bal(i8),
    /// (k+1)/256 of the actor's stake-token balance
    FracBal(u8),
    /// the actor's current stake + d
    Stake(i8),
    /// (k+1)/256 of the actor's current stake
    FracStake(u8),
    /// k * tokens_per_weight + d
    TpwMul(u16, i8),
    /// the amount that moves the actor's stake to min_bond + d (0 if that is the wrong direction)
    ToMinBond(i8),
    /// Bond only: the amount that moves the actor's stake to 2^64 * tokens_per_weight + d,
    /// the edge of the u64 weight range (0 if not representable)
    ToQuot64(i8),
}

#[derive(Clone, Copy, Debug, Serialize, Deserialize, PartialEq)]
pub enum Foreign {
    /// native config: Bond with the other native denom. cw20 config: falls back to WrongKind
    WrongDenom,
    /// native config: Bond with two coins (stake denom + other denom)
    TwoCoins,
    /// a second cw20-base instance sends `Receive{Bond}` to the staking contract
    OtherCw20,
    /// cw20 config: Bond with native funds; native config: a cw20 `Send{Bond}`
    WrongKind,
    /// the user calls `Receive{sender: victim, amount, Bond}` itself, posing as a cw20 contract
    FakeReceive,
    /// cw20 config: Bond with a bank coin whose denom string is the configured cw20 contract's address
    /// (a different token that merely shares the name); native config: falls back to WrongKind
    NamedLikeToken,
}

/// the acting user, explicit or chosen by the state at run time (monotone map of the
/// selector onto the users that qualify; falls back to the selector over all users)
#[derive(Clone, Copy, Debug, Serialize, Deserialize, PartialEq)]
pub enum Who {
    User(u8),
    /// a user holding stake tokens
    WithFunds(u16),
    /// a user with a non-zero stake
    WithStake(u16),
    /// a user with at least one listed claim (immature ones preferred)
    WithClaims(u16),
}

#[derive(Clone, Debug, Serialize, Deserialize, PartialEq)]
pub enum Op {
    Bond { by: Who, amt: Amt },
    /// native config: the same bond paid as two coins of the staking denom in one funds list (refused on the
    /// pinned tree; if it is ever accepted, the stake grows by what was sent); cw20 config: a plain bond
    BondSplit { by: Who, amt: Amt },
    Unbond { by: Who, amt: Amt },
    Claim { by: Who },
    Advance { blocks: u16, secs: u32, #[serde(default)] nanos: u32 },
    /// move the chain to (release of the user's earliest immature claim) + d (blocks or seconds)
    AdvanceToRelease { by: Who, d: i8, #[serde(default)] fine: bool },
    Foreign { by: u8, kind: Foreign, amt: N, victim: u8 },
    /// plain token transfer to the staking contract (not a bond)
    Donate { by: u8, amt: Amt },
}

#[derive(Clone, Debug, Serialize, Deserialize, PartialEq)]
pub struct Case {
    pub cfg: Cfg,
    pub ops: Vec<Op>,
}

// ---------------------------------------------------------------- strategies

fn user() -> impl Strategy<Value = u8> {
    0u8..N_USERS as u8
}

fn tpw_strategy() -> BoxedStrategy<u128> {
    prop_oneof![
        35 => Just(1u128),
        15 => 2u128..=10,
        14 => Just(1000u128),
        10 => 11u128..100_000,
        8 => Just(1u128 << 64),
        3 => Just(u64::MAX as u128),
        // a hundred tokens of an 18-decimals token; a little above 2^64
        3 => prop_oneof![Just(100_000_000_000_000_000_000u128), ((1u128 << 64) + 1)..((1u128 << 64) + 1000)],
        5 => edge_u128(),
        2 => Just(0u128),
        4 => any::<u128>(),
    ]
    .boxed()
}

fn min_bond_strategy() -> BoxedStrategy<MinBond> {
    prop_oneof![
        20 => Just(MinBond::Abs(N(0))),
        12 => Just(MinBond::Abs(N(1))),
        28 => (2u128..5000).prop_map(|x| MinBond::Abs(N(x))),
        25 => (1u16..6, -1i8..=1).prop_map(|(k, d)| MinBond::TpwTimes(k, d)),
        5 => edge_u128().prop_map(|x| MinBond::Abs(N(x))),
    ]
    .boxed()
}

fn period_strategy() -> BoxedStrategy<Period> {
    prop_oneof![
        6 => Just(Period::Height(0)),
        6 => Just(Period::Time(0)),
        30 => (1u64..6).prop_map(Period::Height),
        30 => (1u64..60).prop_map(Period::Time),
        8 => (6u64..200).prop_map(Period::Height),
        8 => (60u64..100_000).prop_map(Period::Time),
        1 => (0u64..3).prop_map(|k| Period::Height(u64::MAX - k)),
        1 => (0u64..3).prop_map(|k| Period::Time(u64::MAX - k)),
        1 => any::<u64>().prop_map(Period::Height),
        1 => any::<u64>().prop_map(Period::Time),
    ]
    .boxed()
}

fn funds_strategy() -> BoxedStrategy<u128> {
    prop_oneof![
        3 => Just(0u128),
        8 => 0u128..1000,
        36 => 1000u128..1_000_000_000_000,
        8 => Just(1u128 << 64),
        14 => (1u128 << 64)..(1u128 << 70),
        5 => (1u128 << 100)..(1u128 << 101),
        16 => Just(MAX_FUNDS),
        6 => any::<u128>().prop_map(|x| x >> 1),
        4 => edge_u128().prop_map(|x| x.min(MAX_FUNDS)),
    ]
    .boxed()
}

fn bond_amt() -> BoxedStrategy<Amt> {
    prop_oneof![
        6 => mostly_small_u128().prop_map(|x| Amt::Abs(N(x))),
        2 => edge_u128().prop_map(|x| Amt::Abs(N(x))),
        5 => any::<u8>().prop_map(Amt::FracBal),
        2 => (-1i8..=1).prop_map(Amt::Bal),
        4 => (0u16..8, -1i8..=1).prop_map(|(k, d)| Amt::TpwMul(k, d)),
        3 => (-1i8..=1).prop_map(Amt::ToMinBond),
        2 => (-2i8..=1).prop_map(Amt::ToQuot64),
    ]
    .boxed()
}

fn unbond_amt() -> BoxedStrategy<Amt> {
    prop_oneof![
        7 => any::<u8>().prop_map(Amt::FracStake),
        5 => (-1i8..=1).prop_map(Amt::Stake),
        4 => mostly_small_u128().prop_map(|x| Amt::Abs(N(x))),
        2 => (0u16..8, -1i8..=1).prop_map(|(k, d)| Amt::TpwMul(k, d)),
        3 => (-1i8..=1).prop_map(Amt::ToMinBond),
        1 => edge_u128().prop_map(|x| Amt::Abs(N(x))),
    ]
    .boxed()
}

fn donate_amt() -> BoxedStrategy<Amt> {
    prop_oneof![
        4 => (1u128..1000).prop_map(|x| Amt::Abs(N(x))),
        2 => any::<u8>().prop_map(Amt::FracBal),
        1 => edge_u128().prop_map(|x| Amt::Abs(N(x))),
    ]
    .boxed()
}

fn foreign_kind() -> impl Strategy<Value = Foreign> {
    prop_oneof![
        Just(Foreign::WrongDenom),
        Just(Foreign::TwoCoins),
        Just(Foreign::OtherCw20),
        Just(Foreign::WrongKind),
        Just(Foreign::FakeReceive),
        Just(Foreign::NamedLikeToken),
    ]
}

fn who(f: fn(u16) -> Who) -> BoxedStrategy<Who> {
    prop_oneof![3 => any::<u16>().prop_map(f), 1 => user().prop_map(Who::User)].boxed()
}

/// one "op group": usually a single op; the exit arm emits a whole
/// bond / partial unbond / early claim / advance to the release date -1,0,+1 / claim cycle
fn op_group() -> BoxedStrategy<Vec<Op>> {
    let one = |s: BoxedStrategy<Op>| s.prop_map(|o| vec![o]).boxed();
    // one staker piles up many pending claims (partial unbonds spread over blocks), then claims around a release date
    // (a pile of more than 30 claims is left alone until all of it has matured, and is then claimed in one go)
    let pile = (user(), prop_oneof![3 => 8usize..26, 1 => 31usize..46], -1i8..=1)
        .prop_map(|(u, n, d)| {
            let mut g = vec![Op::Bond { by: Who::User(u), amt: Amt::Abs(N(5000)) }];
            for i in 0..n {
                g.push(Op::Unbond { by: Who::User(u), amt: Amt::Abs(N(1 + i as u128 % 3)) });
                g.push(Op::Advance { blocks: 1 + (i as u16 % 2), secs: 5, nanos: 0 });
            }
            if n > 30 {
                g.push(Op::Advance { blocks: 299, secs: 199_999, nanos: 0 });
                g.push(Op::Claim { by: Who::User(u) });
                g.push(Op::Claim { by: Who::User(u) });
                return g;
            }
            g.push(Op::AdvanceToRelease { by: Who::User(u), d, fine: false });
            g.push(Op::Claim { by: Who::User(u) });
            g.push(Op::Advance { blocks: 3, secs: 15, nanos: 0 });
            g.push(Op::Claim { by: Who::User(u) });
            g
        })
        .boxed();
    prop_oneof![
        1 => pile,
        28 => one((who(Who::WithFunds), bond_amt()).prop_map(|(by, amt)| Op::Bond { by, amt }).boxed()),
        1 => one((who(Who::WithFunds), bond_amt()).prop_map(|(by, amt)| Op::BondSplit { by, amt }).boxed()),
        20 => one((who(Who::WithStake), unbond_amt()).prop_map(|(by, amt)| Op::Unbond { by, amt }).boxed()),
        16 => one(who(Who::WithClaims).prop_map(|by| Op::Claim { by }).boxed()),
        10 => one((0u16..4, 0u32..40, prop_oneof![3 => Just(0u32), 1 => 0u32..1_000_000_000]).prop_map(|(blocks, secs, nanos)| Op::Advance { blocks, secs, nanos }).boxed()),
        1 => one((0u16..300, 0u32..200_000).prop_map(|(blocks, secs)| Op::Advance { blocks, secs, nanos: 0 }).boxed()),
        8 => one((who(Who::WithClaims), -1i8..=1, proptest::bool::weighted(0.3)).prop_map(|(by, d, fine)| Op::AdvanceToRelease { by, d, fine }).boxed()),
        10 => one((user(), foreign_kind(), prop_oneof![3 => 1u128..1000, 1 => edge_u128()], user())
            .prop_map(|(by, kind, amt, victim)| Op::Foreign { by, kind, amt: N(amt), victim }).boxed()),
        1 => one((user(), donate_amt()).prop_map(|(by, amt)| Op::Donate { by, amt }).boxed()),
        4 => (user(), bond_amt(), 0u8..255, -1i8..=1, any::<bool>(), proptest::bool::weighted(0.3)).prop_map(|(u, amt, k, d, claim_first, fine)| {
            let by = Who::User(u);
            let mut g = vec![Op::Bond { by, amt }, Op::Unbond { by, amt: Amt::FracStake(k) }];
            if claim_first {
                g.push(Op::Claim { by });
            }
            g.push(Op::AdvanceToRelease { by, d, fine });
            g.push(Op::Claim { by });
            g
        }).boxed(),
    ]
    .boxed()
}

pub fn case_strategy(_prop: &str, tier: Tier) -> BoxedStrategy<Case> {
    let max_ops = match tier {
        Tier::Quick => 40usize,
        Tier::Thorough => 100usize,
    };
    let cfg = (
        any::<bool>(),
        tpw_strategy(),
        min_bond_strategy(),
        period_strategy(),
        proptest::collection::vec(funds_strategy().prop_map(N), N_USERS),
        proptest::bool::weighted(0.4),
        proptest::option::weighted(0.15, (0u8..N_USERS as u8, 1u16..5000)),
    )
        .prop_map(|(cw20, tpw, min_bond, period, funds, near_denom, init_funds)| Cfg { cw20, tpw: N(tpw), min_bond, period, funds, near_denom, init_funds });
    let ops = proptest::collection::vec(op_group(), 0..=max_ops).prop_map(|g| g.into_iter().flatten().collect::<Vec<_>>());
    (cfg, ops).prop_map(|(cfg, ops)| Case { cfg, ops }).boxed()
}

// ---------------------------------------------------------------- world

fn no_wrap() -> bool {
    static F: OnceLock<bool> = OnceLock::new();
    *F.get_or_init(|| std::env::var("VERIF_C10_NO_WRAP").map(|v| v == "1").unwrap_or(false))
}

fn v(sig: &str, msg: String) -> Violation {
    Violation::new("C10", &format!("C10/{sig}"), msg)
}

fn panic_text(p: Box<dyn std::any::Any + Send>) -> String {
    vcore::direct::panic_text(p)
}

/// stand-in for trees whose cw4-stake has no `reply` entry point (the pinned tree): being called back fails,
/// as it does on a chain
#[allow(dead_code)]
fn reply(_deps: cosmwasm_std::DepsMut, _env: cosmwasm_std::Env, _msg: cosmwasm_std::Reply) -> cosmwasm_std::StdResult<cosmwasm_std::Response> {
    Err(cosmwasm_std::StdError::generic_err("the contract has no reply entry point"))
}

fn stake_code() -> Box<dyn Contract<Empty>> {
    // (the contract's own `reply`, if it has one, shadows the stand-in above inside this block)
    #[allow(unused_imports)]
    use cw4_stake::contract::*;
    Box::new(ContractWrapper::new(cw4_stake::contract::execute, cw4_stake::contract::instantiate, cw4_stake::contract::query).with_reply(reply))
}
thread_local! {
    /// while set, the stake token refuses every Transfer (a frozen / paused token): the call that needs the
    /// transfer fails as a whole
    static TOKEN_REFUSES_TRANSFERS: std::cell::Cell<bool> = const { std::cell::Cell::new(false) };
}

fn cw20_execute(deps: cosmwasm_std::DepsMut, env: cosmwasm_std::Env, info: cosmwasm_std::MessageInfo, msg: Cw20ExecuteMsg) -> Result<cosmwasm_std::Response, cw20_base::ContractError> {
    if TOKEN_REFUSES_TRANSFERS.with(|c| c.get()) && matches!(msg, Cw20ExecuteMsg::Transfer { .. }) {
        return Err(cw20_base::ContractError::Std(cosmwasm_std::StdError::generic_err("the token refuses transfers for now (injected fault)")));
    }
    cw20_base::contract::execute(deps, env, info, msg)
}

fn cw20_code() -> Box<dyn Contract<Empty>> {
    Box::new(ContractWrapper::new(cw20_execute, cw20_base::contract::instantiate, cw20_base::contract::query))
}

/// release date of a claim as an ordered key: (kind, value)
type ExpKey = (u8, u64);

fn exp_key(e: &Expiration) -> ExpKey {
    match e {
        Expiration::AtHeight(h) => (0, *h),
        Expiration::AtTime(t) => (1, t.nanos()),
        Expiration::Never {} => (2, 0),
    }
}

/// cw-utils' documented semantics: AtHeight(h) is expired when block.height >= h,
/// AtTime(t) when block.time >= t, Never never.
fn key_expired(k: &ExpKey, b: &BlockInfo) -> bool {
    match k.0 {
        0 => b.height >= k.1,
        1 => b.time.nanos() >= k.1,
        _ => false,
    }
}

/// "the unbonding period after the unbond", computed without wrap-around
#[derive(Clone, Copy, Debug, PartialEq)]
enum Earliest {
    Height(u128),
    Nanos(u128),
}

impl Earliest {
    fn of(period: &Period, b: &BlockInfo) -> Earliest {
        match period {
            Period::Height(k) => Earliest::Height(b.height as u128 + *k as u128),
            Period::Time(k) => Earliest::Nanos(b.time.nanos() as u128 + *k as u128 * 1_000_000_000),
        }
    }
    fn reached(&self, b: &BlockInfo) -> bool {
        match self {
            Earliest::Height(h) => b.height as u128 >= *h,
            Earliest::Nanos(n) => b.time.nanos() as u128 >= *n,
        }
    }
    fn later(a: Earliest, b: Earliest) -> Earliest {
        match (a, b) {
            (Earliest::Height(x), Earliest::Height(y)) => Earliest::Height(x.max(y)),
            (Earliest::Nanos(x), Earliest::Nanos(y)) => Earliest::Nanos(x.max(y)),
            (a, _) => a, // the period kind is fixed per case
        }
    }
}

#[derive(Clone, Debug, PartialEq)]
struct Obs {
    /// Staked{..} of every watched address (users first, then the token contracts)
    stake: Vec<u128>,
    /// Member{..} of every watched address
    member: Vec<Option<u64>>,
    /// Claims{..} of every user
    claims: Vec<Vec<(u128, Expiration)>>,
    /// stake-token balance of every user
    bal: Vec<u128>,
    /// stake-token balance of the staking contract
    cbal: u128,
    /// balances in the tokens that are not the stake token (users.., contract), only
    /// compared before/after failed calls and advances
    side: Vec<u128>,
    total: u64,
    listed: Vec<(String, u64)>,
}

struct World {
    app: App,
    users: Vec<Addr>,
    /// watched addresses: users, then token contracts
    watched: Vec<Addr>,
    stake: Addr,
    /// the configured cw20 stake token (cw20 arm)
    main20: Option<Addr>,
    /// the foreign cw20
    other20: Addr,
    tpw: u128,
    min_bond: u128,
    period: Period,
    /// the foreign native denom of this case
    other_denom: &'static str,
    /// coins of the stake denom were attached to the instantiate call (holdings may exceed the books)
    init_donation: bool,
}

fn root_msg(e: &anyhow::Error) -> String {
    e.root_cause().to_string()
}

impl World {
    fn exec<T: Serialize + std::fmt::Debug>(&mut self, sender: &Addr, contract: &Addr, msg: &T, funds: &[Coin]) -> Result<(), String> {
        let app = &mut self.app;
        match catch_unwind(AssertUnwindSafe(|| app.execute_contract(sender.clone(), contract.clone(), msg, funds))) {
            Ok(Ok(_)) => Ok(()),
            Ok(Err(e)) => Err(root_msg(&e)),
            Err(p) => Err(format!("panic: {}", panic_text(p))),
        }
    }

    fn bank_send(&mut self, sender: &Addr, to: &Addr, funds: &[Coin]) -> Result<(), String> {
        let app = &mut self.app;
        match catch_unwind(AssertUnwindSafe(|| app.send_tokens(sender.clone(), to.clone(), funds))) {
            Ok(Ok(_)) => Ok(()),
            Ok(Err(e)) => Err(root_msg(&e)),
            Err(p) => Err(format!("panic: {}", panic_text(p))),
        }
    }

    fn q<T: serde::de::DeserializeOwned>(&self, contract: &Addr, msg: &impl Serialize) -> Result<T, String> {
        self.app.wrap().query_wasm_smart(contract, msg).map_err(|e| e.to_string())
    }

    fn token_balance(&self, of: &Addr) -> Result<u128, String> {
        match &self.main20 {
            Some(t) => self.cw20_balance(t, of),
            None => self.native_balance(of, DENOM),
        }
    }
    fn cw20_balance(&self, token: &Addr, of: &Addr) -> Result<u128, String> {
        Ok(self.q::<BalanceResponse>(token, &Cw20QueryMsg::Balance { address: of.to_string() })?.balance.u128())
    }
    fn native_balance(&self, of: &Addr, denom: &str) -> Result<u128, String> {
        Ok(self.app.wrap().query_balance(of, denom).map_err(|e| e.to_string())?.amount.u128())
    }

    fn list_members(&self) -> Result<Vec<(String, u64)>, String> {
        let mut out: Vec<(String, u64)> = vec![];
        let mut cursor: Option<String> = None;
        loop {
            let page = self.q::<MemberListResponse>(&self.stake, &QueryMsg::ListMembers { start_after: cursor.clone(), limit: Some(30) })?.members;
            if page.is_empty() {
                return Ok(out);
            }
            cursor = page.last().map(|m| m.addr.clone());
            out.extend(page.into_iter().map(|m| (m.addr, m.weight)));
            if out.len() > 1000 {
                return Err("ListMembers does not terminate".into());
            }
        }
    }

    fn observe_inner(&self) -> Result<Obs, String> {
        let mut stake = vec![];
        let mut member = vec![];
        for a in &self.watched {
            stake.push(self.q::<StakedResponse>(&self.stake, &QueryMsg::Staked { address: a.to_string() })?.stake.u128());
            member.push(self.q::<MemberResponse>(&self.stake, &QueryMsg::Member { addr: a.to_string(), at_height: None })?.weight);
        }
        let mut claims = vec![];
        let mut bal = vec![];
        let mut side = vec![];
        for u in &self.users {
            let c = self.q::<ClaimsResponse>(&self.stake, &QueryMsg::Claims { address: u.to_string() })?.claims;
            claims.push(c.into_iter().map(|c| (c.amount.u128(), c.release_at)).collect());
            bal.push(self.token_balance(u)?);
            side.push(self.native_balance(u, self.other_denom)?);
            side.push(self.cw20_balance(&self.other20, u)?);
            if self.main20.is_some() {
                side.push(self.native_balance(u, DENOM)?);
            }
        }
        side.push(self.native_balance(&self.stake, self.other_denom)?);
        side.push(self.cw20_balance(&self.other20, &self.stake)?);
        if self.main20.is_some() {
            side.push(self.native_balance(&self.stake, DENOM)?);
        }
        let cbal = self.token_balance(&self.stake)?;
        let total = self.q::<TotalWeightResponse>(&self.stake, &QueryMsg::TotalWeight {})?.weight;
        let listed = self.list_members()?;
        Ok(Obs { stake, member, claims, bal, cbal, side, total, listed })
    }

    fn observe(&self) -> Result<Obs, Violation> {
        match catch_unwind(AssertUnwindSafe(|| self.observe_inner())) {
            Ok(Ok(o)) => Ok(o),
            Ok(Err(e)) => Err(v("query-failed", format!("a query failed: {e}"))),
            Err(p) => Err(v("query-failed", format!("a query panicked: {}", panic_text(p)))),
        }
    }

    fn name(&self, i: usize) -> String {
        if i < self.users.len() {
            format!("user{i}")
        } else {
            format!("token-contract{}", i - self.users.len())
        }
    }
}

fn resolve_who(wh: &Who, o: &Obs, b: &BlockInfo) -> usize {
    let n = N_USERS;
    let choose = |ix: u16, ok: Vec<usize>| -> usize {
        if ok.is_empty() {
            vcore::amounts::pick(ix, n)
        } else {
            ok[vcore::amounts::pick(ix, ok.len())]
        }
    };
    match wh {
        Who::User(u) => *u as usize % n,
        Who::WithFunds(ix) => choose(*ix, (0..n).filter(|i| o.bal[*i] > 0).collect()),
        Who::WithStake(ix) => choose(*ix, (0..n).filter(|i| o.stake[*i] > 0).collect()),
        Who::WithClaims(ix) => {
            let immature: Vec<usize> = (0..n).filter(|i| o.claims[*i].iter().any(|(a, e)| *a > 0 && !key_expired(&exp_key(e), b))).collect();
            if !immature.is_empty() && ix % 4 != 0 {
                choose(*ix, immature)
            } else {
                choose(*ix, (0..n).filter(|i| !o.claims[*i].is_empty()).collect())
            }
        }
    }
}

fn resolve_min_bond(m: &MinBond, tpw: u128) -> u128 {
    match m {
        MinBond::Abs(x) => x.0,
        MinBond::TpwTimes(k, d) => shift(tpw.saturating_mul(*k as u128), *d),
    }
}

fn shift(base: u128, d: i8) -> u128 {
    if d >= 0 {
        base.saturating_add(d as u128)
    } else {
        base.saturating_sub((-(d as i16)) as u128)
    }
}

fn frac(x: u128, k: u8) -> u128 {
    let r = Uint256::from(x) * Uint256::from(k as u128 + 1) / Uint256::from(256u128);
    Uint128::try_from(r).map(|u| u.u128()).unwrap_or(x)
}

/// `up`: the amount is added to the stake (Bond) / removed from it (Unbond)
fn resolve_amt(a: &Amt, w: &World, o: &Obs, u: usize, up: bool) -> u128 {
    let (bal, stake) = (o.bal[u], o.stake[u]);
    match a {
        Amt::Abs(x) => x.0,
        Amt::Bal(d) => shift(bal, *d),
        Amt::FracBal(k) => frac(bal, *k),
        Amt::Stake(d) => shift(stake, *d),
        Amt::FracStake(k) => frac(stake, *k),
        Amt::TpwMul(k, d) => shift(w.tpw.saturating_mul(*k as u128), *d),
        Amt::ToMinBond(d) => {
            let target = shift(w.min_bond, *d);
            if up {
                target.saturating_sub(stake)
            } else {
                stake.saturating_sub(target)
            }
        }
        Amt::ToQuot64(d) => match w.tpw.checked_mul(1u128 << 64) {
            Some(edge) if up => shift(edge, *d).saturating_sub(stake),
            _ => 0,
        },
    }
}

fn build_world(cfg: &Cfg, ctx: &mut CaseCtx) -> Result<Option<World>, Violation> {
    let mut app = App::default();
    let users: Vec<Addr> = (0..N_USERS).map(|i| app.api().addr_make(&format!("user{i}"))).collect();
    let owner = app.api().addr_make("owner");
    let tpw = cfg.tpw.0;
    let min_bond = resolve_min_bond(&cfg.min_bond, tpw);

    // stake-token funds; the cw20 arm needs the total supply to fit u128
    let mut funds: Vec<u128> = (0..N_USERS).map(|i| cfg.funds.get(i).map(|n| n.0).unwrap_or(0).min(MAX_FUNDS)).collect();
    if cfg.cw20 {
        let mut room = u128::MAX;
        for f in funds.iter_mut() {
            *f = (*f).min(room);
            room -= *f;
        }
    }

    // the foreign native denom: an unrelated one, or the stake denom in upper case
    let other_denom: &'static str = if cfg.near_denom { NEAR_DENOM } else { OTHER_DENOM };
    {
        let users = users.clone();
        let funds = funds.clone();
        let cw20 = cfg.cw20;
        app.init_modules(|router, _, storage| {
            for (u, f) in users.iter().zip(funds.iter()) {
                let mut coins = vec![coin(SIDE_FUNDS, other_denom)];
                let native = if cw20 { SIDE_FUNDS } else { *f };
                if native > 0 {
                    coins.push(coin(native, DENOM));
                }
                router.bank.init_balance(storage, u, coins).expect("init_balance");
            }
        });
    }

    let cw20_id = app.store_code(cw20_code());
    let stake_id = app.store_code(stake_code());
    let mk20 = |app: &mut App, label: &str, bals: Vec<u128>| -> Addr {
        let msg = cw20_base::msg::InstantiateMsg {
            name: format!("Token {label}"),
            symbol: "TOK".into(),
            decimals: 6,
            initial_balances: users.iter().zip(bals.iter()).filter(|(_, b)| **b > 0).map(|(u, b)| Cw20Coin { address: u.to_string(), amount: Uint128::new(*b) }).collect(),
            mint: None,
            marketing: None,
        };
        app.instantiate_contract(cw20_id, owner.clone(), &msg, &[], label, None).expect("cw20-base instantiate with valid data")
    };
    let other20 = mk20(&mut app, "other", vec![SIDE_FUNDS; N_USERS]);
    let main20 = if cfg.cw20 { Some(mk20(&mut app, "main", funds.clone())) } else { None };

    let denom = match &main20 {
        Some(a) => Denom::Cw20(a.clone()),
        None => Denom::Native(DENOM.to_string()),
    };
    let msg = InstantiateMsg {
        denom,
        tokens_per_weight: Uint128::new(tpw),
        min_bond: Uint128::new(min_bond),
        unbonding_period: match cfg.period {
            Period::Height(k) => Duration::Height(k),
            Period::Time(k) => Duration::Time(k),
        },
        admin: None,
    };
    // who instantiates, and with which coins attached
    let (creator, attached): (Addr, Vec<Coin>) = match cfg.init_funds {
        Some((u, k)) => {
            let u = u as usize % N_USERS;
            let have = app.wrap().query_balance(users[u].to_string(), DENOM).map(|c| c.amount.u128()).unwrap_or(0);
            let k = (k as u128).min(have);
            (users[u].clone(), if k > 0 { vec![coin(k, DENOM)] } else { vec![] })
        }
        None => (owner.clone(), vec![]),
    };
    let init_donation = !attached.is_empty();
    let r = {
        let app = &mut app;
        catch_unwind(AssertUnwindSafe(|| app.instantiate_contract(stake_id, creator.clone(), &msg, &attached, "stake", None)))
    };
    let stake = match r {
        Ok(Ok(a)) => a,
        _ => {
            // nothing in the property obliges a configuration to be accepted
            ctx.count("init_rejected");
            return Ok(None);
        }
    };
    ctx.count("init_accepted");
    let mut watched = users.clone();
    watched.push(other20.clone());
    if let Some(m) = &main20 {
        watched.push(m.clone());
    }
    Ok(Some(World { app, users, watched, stake, main20, other20, tpw, min_bond, period: cfg.period.clone(), other_denom, init_donation }))
}

/// claims of one user grouped by release date (zero totals dropped): the ledger is
/// compared at this granularity so that neither the order of the list nor a merge of
/// equal-dated claims matters
fn by_release(list: &[(u128, Expiration)]) -> BTreeMap<ExpKey, Uint256> {
    let mut m: BTreeMap<ExpKey, Uint256> = BTreeMap::new();
    for (a, e) in list {
        *m.entry(exp_key(e)).or_insert(Uint256::zero()) += Uint256::from(*a);
    }
    m.retain(|_, s| !s.is_zero());
    m
}

#[derive(Clone, Copy, Debug, PartialEq)]
enum Kind {
    Bond,
    Unbond,
    Claim,
    Foreign,
    Donate,
}

/// State invariants, evaluated after instantiation and after every step.
/// What the contract reports now about the start of the block after each recently closed block is what it
/// reported when that block ended (whatever the members did since, e.g. leaving altogether).
fn check_closed_blocks(w: &World, closed: &[(u64, Vec<Option<u64>>)], at: &str) -> Result<(), Violation> {
    let now = w.app.block_info().height;
    for (bh, members) in closed {
        let h = bh + 1;
        if h > now {
            continue;
        }
        for (i, want) in members.iter().enumerate() {
            let got = w
                .q::<MemberResponse>(&w.stake, &QueryMsg::Member { addr: w.watched[i].to_string(), at_height: Some(h) })
                .map_err(|e| v("query-failed", format!("{at}: Member at height {h}: {e}")))?
                .weight;
            if got != *want {
                return Err(v("member-history-rewritten", format!("{at}: {} was reported with weight {:?} when block {bh} ended; asked about height {h} now, the contract reports {:?}", w.name(i), want, got)));
            }
        }
    }
    Ok(())
}

fn check_state(w: &World, o: &Obs, donated: bool, at: &str, ctx: &mut CaseCtx) -> Result<(), Violation> {
    // ---- backing
    let mut books = Uint256::zero();
    for s in &o.stake {
        books += Uint256::from(*s);
    }
    for l in &o.claims {
        for (a, _) in l {
            books += Uint256::from(*a);
        }
    }
    let held = Uint256::from(o.cbal);
    if held < books {
        return Err(v("underbacked", format!("{at}: the contract holds {held} of the stake token but records stakes + unreleased claims of {books}")));
    }
    if !donated && held != books {
        return Err(v("backing-ne-books", format!("{at}: the contract was funded only by bonding, holds {held}, but stakes + unreleased claims sum to {books}")));
    }

    // ---- membership and weight
    let eff_min = w.min_bond.max(1);
    let mut member_sum: u128 = 0;
    for (i, a) in w.watched.iter().enumerate() {
        let s = o.stake[i];
        let m = o.member[i];
        let ambiguous = w.min_bond == 0 && s == 0; // "at least the minimum bond" with both zero: either answer accepted
        if ambiguous {
            ctx.count(if m.is_some() { "zero_stake_zero_minbond_member" } else { "zero_stake_zero_minbond_nonmember" });
        } else if m.is_some() != (s >= eff_min) {
            return Err(v("member-iff-min-bond", format!("{at}: {} has stake {s}, minimum bond {}, but Member reports {:?}", w.name(i), w.min_bond, m)));
        }
        if let Some(wt) = m {
            member_sum += wt as u128;
            if w.tpw == 0 {
                return Err(v("weight-with-zero-tpw", format!("{at}: {} is reported with weight {wt} although tokens_per_weight is 0 (no quotient exists)", w.name(i))));
            }
            let q = s / w.tpw;
            if q >= 1u128 << 63 {
                ctx.flag("quot_ge_2_63");
            }
            if wt as u128 != q {
                if ctx.tolerate("C10/weight-ne-quotient") {
                    ctx.flag("tolerated_weight_ne_quotient");
                } else {
                    return Err(v("weight-ne-quotient", format!("{at}: {} has stake {s}, tokens_per_weight {}, true quotient {q}, but Member reports weight {wt}", w.name(i), w.tpw)));
                }
            }
        }
        // the member list tells the same story as the point query
        let in_list = o.listed.iter().find(|(x, _)| x == a.as_str()).map(|(_, wt)| *wt);
        if in_list != m {
            return Err(v("member-list-disagrees", format!("{at}: {}: Member reports {:?}, ListMembers {:?}", w.name(i), m, in_list)));
        }
    }
    if o.listed.len() != o.member.iter().filter(|m| m.is_some()).count() {
        return Err(v("member-iff-min-bond", format!("{at}: ListMembers reports members that never bonded: {:?}", o.listed)));
    }
    if member_sum != o.total as u128 {
        return Err(v("total-ne-member-sum", format!("{at}: TotalWeight {} but member weights sum to {member_sum}", o.total)));
    }
    Ok(())
}

pub fn run_case(prop: &str, case: &Case, ctx: &mut CaseCtx) -> Result<(), Violation> {
    if prop != "C10" {
        return Err(Violation::new(prop, "unknown-property", "family stake serves C10 only"));
    }
    let Some(mut w) = build_world(&case.cfg, ctx)? else {
        return Ok(());
    };
    let n = N_USERS;
    let mut pre = w.observe()?;
    if pre.stake.iter().any(|s| *s != 0) || pre.claims.iter().any(|c| !c.is_empty()) {
        return Err(v("stake-delta", "a fresh contract reports stakes or claims".to_string()));
    }
    let mut donated = w.init_donation;
    check_state(&w, &pre, donated, "after instantiate", ctx)?;
    // membership as it stood at the end of the last few blocks that were closed: "reported as a member" also
    // covers what the contract reports about those blocks later on
    let mut closed: Vec<(u64, Vec<Option<u64>>)> = vec![];

    // ledger of unreleased claims: per user, release key -> (sum, earliest permitted payout)
    let mut ledger: Vec<BTreeMap<ExpKey, (Uint256, Earliest)>> = vec![BTreeMap::new(); n];
    // non-triviality class A, per user: 0 -> partial unbond -> 1 -> claim attempt while immature -> 2 -> paid claim -> 3
    let mut phase = vec![0u8; n];
    let mut bonded_once = false;

    for (step_no, op) in case.ops.iter().enumerate() {
        let block = w.app.block_info();
        // ------------------------------------------------ time
        let adv: Option<(u64, u64)> = match op {
            Op::Advance { blocks, secs, nanos } => Some((*blocks as u64, *secs as u64 * 1_000_000_000 + *nanos as u64)),
            Op::AdvanceToRelease { by, d, fine } => {
                let u = resolve_who(by, &pre, &block);
                let next = by_release(&pre.claims[u]).keys().find(|k| k.0 < 2 && !key_expired(k, &block)).cloned();
                match next {
                    None => {
                        ctx.count("advance_to_release_nothing_pending");
                        None
                    }
                    Some((0, h)) => {
                        let target = if *d >= 0 { h.saturating_add(*d as u64) } else { h.saturating_sub(d.unsigned_abs() as u64) };
                        let blocks = target.saturating_sub(block.height);
                        if blocks > 1_000_000 {
                            ctx.count("advance_to_release_too_far");
                            None
                        } else {
                            ctx.count("advance_to_release");
                            Some((blocks, blocks * 5_000_000_000))
                        }
                    }
                    Some((_, t)) => {
                        // `fine`: one nanosecond before / exactly at / one nanosecond after the release point
                        let unit: u64 = if *fine { 1 } else { 1_000_000_000 };
                        let target = if *d >= 0 { t.saturating_add(*d as u64 * unit) } else { t.saturating_sub(d.unsigned_abs() as u64 * unit) };
                        let nanos = target.saturating_sub(block.time.nanos());
                        if nanos > 1_000_000_000_000_000 {
                            ctx.count("advance_to_release_too_far");
                            None
                        } else {
                            ctx.count("advance_to_release");
                            Some((1, nanos))
                        }
                    }
                }
            }
            _ => None,
        };
        if matches!(op, Op::Advance { .. } | Op::AdvanceToRelease { .. }) {
            if let Some((blocks, nanos)) = adv {
                if blocks > 0 {
                    closed.push((block.height, pre.member[..n].to_vec()));
                    if closed.len() > 3 {
                        closed.remove(0);
                    }
                }
                w.app.update_block(|b| {
                    b.height = b.height.saturating_add(blocks);
                    b.time = cosmwasm_std::Timestamp::from_nanos(b.time.nanos().saturating_add(nanos));
                });
                let post = w.observe()?;
                if post != pre {
                    return Err(v("advance-changed-state", format!("step {step_no}: the passage of time alone changed queried state")));
                }
                check_closed_blocks(&w, &closed, &format!("step {step_no} (after advancing)"))?;
            }
            continue;
        }

        // ------------------------------------------------ a call
        let (kind, u, amount, res): (Kind, usize, u128, Result<(), String>) = match op {
            Op::Bond { by, amt } | Op::BondSplit { by, amt } => {
                let split = matches!(op, Op::BondSplit { .. });
                let u = resolve_who(by, &pre, &block);
                let mut a = resolve_amt(amt, &w, &pre, u, true);
                if no_wrap() && w.tpw > 0 {
                    if let Some(edge) = w.tpw.checked_mul(1u128 << 64) {
                        a = a.min((edge - 1).saturating_sub(pre.stake[u]));
                    }
                }
                let user = w.users[u].clone();
                let stake = w.stake.clone();
                let r = match w.main20.clone() {
                    Some(tok) => {
                        let msg = Cw20ExecuteMsg::Send { contract: stake.to_string(), amount: Uint128::new(a), msg: to_json_binary(&ReceiveMsg::Bond {}).unwrap() };
                        w.exec(&user, &tok, &msg, &[])
                    }
                    None => {
                        // a zero coin cannot be sent on a chain: a zero bond is a Bond without funds
                        let funds = if a == 0 {
                            vec![]
                        } else if split && a >= 2 {
                            ctx.count("bond_paid_in_two_coins");
                            vec![coin(a / 2, DENOM), coin(a - a / 2, DENOM)]
                        } else {
                            vec![coin(a, DENOM)]
                        };
                        w.exec(&user, &stake, &ExecuteMsg::Bond {}, &funds)
                    }
                };
                if w.tpw > 0 && (Uint256::from(pre.stake[u]) + Uint256::from(a)) / Uint256::from(w.tpw) >= Uint256::from(1u128 << 64) && a <= pre.bal[u] {
                    ctx.count(if r.is_ok() { "bond_to_quotient_ge_2_64_ok" } else { "bond_to_quotient_ge_2_64_fail" });
                }
                (Kind::Bond, u, a, r)
            }
            Op::Unbond { by, amt } => {
                let u = resolve_who(by, &pre, &block);
                let a = resolve_amt(amt, &w, &pre, u, false);
                let (user, stake) = (w.users[u].clone(), w.stake.clone());
                let r = w.exec(&user, &stake, &ExecuteMsg::Unbond { tokens: Uint128::new(a) }, &[]);
                (Kind::Unbond, u, a, r)
            }
            Op::Claim { by } => {
                let u = resolve_who(by, &pre, &block);
                let (user, stake) = (w.users[u].clone(), w.stake.clone());
                // (every fifth step a cw20 stake token is frozen while the Claim runs: the payout cannot be made, so
                // the Claim fails as a whole and the claims stay on the books)
                let frozen = w.main20.is_some() && step_no % 5 == 3;
                TOKEN_REFUSES_TRANSFERS.with(|c| c.set(frozen));
                let r = w.exec(&user, &stake, &ExecuteMsg::Claim {}, &[]);
                TOKEN_REFUSES_TRANSFERS.with(|c| c.set(false));
                if frozen {
                    ctx.count(if r.is_ok() { "claim_while_token_frozen_ok" } else { "claim_while_token_frozen_failed" });
                }
                (Kind::Claim, u, 0, r)
            }
            Op::Donate { by, amt } => {
                let u = *by as usize % n;
                let a = resolve_amt(amt, &w, &pre, u, true);
                let (user, stake) = (w.users[u].clone(), w.stake.clone());
                let r = match w.main20.clone() {
                    Some(tok) => w.exec(&user, &tok, &Cw20ExecuteMsg::Transfer { recipient: stake.to_string(), amount: Uint128::new(a) }, &[]),
                    None => w.bank_send(&user, &stake, &[coin(a, DENOM)]),
                };
                (Kind::Donate, u, a, r)
            }
            Op::Foreign { by, kind, amt, victim } => {
                let u = *by as usize % n;
                let a = 1 + amt.0 % SIDE_FUNDS; // always affordable: side balances never move
                let (user, stake, other20) = (w.users[u].clone(), w.stake.clone(), w.other20.clone());
                let bond_payload = to_json_binary(&ReceiveMsg::Bond {}).unwrap();
                let native_cfg = w.main20.is_none();
                let eff = match kind {
                    Foreign::WrongDenom if !native_cfg => Foreign::WrongKind,
                    Foreign::TwoCoins if !native_cfg => Foreign::WrongKind,
                    Foreign::TwoCoins if pre.bal[u] == 0 => Foreign::WrongDenom,
                    Foreign::NamedLikeToken if native_cfg => Foreign::WrongKind,
                    k => *k,
                };
                ctx.count(&format!("foreign_{:?}", eff));
                let r = match eff {
                    Foreign::WrongDenom => w.exec(&user, &stake, &ExecuteMsg::Bond {}, &[coin(a, w.other_denom)]),
                    Foreign::TwoCoins => w.exec(&user, &stake, &ExecuteMsg::Bond {}, &[coin(a.min(pre.bal[u]), DENOM), coin(a, w.other_denom)]),
                    Foreign::OtherCw20 => w.exec(&user, &other20, &Cw20ExecuteMsg::Send { contract: stake.to_string(), amount: Uint128::new(a), msg: bond_payload }, &[]),
                    Foreign::WrongKind => {
                        if native_cfg {
                            w.exec(&user, &other20, &Cw20ExecuteMsg::Send { contract: stake.to_string(), amount: Uint128::new(a), msg: bond_payload }, &[])
                        } else {
                            w.exec(&user, &stake, &ExecuteMsg::Bond {}, &[coin(a, DENOM)])
                        }
                    }
                    Foreign::NamedLikeToken => {
                        let denom = w.main20.clone().map(|a| a.to_string()).unwrap_or_default();
                        w.app.sudo(cw_multi_test::SudoMsg::Bank(cw_multi_test::BankSudo::Mint { to_address: user.to_string(), amount: vec![coin(a, denom.clone())] })).expect("mint");
                        w.exec(&user, &stake, &ExecuteMsg::Bond {}, &[coin(a, denom)])
                    }
                    Foreign::FakeReceive => {
                        let vic = w.users[*victim as usize % n].to_string();
                        let big = if amt.0 == 0 { 1 } else { amt.0 };
                        w.exec(&user, &stake, &ExecuteMsg::Receive(Cw20ReceiveMsg { sender: vic, amount: Uint128::new(big), msg: bond_payload }), &[])
                    }
                };
                (Kind::Foreign, u, a, r)
            }
            Op::Advance { .. } | Op::AdvanceToRelease { .. } => unreachable!(),
        };
        let ok = res.is_ok();
        let post = w.observe()?;
        ctx.count(&format!("op_{:?}_{}", kind, if ok { "ok" } else { "fail" }));
        let at = format!(
            "step {step_no} {:?} by user{u} amount={amount} at height {} time {}ns -> {}",
            kind,
            block.height,
            block.time.nanos(),
            match &res {
                Ok(()) => "ok".to_string(),
                Err(e) => format!("err({e})"),
            }
        );

        // a failed call changes nothing (the App commits only on success)
        if !ok && post != pre {
            return Err(v("failed-call-changed-state", format!("{at}: state differs after a failed call (harness atomicity broken?)")));
        }

        // only the configured token is accepted
        if kind == Kind::Foreign {
            if ok {
                return Err(v("foreign-token-accepted", format!("{at}: {:?} was accepted by a contract configured for {}", op, if w.main20.is_some() { "a cw20 token" } else { "the native denom ustake" })));
            }
            ctx.flag("foreign_rejected");
            if bonded_once {
                ctx.flag("foreign_rejected_live");
            }
        }

        // a stake changes only by the owner's own bond (+amount) or unbond (-amount)
        for i in 0..w.watched.len() {
            let expect: Option<u128> = if ok && i == u && kind == Kind::Bond {
                pre.stake[i].checked_add(amount)
            } else if ok && i == u && kind == Kind::Unbond {
                pre.stake[i].checked_sub(amount)
            } else {
                Some(pre.stake[i])
            };
            if expect != Some(post.stake[i]) {
                return Err(v("stake-delta", format!("{at}: Staked of {} went {} -> {}, expected {:?}", w.name(i), pre.stake[i], post.stake[i], expect)));
            }
        }

        // real token movements
        let paid: Uint256 = if ok && kind == Kind::Claim {
            by_release(&pre.claims[u]).iter().filter(|(k, _)| key_expired(k, &block)).fold(Uint256::zero(), |s, (_, a)| s + *a)
        } else {
            Uint256::zero()
        };
        let into_contract: u128 = if ok && matches!(kind, Kind::Bond | Kind::Donate) { amount } else { 0 };
        for i in 0..n {
            let mut e = Uint256::from(pre.bal[i]);
            if i == u {
                e += paid;
                e = e.checked_sub(Uint256::from(into_contract)).unwrap_or(Uint256::MAX);
            }
            if e != Uint256::from(post.bal[i]) {
                let sig = match kind {
                    Kind::Claim if ok => "claim-payout",
                    Kind::Bond if ok => "bond-funds-delta",
                    _ => "balance-moved",
                };
                return Err(v(sig, format!("{at}: stake-token balance of user{i} went {} -> {}, expected {e}", pre.bal[i], post.bal[i])));
            }
        }
        {
            let e = (Uint256::from(pre.cbal) + Uint256::from(into_contract)).checked_sub(paid).unwrap_or(Uint256::MAX);
            if e != Uint256::from(post.cbal) {
                let sig = match kind {
                    Kind::Claim if ok => "claim-payout",
                    Kind::Bond if ok => "bond-funds-delta",
                    _ => "balance-moved",
                };
                return Err(v(sig, format!("{at}: stake-token balance of the contract went {} -> {}, expected {e}", pre.cbal, post.cbal)));
            }
        }

        // claims ledger
        if ok && kind == Kind::Unbond {
            let earliest = Earliest::of(&w.period, &block);
            let before = by_release(&pre.claims[u]);
            let after = by_release(&post.claims[u]);
            let mut changed: Vec<(ExpKey, Uint256)> = vec![];
            let mut lost = false;
            for (k, s) in &after {
                let b = before.get(k).cloned().unwrap_or(Uint256::zero());
                if *s > b {
                    changed.push((*k, *s - b));
                } else if *s < b {
                    lost = true;
                }
            }
            if before.keys().any(|k| !after.contains_key(k)) {
                lost = true;
            }
            let good = !lost && if amount == 0 { changed.is_empty() } else { changed.len() == 1 && changed[0].1 == Uint256::from(amount) };
            if !good {
                return Err(v("unbond-claim-entry", format!("{at}: Unbond must add exactly one claim of {amount}; claims went {:?} -> {:?}", pre.claims[u], post.claims[u])));
            }
            if let Some((k, add)) = changed.first() {
                // the claim's own release date is not earlier than the unbonding period after this unbond
                let too_early = match (k.0, earliest) {
                    (0, Earliest::Height(h)) => (k.1 as u128) < h,
                    (1, Earliest::Nanos(t)) => (k.1 as u128) < t,
                    _ => false,
                };
                if too_early {
                    return Err(v("claim-release-too-early", format!("{at}: the new claim is released at {:?}, before the unbonding period after the unbond is over ({:?})", k, earliest)));
                }
                let e = ledger[u].entry(*k).or_insert((Uint256::zero(), earliest));
                e.0 += *add;
                e.1 = Earliest::later(e.1, earliest);
                if key_expired(k, &block) {
                    ctx.flag("claim_born_mature");
                }
            }
            if amount > 0 && amount < pre.stake[u] {
                ctx.flag("partial_unbond");
                if phase[u] == 0 {
                    phase[u] = 1;
                }
            }
        }
        if kind == Kind::Claim {
            let pending_immature = ledger[u].keys().any(|k| !key_expired(k, &block));
            let matured_sum = by_release(&pre.claims[u]).iter().filter(|(k, _)| key_expired(k, &block)).fold(Uint256::zero(), |s, (_, a)| s + *a);
            if !matured_sum.is_zero() {
                ctx.count(if ok { "claim_with_matured_ok" } else { "claim_with_matured_failed" });
            } else {
                ctx.count(if ok { "claim_nothing_matured_ok" } else { "claim_nothing_matured_fail" });
            }
            if ok {
                // never earlier than the unbonding period after the unbond
                let due: Vec<ExpKey> = ledger[u].keys().filter(|k| key_expired(k, &block)).cloned().collect();
                for k in due {
                    let (sum, earliest) = ledger[u].remove(&k).unwrap();
                    if !earliest.reached(&block) {
                        return Err(v("claim-paid-early", format!("{at}: paid {sum} whose unbonding period ends at {:?}; block is height {} time {}ns", earliest, block.height, block.time.nanos())));
                    }
                }
                if !paid.is_zero() {
                    ctx.flag("claim_paid");
                    if phase[u] == 2 {
                        phase[u] = 3;
                    }
                }
            }
            if pending_immature && phase[u] == 1 {
                phase[u] = 2;
                ctx.flag("claim_attempt_before_maturity");
            }
        }
        // after every call the listed claims are exactly the unreleased part of the ledger
        for i in 0..n {
            let listed = by_release(&post.claims[i]);
            let ours: BTreeMap<ExpKey, Uint256> = ledger[i].iter().map(|(k, (s, _))| (*k, *s)).collect();
            if listed != ours {
                let sig = if ok && kind == Kind::Claim && i == u { "claims-not-removed-exactly" } else { "claims-ne-ledger" };
                return Err(v(sig, format!("{at}: Claims of user{i} are {:?}; ledger of unbonds not yet paid says {:?}", post.claims[i], ours)));
            }
        }

        if ok && kind == Kind::Donate && amount > 0 {
            donated = true;
            ctx.flag("donated");
        }
        if ok && kind == Kind::Bond {
            bonded_once = true;
        }
        check_state(&w, &post, donated, &at, ctx)?;
        check_closed_blocks(&w, &closed, &at)?;
        pre = post;
    }

    if phase.iter().any(|p| *p == 3) {
        ctx.flag("unbond_claim_before_and_after");
    }
    ctx.nontrivial = ctx.has("unbond_claim_before_and_after") || ctx.has("quot_ge_2_63") || ctx.has("foreign_rejected_live");
    Ok(())
}

// ---------------------------------------------------------------- family

pub struct StakeFamily;

const ASSUME: &[&str] = &[
    "transactions are atomic: a failed or panicking call leaves no state (cw-multi-test commits only on success; panics are caught and treated as failed calls)",
    "cw-multi-test 2.0.0 (bank, wasm routing, sub-message dispatch), cw20-base as token, cosmwasm-std, cw-storage-plus, cw-utils, cw-controllers are trusted as execution substrate",
    "natively compiled contract code behaves as its wasm build (overflow checks on)",
    "every address that ever holds a stake or a claim is one of the 3 users or one of the token contracts, all of which are observed",
];

impl Family for StakeFamily {
    type Case = Case;
    fn name(&self) -> &'static str {
        "stake"
    }
    fn props(&self) -> Vec<PropSpec> {
        vec![PropSpec {
            id: "C10", quick_cases: 10000, thorough_cases: 4500, floor: 1500,
            rule: "case = configuration (native or cw20-base stake token, tokens_per_weight in {1, small, 1000, 2^64, edge, 0 rarely}, min_bond absolute or k*tpw+-1, Height/Time unbonding period incl. 0 and near-u64::MAX, 3 users funded up to 2^127) + up to 40 (thorough 100) ops: Bond / Unbond with absolute and state-relative amounts (balance, stake, tpw multiples, min_bond +-1, 2^64*tpw +-1), Claim, Advance, AdvanceToRelease+-1, five kinds of foreign-token attempts, rare donation; executed on a cw-multi-test App with real bank / cw20 token movements; after every call Staked, Member, Claims, ListMembers, TotalWeight and real balances of all parties are compared with a ledger. Non-trivial: (a user makes a partial unbond, then attempts Claim while that claim is immature, then is paid by a later Claim) or (a member whose true quotient stake/tpw is >= 2^63) or (a foreign-token attempt rejected after at least one successful Bond); distinct = distinct canonical JSON of the case.",
            assumptions: ASSUME,
        }]
    }
    fn strategy(&self, prop: &str, tier: Tier) -> BoxedStrategy<Case> {
        case_strategy(prop, tier)
    }
    fn run(&self, prop: &str, case: &Case, ctx: &mut CaseCtx) -> Result<(), Violation> {
        run_case(prop, case, ctx)
    }
    fn decode(&self, prop: &str, u: &mut arbitrary::Unstructured) -> Option<Case> {
        Some(decode_case(prop, u))
    }
}

// ---------------------------------------------------------------- byte decoder (fuzz front-end)

use vcore::amounts::{arb_below, arb_bool, arb_u128};

type Un<'a, 'b> = &'a mut arbitrary::Unstructured<'b>;

fn d_user(u: Un) -> u8 {
    arb_below(u, N_USERS) as u8
}
/// -1, 0 or +1
fn d_pm1(u: Un) -> i8 {
    arb_below(u, 3) as i8 - 1
}
/// u128 in lo..=hi
fn d_range(u: Un, lo: u128, hi: u128) -> u128 {
    u.int_in_range(lo..=hi).unwrap_or(lo)
}
/// counterpart of `mostly_small_u128`
fn d_small(u: Un) -> u128 {
    match arb_below(u, 16) {
        0..=9 => u.arbitrary::<u16>().unwrap_or(0) as u128 % 1000,
        10 => 0,
        11 => 1,
        12 | 13 => u.arbitrary::<u32>().unwrap_or(0) as u128 % 1_000_001,
        14 => [u64::MAX as u128, 1u128 << 64, u128::MAX][arb_below(u, 3)],
        _ => u.arbitrary::<u128>().unwrap_or(0),
    }
}
/// counterpart of `who(f)`: one byte, 3/4 state-relative selector, 1/4 explicit user. The
/// 16-bit selector is the byte repeated, so that both the high bits (`pick`) and the low
/// bits (`ix % 4` in `resolve_who`) vary.
fn d_who(u: Un, f: fn(u16) -> Who) -> Who {
    if arb_bool(u, 1, 4) {
        // arb_bool reads one byte; byte % 4 == 0
        Who::User(d_user(u))
    } else {
        f(u.arbitrary::<u8>().unwrap_or(0) as u16 * 257)
    }
}
fn d_tpw_mul(u: Un) -> Amt {
    Amt::TpwMul(arb_below(u, 8) as u16, d_pm1(u))
}
fn d_bond_amt(u: Un) -> Amt {
    match arb_below(u, 24) {
        0..=5 => Amt::Abs(N(d_small(u))),
        6..=10 => Amt::FracBal(u.arbitrary().unwrap_or(0)),
        11..=14 => d_tpw_mul(u),
        15..=17 => Amt::ToMinBond(d_pm1(u)),
        18 | 19 => Amt::Bal(d_pm1(u)),
        20 | 21 => Amt::ToQuot64(arb_below(u, 4) as i8 - 2),
        _ => Amt::Abs(N(arb_u128(u))),
    }
}
fn d_unbond_amt(u: Un) -> Amt {
    match arb_below(u, 22) {
        0..=6 => Amt::FracStake(u.arbitrary().unwrap_or(0)),
        7..=11 => Amt::Stake(d_pm1(u)),
        12..=15 => Amt::Abs(N(d_small(u))),
        16 | 17 => d_tpw_mul(u),
        18..=20 => Amt::ToMinBond(d_pm1(u)),
        _ => Amt::Abs(N(arb_u128(u))),
    }
}
fn d_donate_amt(u: Un) -> Amt {
    match arb_below(u, 7) {
        0..=3 => Amt::Abs(N(1 + u.arbitrary::<u16>().unwrap_or(0) as u128 % 999)),
        4 | 5 => Amt::FracBal(u.arbitrary().unwrap_or(0)),
        _ => Amt::Abs(N(arb_u128(u))),
    }
}
fn d_cfg(u: Un) -> Cfg {
    let cw20 = arb_bool(u, 1, 2);
    let tpw = match arb_below(u, 32) {
        0..=10 => 1,
        11..=15 => 2 + arb_below(u, 9) as u128,
        16..=19 => 1000,
        20..=22 => d_range(u, 11, 99_999),
        23..=25 => 1u128 << 64,
        26 => u64::MAX as u128,
        27 | 28 => arb_u128(u),
        29 => 0,
        _ => u.arbitrary::<u128>().unwrap_or(1),
    };
    let min_bond = match arb_below(u, 16) {
        0..=2 => MinBond::Abs(N(0)),
        3 | 4 => MinBond::Abs(N(1)),
        5..=8 => MinBond::Abs(N(d_range(u, 2, 4999))),
        9..=13 => MinBond::TpwTimes(1 + arb_below(u, 5) as u16, d_pm1(u)),
        _ => MinBond::Abs(N(arb_u128(u))),
    };
    let period = match arb_below(u, 20) {
        0..=5 => Period::Height(1 + arb_below(u, 5) as u64),
        6..=11 => Period::Time(1 + arb_below(u, 59) as u64),
        12 => Period::Height(0),
        13 => Period::Time(0),
        14 | 15 => Period::Height(6 + arb_below(u, 194) as u64),
        16 | 17 => Period::Time(u.int_in_range(60u64..=99_999).unwrap_or(60)),
        18 => {
            let k = u64::MAX - arb_below(u, 3) as u64;
            if arb_bool(u, 1, 2) { Period::Height(k) } else { Period::Time(k) }
        }
        _ => {
            let k = u.arbitrary::<u64>().unwrap_or(0);
            if arb_bool(u, 1, 2) { Period::Height(k) } else { Period::Time(k) }
        }
    };
    let mut funds = vec![];
    for _ in 0..N_USERS {
        let f = match arb_below(u, 16) {
            0..=5 => d_range(u, 1000, 999_999_999_999),
            6 => u.arbitrary::<u16>().unwrap_or(0) as u128 % 1000,
            7 => 1u128 << 64,
            8 | 9 => d_range(u, 1u128 << 64, (1u128 << 70) - 1),
            10 => d_range(u, 1u128 << 100, (1u128 << 101) - 1),
            11..=13 => MAX_FUNDS,
            14 => u.arbitrary::<u128>().unwrap_or(0) >> 1,
            _ => arb_u128(u).min(MAX_FUNDS),
        };
        funds.push(N(f));
    }
    let near_denom = arb_bool(u, 2, 5);
    let init_funds = if arb_bool(u, 1, 7) { Some((arb_below(u, N_USERS) as u8, 1 + u.int_in_range(0u16..=4998).unwrap_or(0))) } else { None };
    Cfg { cw20, tpw: N(tpw), min_bond, period, funds, near_denom, init_funds }
}

/// Byte decoder for C10 cases: configuration, then up to 40 op groups (the quick tier's
/// bound) drawn like `op_group()`: single ops, the bond / unbond / early claim / advance to
/// release / claim cycle, and (at most twice per case, they are long) the claim pile.
pub fn decode_case(_prop: &str, u: &mut arbitrary::Unstructured) -> Case {
    let cfg = d_cfg(u);
    let n_groups = arb_below(u, 41);
    let mut ops: Vec<Op> = vec![];
    let mut piles = 0;
    for _ in 0..n_groups {
        if ops.len() >= 64 {
            break;
        }
        let mut sel = arb_below(u, 32);
        if sel == 31 {
            // the rare arms
            sel = 31 + arb_below(u, 3);
            if sel == 33 && piles >= 2 {
                sel = 29;
            }
        }
        match sel {
            0..=8 => {
                let (by, amt) = (d_who(u, Who::WithFunds), d_bond_amt(u));
                ops.push(if arb_bool(u, 1, 28) { Op::BondSplit { by, amt } } else { Op::Bond { by, amt } })
            }
            9..=14 => ops.push(Op::Unbond { by: d_who(u, Who::WithStake), amt: d_unbond_amt(u) }),
            15..=19 => ops.push(Op::Claim { by: d_who(u, Who::WithClaims) }),
            20..=22 => ops.push(Op::Advance { blocks: arb_below(u, 4) as u16, secs: arb_below(u, 40) as u32, nanos: if arb_bool(u, 1, 4) { u.int_in_range(0u32..=999_999_999).unwrap_or(0) } else { 0 } }),
            23..=25 => ops.push(Op::AdvanceToRelease { by: d_who(u, Who::WithClaims), d: d_pm1(u), fine: arb_bool(u, 1, 3) }),
            26..=28 => {
                let by = d_user(u);
                let kind = [Foreign::WrongDenom, Foreign::TwoCoins, Foreign::OtherCw20, Foreign::WrongKind, Foreign::FakeReceive, Foreign::NamedLikeToken][arb_below(u, 6)];
                let amt = if arb_bool(u, 3, 4) { 1 + u.arbitrary::<u16>().unwrap_or(0) as u128 % 999 } else { arb_u128(u) };
                ops.push(Op::Foreign { by, kind, amt: N(amt), victim: d_user(u) });
            }
            29 | 30 => {
                let by = Who::User(d_user(u));
                ops.push(Op::Bond { by, amt: d_bond_amt(u) });
                ops.push(Op::Unbond { by, amt: Amt::FracStake(arb_below(u, 255) as u8) });
                if arb_bool(u, 1, 2) {
                    ops.push(Op::Claim { by });
                }
                ops.push(Op::AdvanceToRelease { by, d: d_pm1(u), fine: arb_bool(u, 1, 3) });
                ops.push(Op::Claim { by });
            }
            31 => ops.push(Op::Donate { by: d_user(u), amt: d_donate_amt(u) }),
            32 => ops.push(Op::Advance { blocks: u.int_in_range(0u16..=299).unwrap_or(0), secs: u.int_in_range(0u32..=199_999).unwrap_or(0), nanos: 0 }),
            _ => {
                piles += 1;
                let by = Who::User(d_user(u));
                let n = if arb_bool(u, 1, 4) { 31 + arb_below(u, 15) } else { 8 + arb_below(u, 18) };
                let d = d_pm1(u);
                ops.push(Op::Bond { by, amt: Amt::Abs(N(5000)) });
                for i in 0..n {
                    ops.push(Op::Unbond { by, amt: Amt::Abs(N(1 + i as u128 % 3)) });
                    ops.push(Op::Advance { blocks: 1 + (i as u16 % 2), secs: 5, nanos: 0 });
                }
                if n > 30 {
                    ops.push(Op::Advance { blocks: 299, secs: 199_999, nanos: 0 });
                    ops.push(Op::Claim { by });
                    ops.push(Op::Claim { by });
                    continue;
                }
                ops.push(Op::AdvanceToRelease { by, d, fine: false });
                ops.push(Op::Claim { by });
                ops.push(Op::Advance { blocks: 3, secs: 15, nanos: 0 });
                ops.push(Op::Claim { by });
            }
        }
    }
    Case { cfg, ops }
}
