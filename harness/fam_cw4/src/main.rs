fn main() {
    vcore::runner::main_for(fam_cw4::Cw4Family)
}
