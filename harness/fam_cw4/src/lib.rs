//! cw4 family: the two group contracts cw4-group and cw4-stake (direct driver).
//!   C09  totals and point-in-time member weights match the true history; raw keys == smart queries
//!   C14  only the admin changes a group; hooks hear every change truthfully
//! One case type, one interpreter; the oracle that is evaluated is chosen by the property id.
use cosmwasm_std::{coin, from_json, Addr, Api, Coin, CosmosMsg, Response, Uint128, WasmMsg};
use cw20::Denom;
use cw4::{
    member_key, AdminResponse, HooksResponse, Member, MemberChangedHookMsg, MemberListResponse,
    MemberResponse, TotalWeightResponse, TOTAL_KEY,
};
use cw_utils::Duration;
use proptest::prelude::*;
use serde::{Deserialize, Serialize};
use std::collections::{BTreeMap, BTreeSet};
use vcore::amounts::{edge_u64, pick};
use vcore::direct::Direct;
use vcore::{CaseCtx, Family, PropSpec, Tier, Violation};

/// valid pool addresses: members, senders, admins
pub const N_ADDR: u8 = 6;
/// indices N_ADDR..N_ADDR_ALL are invalid address strings
pub const N_ADDR_ALL: u8 = 8;
/// valid hook addresses
pub const N_HOOK: u8 = 4;
/// index N_HOOK is an invalid address string, N_HOOK + 1 the upper-case spelling of hook 2's address
pub const N_HOOK_ALL: u8 = 6;

const STAKE_DENOM: &str = "ustake";
const OTHER_DENOM: &str = "uother";
/// bonded amounts are capped so that every stake/tokens_per_weight quotient and every sum of
/// weights fits u64 by a wide margin (the u64 wrap of cw4-stake is C10's subject, finding F2)
// stakes up to the u64 range: the quotient of one stake always fits u64 (larger bonds are refused since the
// F2 fix), but the SUM of member weights can reach 2^64 - such a bond must abort, not wrap the total
const MAX_BOND: u128 = u64::MAX as u128;

#[derive(Clone, Debug, Serialize, Deserialize, PartialEq)]
pub struct StakeCfg {
    pub tpw: u64,
    pub min_bond: u64,
    pub unbond_blocks: u8,
    /// stake token is a cw20: bonding goes through `Receive(Cw20ReceiveMsg{Bond})` sent by the token contract
    #[serde(default)]
    pub cw20: bool,
}

/// who sends an admin-gated call
#[derive(Clone, Debug, Serialize, Deserialize, PartialEq)]
pub enum Who {
    /// whoever is admin at that moment (the last admin if there is none, actor 0 if there never was one)
    Admin,
    /// the most recent former admin that is not the current one (actor 1 if none)
    ExAdmin,
    Actor(u8),
}

#[derive(Clone, Debug, Serialize, Deserialize, PartialEq)]
pub enum Wt {
    Abs(u64),
    /// the address's current weight (1 if it is not a member): a re-weight to the same value
    Same,
}

#[derive(Clone, Debug, Serialize, Deserialize, PartialEq)]
pub enum HookSel {
    Ix(u8),
    /// k-th currently registered hook (hook 0 if none)
    Registered(u16),
}

#[derive(Clone, Debug, Serialize, Deserialize, PartialEq)]
pub enum BondAmt {
    Abs(u64),
    /// k * tokens_per_weight
    Tpw(u8),
    /// min_bond - current stake + d (what is missing to become a member)
    ToMinBond(i8),
}

#[derive(Clone, Debug, Serialize, Deserialize, PartialEq)]
pub enum Funds {
    Stake(BondAmt),
    WrongDenom(u64),
    Nothing,
    TwoCoins(u64),
}

#[derive(Clone, Debug, Serialize, Deserialize, PartialEq)]
pub enum UnbondAmt {
    Abs(u64),
    /// whole stake + d
    All(i8),
    /// (k+1)/256 of the stake
    Frac(u8),
    /// stake - min_bond + 1: just enough to drop out of the member list
    BelowMin,
    /// k * tokens_per_weight
    Tpw(u8),
}

#[derive(Clone, Debug, Serialize, Deserialize, PartialEq)]
pub enum Op {
    // cw4-group only
    UpdateMembers { by: Who, add: Vec<(u8, Wt)>, remove: Vec<u8> },
    // both
    UpdateAdmin { by: Who, to: Option<u8> },
    AddHook { by: Who, hook: u8 },
    RemoveHook { by: Who, hook: HookSel },
    // cw4-stake only
    Bond { by: u8, funds: Funds },
    Unbond { by: u8, amt: UnbondAmt },
    Claim { by: u8 },
}

/// One block: the height advances by `gap` (0 = stay in the block that is open, e.g. the
/// instantiation block), then the ops run as separate transactions of that block.
#[derive(Clone, Debug, Serialize, Deserialize, PartialEq)]
pub struct Block {
    pub gap: u8,
    pub ops: Vec<Op>,
}

#[derive(Clone, Debug, Serialize, Deserialize, PartialEq)]
pub struct Case {
    /// None: cw4-group, Some: cw4-stake with a native stake denom
    pub stake: Option<StakeCfg>,
    pub admin: Option<u8>,
    /// initial members (cw4-group only)
    pub members: Vec<(u8, u64)>,
    pub blocks: Vec<Block>,
}

// ---------------------------------------------------------------- strategies

fn any_addr() -> BoxedStrategy<u8> {
    prop_oneof![45 => 0u8..N_ADDR, 1 => N_ADDR..N_ADDR_ALL].boxed()
}

fn who(prop: &str) -> BoxedStrategy<Who> {
    if prop == "C14" {
        prop_oneof![60 => Just(Who::Admin), 12 => Just(Who::ExAdmin), 28 => (0u8..N_ADDR).prop_map(Who::Actor)].boxed()
    } else {
        prop_oneof![88 => Just(Who::Admin), 2 => Just(Who::ExAdmin), 10 => (0u8..N_ADDR).prop_map(Who::Actor)].boxed()
    }
}

fn wt() -> BoxedStrategy<Wt> {
    prop_oneof![
        3 => Just(Wt::Abs(0)),
        3 => Just(Wt::Abs(1)),
        20 => (0u64..100).prop_map(Wt::Abs),
        5 => Just(Wt::Same),
        2 => edge_u64().prop_map(Wt::Abs),
        1 => Just(Wt::Abs(u64::MAX)),
    ]
    .boxed()
}

fn hook_ix() -> BoxedStrategy<u8> {
    prop_oneof![30 => 0u8..N_HOOK, 2 => N_HOOK..N_HOOK_ALL].boxed()
}

fn hook_sel() -> BoxedStrategy<HookSel> {
    prop_oneof![3 => any::<u16>().prop_map(HookSel::Registered), 1 => hook_ix().prop_map(HookSel::Ix)].boxed()
}

fn admin_target() -> BoxedStrategy<Option<u8>> {
    prop_oneof![1 => Just(None), 14 => any_addr().prop_map(Some)].boxed()
}

fn group_op(prop: &str) -> BoxedStrategy<Op> {
    let add = prop_oneof![
        14 => proptest::collection::btree_map(any_addr(), wt(), 0..=3).prop_map(|m| m.into_iter().collect::<Vec<_>>()),
        1 => proptest::collection::vec((any_addr(), wt()), 0..=4),
    ];
    let remove = proptest::collection::vec(any_addr(), 0..=2);
    let upd = (who(prop), add, remove).prop_map(|(by, add, remove)| Op::UpdateMembers { by, add, remove }).boxed();
    // one call touching more than a page (30) of addresses: bulk add, bulk re-weight + remove
    let bulk = (who(prop), 28u8..46, wt(), 0u8..46, any::<bool>())
        .prop_map(|(by, n, w, k, rm)| {
            let add: Vec<(u8, Wt)> = (0..n).map(|i| (100 + i, w.clone())).collect();
            let remove: Vec<u8> = if rm { (0..k.min(n)).map(|i| 100 + i).collect() } else { vec![] };
            Op::UpdateMembers { by, add, remove }
        })
        .boxed();
    let adm = (who(prop), admin_target()).prop_map(|(by, to)| Op::UpdateAdmin { by, to }).boxed();
    let addh = (who(prop), hook_ix()).prop_map(|(by, hook)| Op::AddHook { by, hook }).boxed();
    let remh = (who(prop), hook_sel()).prop_map(|(by, hook)| Op::RemoveHook { by, hook }).boxed();
    if prop == "C14" {
        prop_oneof![12 => upd, 1 => bulk, 3 => adm, 6 => addh, 4 => remh].boxed()
    } else {
        prop_oneof![30 => upd, 1 => bulk, 1 => adm, 1 => addh, 1 => remh].boxed()
    }
}

fn bond_amt() -> BoxedStrategy<BondAmt> {
    prop_oneof![
        2 => Just(BondAmt::Abs(0)),
        2 => Just(BondAmt::Abs(1)),
        10 => (0u64..1000).prop_map(BondAmt::Abs),
        2 => (0u64..=(1u64 << 40)).prop_map(BondAmt::Abs),
        1 => prop_oneof![Just(1u64 << 62), Just(1u64 << 63), Just(u64::MAX / 3), Just(u64::MAX - 5), Just(u64::MAX)].prop_map(BondAmt::Abs),
        6 => (0u8..6).prop_map(BondAmt::Tpw),
        6 => (-1i8..=2).prop_map(BondAmt::ToMinBond),
    ]
    .boxed()
}

fn stake_op(prop: &str) -> BoxedStrategy<Op> {
    let funds = prop_oneof![
        40 => bond_amt().prop_map(Funds::Stake),
        1 => (1u64..1000).prop_map(Funds::WrongDenom),
        1 => Just(Funds::Nothing),
        1 => (1u64..1000).prop_map(Funds::TwoCoins),
    ];
    let unbond_amt = prop_oneof![
        4 => (0u64..1000).prop_map(UnbondAmt::Abs),
        6 => (-1i8..=1).prop_map(UnbondAmt::All),
        4 => any::<u8>().prop_map(UnbondAmt::Frac),
        5 => Just(UnbondAmt::BelowMin),
        4 => (0u8..4).prop_map(UnbondAmt::Tpw),
    ];
    let users = 4u8; // bonding users: a small pool keeps several changes per address and block common
    let bond = (0u8..users, funds).prop_map(|(by, funds)| Op::Bond { by, funds }).boxed();
    let unbond = (0u8..users, unbond_amt).prop_map(|(by, amt)| Op::Unbond { by, amt }).boxed();
    let claim = prop_oneof![3 => 0u8..users, 2 => 100u8..124].prop_map(|by| Op::Claim { by }).boxed();
    let adm = (who(prop), admin_target()).prop_map(|(by, to)| Op::UpdateAdmin { by, to }).boxed();
    let addh = (who(prop), hook_ix()).prop_map(|(by, hook)| Op::AddHook { by, hook }).boxed();
    let remh = (who(prop), hook_sel()).prop_map(|(by, hook)| Op::RemoveHook { by, hook }).boxed();
    if prop == "C14" {
        prop_oneof![9 => bond, 7 => unbond, 1 => claim, 3 => adm, 6 => addh, 4 => remh].boxed()
    } else {
        prop_oneof![16 => bond, 14 => unbond, 1 => claim, 1 => adm, 1 => addh, 1 => remh].boxed()
    }
}

fn blocks(op: BoxedStrategy<Op>, max_blocks: usize, max_ops: usize) -> BoxedStrategy<Vec<Block>> {
    // 255 stands for a very long pause (1 000 003 blocks)
    let gap = prop_oneof![6 => Just(0u8), 72 => 1u8..=5, 2 => Just(255u8), 1 => Just(254u8)];
    let normal = (gap, proptest::collection::vec(op, 0..=max_ops)).prop_map(|(gap, ops)| Block { gap, ops });
    // now and then the admin registers a whole battery of hooks in one block ("any number of hooks")
    let burst = (11u8..14).prop_map(|n| Block { gap: 1, ops: (0..n).map(|i| Op::AddHook { by: Who::Admin, hook: 100 + i }).collect() });
    let block = prop_oneof![40 => normal, 1 => burst];
    proptest::collection::vec(block, 0..=max_blocks).boxed()
}

fn admin_init() -> BoxedStrategy<Option<u8>> {
    prop_oneof![1 => Just(None), 24 => any_addr().prop_map(Some)].boxed()
}

fn shape(prop: &str, tier: Tier) -> (usize, usize) {
    match (prop, tier) {
        ("C14", Tier::Quick) => (16, 5),
        ("C14", Tier::Thorough) => (30, 6),
        (_, Tier::Quick) => (25, 3),
        (_, Tier::Thorough) => (50, 4),
    }
}

pub fn case_strategy(prop: &str, tier: Tier) -> BoxedStrategy<Case> {
    let (max_blocks, max_ops) = shape(prop, tier);
    let members = prop_oneof![
        20 => proptest::collection::btree_map(0u8..N_ADDR, prop_oneof![1 => Just(0u64), 10 => 0u64..100, 1 => edge_u64()], 0..=N_ADDR as usize)
            .prop_map(|m| m.into_iter().collect::<Vec<_>>()),
        2 => proptest::collection::vec((any_addr(), prop_oneof![4 => 0u64..100, 1 => edge_u64()]), 0..=6),
        // an entry repeated exactly (same address, same weight), possibly with other entries in between
        2 => (proptest::collection::vec((0u8..N_ADDR, 1u64..100), 1..=5), any::<u16>(), any::<u16>()).prop_map(|(mut v, a, b)| {
            let e = v[vcore::amounts::pick(a, v.len())];
            let at = vcore::amounts::pick(b, v.len() + 1);
            v.insert(at, e);
            v
        }),
    ];
    let group = (admin_init(), members, blocks(group_op(prop), max_blocks, max_ops))
        .prop_map(|(admin, members, blocks)| Case { stake: None, admin, members, blocks })
        .boxed();
    let cfg = (
        prop_oneof![10 => Just(1u64), 6 => 2u64..=10, 3 => Just(100u64), 2 => Just(1000u64), 1 => 1u64..5000, 1 => Just(0u64)],
        prop_oneof![3 => Just(0u64), 3 => Just(1u64), 8 => 2u64..40, 3 => 40u64..3000],
        // a zero unbonding period is legal: the claim is mature at once
        prop_oneof![1 => Just(0u8), 5 => 1u8..4],
        proptest::bool::weighted(0.4),
    )
        .prop_map(|(tpw, min_bond, unbond_blocks, cw20)| StakeCfg { tpw, min_bond, unbond_blocks, cw20 });
    let stake = (cfg, admin_init(), blocks(stake_op(prop), max_blocks, max_ops))
        .prop_map(|(cfg, admin, blocks)| Case { stake: Some(cfg), admin, members: vec![], blocks })
        .boxed();
    prop_oneof![3 => group, 2 => stake].boxed()
}

// ---------------------------------------------------------------- world

#[derive(Clone, Debug, PartialEq)]
struct Obs {
    members: BTreeMap<String, u64>,
    total: u64,
    hooks: BTreeSet<String>,
    admin: Option<String>,
}

struct World {
    d: Direct,
    stake: Option<StakeCfg>,
    addrs: Vec<Addr>,
    /// N_ADDR valid strings followed by invalid ones
    addr_strs: Vec<String>,
    /// N_HOOK valid strings followed by an invalid one
    hook_strs: Vec<String>,
}

fn v(prop: &str, sig: &str, msg: String) -> Violation {
    Violation::new(prop, &format!("{prop}/{sig}"), msg)
}

enum X {
    UpdateMembers { add: Vec<Member>, remove: Vec<String> },
    UpdateAdmin { admin: Option<String> },
    AddHook { addr: String },
    RemoveHook { addr: String },
    Bond,
    /// cw20 path: the token contract calls Receive{sender: user, amount, msg: Bond}
    BondCw20 { user: String, amount: u128 },
    /// somebody calls Receive directly, naming `claimed` as the cw20 sender, with a payload that is no Bond but
    /// spells an admin call (kind 0: update_admin to the caller, 1: add_hook, 2: remove_hook)
    ReceiveAs { claimed: String, kind: u8, arg: String },
    Unbond { tokens: u128 },
    Claim,
}

impl World {
    fn new(stake: Option<StakeCfg>) -> World {
        let mut d = Direct::new();
        let mut addrs: Vec<Addr> = (0..N_ADDR).map(|i| d.api.addr_make(&format!("member{i}"))).collect();
        // addresses come in different lengths (accounts, contracts): pool address 3 (one of the four that bond
        // in cw4-stake cases) is the 40-byte continuation of address 0 - in key order its direct successor, with
        // address 0 as a strict prefix
        addrs[3] = vcore::direct::extended_addr(&d.api, &addrs[0]);
        // the chain-level (wasm module) admin of the group contract is a pool address; the role gives no
        // rights inside the contract
        d.chain_admin = Some(addrs[2].clone());
        let mut addr_strs: Vec<String> = addrs.iter().map(|a| a.to_string()).collect();
        addr_strs.push("x".to_string());
        addr_strs.push(addrs[0].to_string().to_uppercase());
        // the first two hook addresses are pool members themselves (a hook contract can also send calls,
        // e.g. try to unsubscribe itself); the others are separate addresses
        // (the last one is the group contract's own address: registered like any other, it is notified like any other)
        let mut hook_strs: Vec<String> = (0..N_HOOK).map(|i| if i < 2 { addrs[i as usize].to_string() } else if i == N_HOOK - 1 { d.contract.to_string() } else { d.api.addr_make(&format!("hook{i}")).to_string() }).collect();
        hook_strs.push("not-a-hook-address".to_string());
        // another spelling of hook 2's address: not a normalised address, so it can never be registered
        let upper = hook_strs[2].to_uppercase();
        hook_strs.push(upper);
        World { d, stake, addrs, addr_strs, hook_strs }
    }

    fn is_group(&self) -> bool {
        self.stake.is_none()
    }
    fn addr_str(&self, ix: u8) -> String {
        // indices from 100 up name extra addresses used by bulk updates (more than one page of members)
        if ix >= 100 {
            return self.d.api.addr_make(&format!("bulk{}", ix - 100)).to_string();
        }
        self.addr_strs[ix as usize % N_ADDR_ALL as usize].clone()
    }
    fn hook_str(&self, ix: u8) -> String {
        // indices from 100 up: further hook contracts (a battery registered in one block)
        if ix >= 100 {
            return self.d.api.addr_make(&format!("xhook{ix}")).to_string();
        }
        self.hook_strs[ix as usize % N_HOOK_ALL as usize].clone()
    }

    fn member(&self, addr: &str, at_height: Option<u64>) -> Result<Option<u64>, String> {
        let addr = addr.to_string();
        let r: MemberResponse = if self.is_group() {
            self.d.query(|deps, env| cw4_group::contract::query(deps, env, cw4_group::msg::QueryMsg::Member { addr, at_height }))?
        } else {
            self.d.query(|deps, env| cw4_stake::contract::query(deps, env, cw4_stake::msg::QueryMsg::Member { addr, at_height }))?
        };
        Ok(r.weight)
    }

    /// `at_height` is only supported by cw4-group
    fn total(&self, at_height: Option<u64>) -> Result<u64, String> {
        let r: TotalWeightResponse = if self.is_group() {
            self.d.query(|deps, env| cw4_group::contract::query(deps, env, cw4_group::msg::QueryMsg::TotalWeight { at_height }))?
        } else {
            self.d.query(|deps, env| cw4_stake::contract::query(deps, env, cw4_stake::msg::QueryMsg::TotalWeight {}))?
        };
        Ok(r.weight)
    }

    /// ListMembers paged to exhaustion (page size 4, 1, 2 or 3 by the block height)
    fn list(&self) -> Result<Vec<(String, u64)>, String> {
        let mut out: Vec<(String, u64)> = vec![];
        let mut cursor: Option<String> = None;
        let size = [4u32, 1, 2, 3][(self.d.height % 4) as usize];
        loop {
            let (start_after, limit) = (cursor.clone(), Some(size));
            let page: MemberListResponse = if self.is_group() {
                self.d.query(|deps, env| cw4_group::contract::query(deps, env, cw4_group::msg::QueryMsg::ListMembers { start_after, limit }))?
            } else {
                self.d.query(|deps, env| cw4_stake::contract::query(deps, env, cw4_stake::msg::QueryMsg::ListMembers { start_after, limit }))?
            };
            if page.members.is_empty() {
                return Ok(out);
            }
            cursor = page.members.last().map(|m| m.addr.clone());
            out.extend(page.members.into_iter().map(|m| (m.addr, m.weight)));
            if out.len() > 1000 {
                return Err("ListMembers does not terminate".into());
            }
        }
    }

    fn admin(&self) -> Result<Option<String>, String> {
        let r: AdminResponse = if self.is_group() {
            self.d.query(|deps, env| cw4_group::contract::query(deps, env, cw4_group::msg::QueryMsg::Admin {}))?
        } else {
            self.d.query(|deps, env| cw4_stake::contract::query(deps, env, cw4_stake::msg::QueryMsg::Admin {}))?
        };
        Ok(r.admin)
    }

    fn hooks(&self) -> Result<Vec<String>, String> {
        let r: HooksResponse = if self.is_group() {
            self.d.query(|deps, env| cw4_group::contract::query(deps, env, cw4_group::msg::QueryMsg::Hooks {}))?
        } else {
            self.d.query(|deps, env| cw4_stake::contract::query(deps, env, cw4_stake::msg::QueryMsg::Hooks {}))?
        };
        Ok(r.hooks)
    }

    fn staked(&self, addr: &str) -> Result<u128, String> {
        let address = addr.to_string();
        let r: cw4_stake::msg::StakedResponse =
            self.d.query(|deps, env| cw4_stake::contract::query(deps, env, cw4_stake::msg::QueryMsg::Staked { address }))?;
        Ok(r.stake.u128())
    }

    fn observe(&self, prop: &str) -> Result<Obs, Violation> {
        let qerr = |e: String| v(prop, "query-failed", format!("a query failed or panicked: {e}"));
        let mut members = BTreeMap::new();
        for (a, wgt) in self.list().map_err(qerr)? {
            if members.insert(a.clone(), wgt).is_some() {
                return Err(v(prop, "member-listed-twice", format!("ListMembers lists {a} twice")));
            }
        }
        Ok(Obs {
            members,
            total: self.total(None).map_err(qerr)?,
            hooks: self.hooks().map_err(qerr)?.into_iter().collect(),
            admin: self.admin().map_err(qerr)?,
        })
    }

    /// One call as the chain runs it. A notification the contract asks to hear back about when it fails
    /// (`reply_on` Error / Always - the pinned tree sends none) is, on every other block, one the listening
    /// contract refuses: the chain then hands the failure to the contract's `reply` entry point and the call
    /// goes on; a failing `reply` fails the call as a whole.
    fn exec(&mut self, sender: &Addr, funds: &[Coin], x: X) -> Result<Response, String> {
        let snapshot = self.d.store.clone();
        let resp = self.exec_inner(sender, funds, x)?;
        let stake = !self.is_group();
        if self.d.height % 2 == 0 {
            for sm in &resp.messages {
                if matches!(sm.reply_on, cosmwasm_std::ReplyOn::Error | cosmwasm_std::ReplyOn::Always) {
                    #[allow(deprecated)]
                    let reply = cosmwasm_std::Reply { id: sm.id, payload: sm.payload.clone(), gas_used: 0, result: cosmwasm_std::SubMsgResult::Err("the listening contract refused the notification".into()) };
                    if let Err(e) = call_reply(&mut self.d, stake, reply) {
                        self.d.store = snapshot;
                        return Err(e);
                    }
                }
            }
        }
        Ok(resp)
    }

    fn exec_inner(&mut self, sender: &Addr, funds: &[Coin], x: X) -> Result<Response, String> {
        let info = Direct::info(sender, funds);
        if self.is_group() {
            use cw4_group::msg::ExecuteMsg as E;
            let msg = match x {
                X::UpdateMembers { add, remove } => E::UpdateMembers { add, remove },
                X::UpdateAdmin { admin } => E::UpdateAdmin { admin },
                X::AddHook { addr } => E::AddHook { addr },
                X::RemoveHook { addr } => E::RemoveHook { addr },
                X::Bond | X::BondCw20 { .. } | X::ReceiveAs { .. } | X::Unbond { .. } | X::Claim => return Err("not a cw4-group call".into()),
            };
            self.d.tx(|deps, env| cw4_group::contract::execute(deps, env, info, msg))
        } else {
            use cw4_stake::msg::ExecuteMsg as E;
            let msg = match x {
                X::UpdateAdmin { admin } => E::UpdateAdmin { admin },
                X::AddHook { addr } => E::AddHook { addr },
                X::RemoveHook { addr } => E::RemoveHook { addr },
                X::Bond => E::Bond {},
                X::BondCw20 { user, amount } => {
                    let token = self.d.api.addr_make("stake-token");
                    let msg = E::Receive(cw20::Cw20ReceiveMsg { sender: user, amount: Uint128::new(amount), msg: cosmwasm_std::to_json_binary(&cw4_stake::msg::ReceiveMsg::Bond {}).unwrap() });
                    let info = Direct::info(&token, &[]);
                    return self.d.tx(|deps, env| cw4_stake::contract::execute(deps, env, info, msg));
                }
                X::ReceiveAs { claimed, kind, arg } => {
                    let payload = match kind % 3 {
                        0 => serde_json::json!({"update_admin": {"admin": arg}}),
                        1 => serde_json::json!({"add_hook": {"addr": arg}}),
                        _ => serde_json::json!({"remove_hook": {"addr": arg}}),
                    };
                    E::Receive(cw20::Cw20ReceiveMsg { sender: claimed, amount: Uint128::new(1), msg: cosmwasm_std::Binary::from(serde_json::to_vec(&payload).unwrap()) })
                }
                X::Unbond { tokens } => E::Unbond { tokens: Uint128::new(tokens) },
                X::Claim => E::Claim {},
                X::UpdateMembers { .. } => return Err("not a cw4-stake call".into()),
            };
            self.d.tx(|deps, env| cw4_stake::contract::execute(deps, env, info, msg))
        }
    }
}

/// the contract's `reply` entry point, if it has one (the pinned tree has none: the stand-in answers then)
fn call_reply(d: &mut Direct, stake: bool, msg: cosmwasm_std::Reply) -> Result<Response, String> {
    #[allow(dead_code)]
    fn reply(_deps: cosmwasm_std::DepsMut, _env: cosmwasm_std::Env, _msg: cosmwasm_std::Reply) -> Result<Response, String> {
        Err("the contract has no reply entry point".into())
    }
    if stake {
        #[allow(unused_imports)]
        use cw4_stake::contract::*;
        d.tx(|deps, env| reply(deps, env, msg))
    } else {
        #[allow(unused_imports)]
        use cw4_group::contract::*;
        d.tx(|deps, env| reply(deps, env, msg))
    }
}

#[derive(Deserialize)]
#[serde(rename_all = "snake_case")]
enum HookWrap {
    MemberChangedHook(MemberChangedHookMsg),
}

// ---------------------------------------------------------------- C09 oracle

/// membership at the start of block h: the state at the end of the last block below h
/// (None: the group did not exist yet)
fn state_before(hist: &[(u64, BTreeMap<String, u64>)], h: u64) -> Option<&BTreeMap<String, u64>> {
    hist.iter().rev().find(|(bh, _)| *bh < h).map(|(_, m)| m)
}

fn check_c09_current(w: &World, o: &Obs, model: Option<&BTreeMap<String, u64>>, at: &str) -> Result<(), Violation> {
    let prop = "C09";
    let qerr = |e: String| v(prop, "query-failed", format!("{at}: a query failed or panicked: {e}"));
    // reported total == sum of the listed members' weights
    let sum: u128 = o.members.values().map(|x| *x as u128).sum();
    if sum != o.total as u128 {
        return Err(v(prop, "total-ne-sum", format!("{at}: TotalWeight reports {} but the listed members' weights sum to {} ({:?})", o.total, sum, o.members)));
    }
    // cw4-group: the listed members are what the successful calls asked for
    if let Some(m) = model {
        if *m != o.members {
            return Err(v(prop, "members-ne-model", format!("{at}: ListMembers reports {:?}, the history of successful calls gives {:?}", o.members, m)));
        }
    }
    // point query and raw keys agree with the listing
    for a in w.addr_strs.iter().take(N_ADDR as usize) {
        let listed = o.members.get(a).copied();
        let point = w.member(a, None).map_err(qerr)?;
        if point != listed {
            return Err(v(prop, "member-ne-list", format!("{at}: Member{{{a}}} reports {:?}, ListMembers {:?}", point, listed)));
        }
        let raw = w.d.raw(&member_key(a));
        let raw_val: Option<u64> = match &raw {
            None => None,
            Some(bytes) => Some(from_json::<u64>(bytes).map_err(|e| v(prop, "raw-member", format!("{at}: raw value under member_key({a}) is not a JSON number: {e}")))?),
        };
        if raw_val != point {
            return Err(v(prop, "raw-member", format!("{at}: raw read of member_key({a}) gives {:?}, Member query {:?}", raw_val, point)));
        }
    }
    let raw_total: Option<u64> = match w.d.raw(TOTAL_KEY.as_bytes()) {
        None => None,
        Some(bytes) => Some(from_json::<u64>(&bytes).map_err(|e| v(prop, "raw-total", format!("{at}: raw value under TOTAL_KEY is not a JSON number: {e}")))?),
    };
    if raw_total != Some(o.total) {
        return Err(v(prop, "raw-total", format!("{at}: raw read of TOTAL_KEY gives {:?}, TotalWeight query {}", raw_total, o.total)));
    }
    Ok(())
}

fn check_c09_heights(
    w: &World,
    hist: &[(u64, BTreeMap<String, u64>)],
    heights: std::ops::RangeInclusive<u64>,
    at: &str,
    ctx: &mut CaseCtx,
) -> Result<(), Violation> {
    let prop = "C09";
    let qerr = |e: String| v(prop, "query-failed", format!("{at}: a query failed or panicked: {e}"));
    let mut n = 0u64;
    // "for every h from before instantiation into the future": besides the window around the history, the far
    // ends of the range whenever the window reaches past the present (i.e. the open block is complete)
    let far: Vec<u64> = if *heights.end() > w.d.height { vec![0, 1, u64::MAX - 1, u64::MAX] } else { vec![] };
    // a window that spans a very long pause is sampled: both ends, the neighbourhood of every block of the
    // history, and points deep inside each long gap
    let (lo, hi) = (*heights.start(), *heights.end());
    let window: Vec<u64> = if hi.saturating_sub(lo) <= 400 {
        heights.collect()
    } else {
        let mut s: BTreeSet<u64> = (lo..=lo + 8).chain(hi.saturating_sub(6)..=hi).collect();
        let mut prev: Option<u64> = None;
        for (bh, _) in hist {
            for d in 0..=3u64 {
                s.insert(bh.saturating_sub(1) + d);
            }
            if let Some(p) = prev {
                if bh - p > 8 {
                    s.extend([p + (bh - p) / 2, p + 1_000_000, bh.saturating_sub(1_000_000), bh.saturating_sub(2)]);
                }
            }
            prev = Some(*bh);
        }
        s.into_iter().filter(|h| *h >= lo && *h <= hi).collect()
    };
    for h in window.into_iter().chain(far.into_iter()) {
        let st = state_before(hist, h);
        for a in w.addr_strs.iter().take(N_ADDR as usize) {
            let got = w.member(a, Some(h)).map_err(qerr)?;
            let want = st.and_then(|m| m.get(a).copied());
            n += 1;
            if got != want {
                return Err(v(
                    prop,
                    "member-at-height",
                    format!("{at} (now at height {}): Member{{{a}, at_height: {h}}} reports {:?}; the weight at the start of block {h} was {:?}", w.d.height, got, want),
                ));
            }
        }
        if w.is_group() {
            // before the group existed the contract answers 0 ("nothing"); the response type has no None
            let got = w.total(Some(h)).map_err(qerr)?;
            let want: u128 = st.map(|m| m.values().map(|x| *x as u128).sum()).unwrap_or(0);
            n += 1;
            if got as u128 != want {
                return Err(v(
                    prop,
                    "total-at-height",
                    format!("{at} (now at height {}): TotalWeight{{at_height: {h}}} reports {got}; the total at the start of block {h} was {want}", w.d.height),
                ));
            }
        }
    }
    ctx.add("height_queries", n);
    Ok(())
}

// ---------------------------------------------------------------- C14 oracle

#[allow(clippy::too_many_arguments)]
fn check_c14_step(
    w: &World,
    sender: &str,
    touched: &BTreeSet<String>,
    added: &BTreeSet<String>,
    ok: bool,
    resp: Option<&Response>,
    pre: &Obs,
    post: &Obs,
    hooks_pre: &BTreeSet<String>,
    at: &str,
    ctx: &mut CaseCtx,
) -> Result<bool, Violation> {
    let prop = "C14";
    // ---- who may change membership (cw4-group), hook list, admin
    let sender_is_admin = pre.admin.as_deref() == Some(sender);
    let mut what = vec![];
    if w.is_group() && pre.members != post.members {
        what.push(format!("members {:?} -> {:?}", pre.members, post.members));
    }
    if pre.hooks != post.hooks {
        what.push(format!("hooks {:?} -> {:?}", pre.hooks, post.hooks));
    }
    if pre.admin != post.admin {
        what.push(format!("admin {:?} -> {:?}", pre.admin, post.admin));
    }
    if !what.is_empty() && !(ok && sender_is_admin) {
        if pre.admin.is_none() {
            return Err(v(prop, "changed-while-frozen", format!("{at}: the group has no admin, yet {}", what.join("; "))));
        }
        return Err(v(prop, "changed-by-non-admin", format!("{at}: sender is not the admin {:?}, yet {}", pre.admin, what.join("; "))));
    }
    if pre.admin.is_none() {
        ctx.flag("attempt_while_frozen");
    }
    // a registered hook is a contract address in its one normalised spelling (another spelling of a
    // registered address would be the same contract heard twice)
    for h in &post.hooks {
        if w.d.api.addr_validate(h).is_err() {
            return Err(v(prop, "hook-not-a-normalised-address", format!("{at}: the hook list contains {h}, which is not a normalised address (hooks {:?})", post.hooks)));
        }
    }

    // ---- notifications
    let changed: Vec<&String> = pre
        .members
        .keys()
        .chain(post.members.keys())
        .filter(|k| pre.members.get(*k) != post.members.get(*k))
        .collect::<BTreeSet<_>>()
        .into_iter()
        .collect();
    let Some(resp) = resp else { return Ok(false) };
    let mut per_hook: BTreeMap<String, u32> = BTreeMap::new();
    for sm in &resp.messages {
        let CosmosMsg::Wasm(WasmMsg::Execute { contract_addr, msg, .. }) = &sm.msg else { continue };
        let Ok(HookWrap::MemberChangedHook(hook_msg)) = from_json::<HookWrap>(msg) else { continue };
        ctx.count("notifications_checked");
        if !hooks_pre.contains(contract_addr) {
            return Err(v(prop, "notified-unregistered", format!("{at}: a MemberChangedHook notification went to {contract_addr}, which is not a registered hook ({:?})", hooks_pre)));
        }
        *per_hook.entry(contract_addr.clone()).or_insert(0) += 1;
        // compose the entries per key, in order
        let mut chain: BTreeMap<String, Option<u64>> = BTreeMap::new();
        for d in &hook_msg.diffs {
            if !touched.contains(&d.key) {
                return Err(v(prop, "diff-untouched-address", format!("{at}: notification to {contract_addr} has an entry for {} which this call did not touch; diffs {:?}", d.key, hook_msg.diffs)));
            }
            match chain.get_mut(&d.key) {
                None => {
                    let was = pre.members.get(&d.key).copied();
                    if d.old != was {
                        return Err(v(prop, "diff-untruthful", format!("{at}: notification to {contract_addr} says {} had weight {:?} before the call, it had {:?}; diffs {:?}", d.key, d.old, was, hook_msg.diffs)));
                    }
                    chain.insert(d.key.clone(), d.new);
                }
                Some(last) => {
                    if d.old != *last {
                        return Err(v(prop, "diff-untruthful", format!("{at}: notification to {contract_addr}: entries for {} do not chain ({:?} then old {:?}); diffs {:?}", d.key, last, d.old, hook_msg.diffs)));
                    }
                    *last = d.new;
                }
            }
        }
        for (k, last) in &chain {
            let is = post.members.get(k).copied();
            if *last != is {
                return Err(v(prop, "diff-untruthful", format!("{at}: notification to {contract_addr} says {k} has weight {:?} after the call, it has {:?}; diffs {:?}", last, is, hook_msg.diffs)));
            }
        }
        for k in added {
            if !chain.contains_key(k) {
                return Err(v(prop, "diff-missing-touched", format!("{at}: {k} is in the add list of this call but the notification to {contract_addr} has no entry for it; diffs {:?}", hook_msg.diffs)));
            }
        }
        for k in &changed {
            if !chain.contains_key(*k) {
                return Err(v(prop, "diff-missing-change", format!("{at}: {k} changed {:?} -> {:?} but the notification to {contract_addr} has no entry for it; diffs {:?}", pre.members.get(*k), post.members.get(*k), hook_msg.diffs)));
            }
        }
    }
    if !changed.is_empty() {
        for h in hooks_pre {
            let n = per_hook.get(h).copied().unwrap_or(0);
            if n != 1 {
                return Err(v(prop, "hook-notification-count", format!("{at}: member weights changed ({:?}) and hook {h} is registered, but it was sent {n} notifications (expected exactly one)", changed)));
            }
        }
        if !hooks_pre.is_empty() {
            ctx.count("changes_notified");
        }
    } else if !per_hook.is_empty() {
        ctx.count("notified_without_change");
    }
    Ok(!changed.is_empty())
}

// ---------------------------------------------------------------- interpreter

fn resolve_who(who: &Who, pre: &Obs, w: &World, former: &[String]) -> usize {
    let pos = |s: &String| w.addr_strs.iter().take(N_ADDR as usize).position(|a| a == s);
    match who {
        Who::Actor(i) => *i as usize % N_ADDR as usize,
        Who::Admin => pre.admin.as_ref().and_then(pos).or_else(|| former.last().and_then(pos)).unwrap_or(0),
        Who::ExAdmin => former.iter().rev().find(|a| Some(*a) != pre.admin.as_ref()).and_then(pos).unwrap_or(1),
    }
}

fn clamp_i(base: u128, d: i8) -> u128 {
    if d >= 0 {
        base.saturating_add(d as u128)
    } else {
        base.saturating_sub((-(d as i16)) as u128)
    }
}

pub fn run_case(prop: &str, case: &Case, ctx: &mut CaseCtx) -> Result<(), Violation> {
    let mut w = World::new(case.stake.clone());
    let is_group = w.is_group();
    ctx.flag(if is_group { "flavour_group" } else { "flavour_stake" });

    // ---------------- instantiate
    let admin_str = case.admin.map(|i| w.addr_str(i));
    let info = Direct::info(&w.addrs[0], &[]);
    let r = match &case.stake {
        None => {
            let msg = cw4_group::msg::InstantiateMsg {
                admin: admin_str.clone(),
                members: case.members.iter().map(|(i, wgt)| Member { addr: w.addr_str(*i), weight: *wgt }).collect(),
            };
            w.d.tx(|deps, env| cw4_group::contract::instantiate(deps, env, info, msg))
        }
        Some(cfg) => {
            let msg = cw4_stake::msg::InstantiateMsg {
                denom: if cfg.cw20 { Denom::Cw20(w.d.api.addr_make("stake-token")) } else { Denom::Native(STAKE_DENOM.to_string()) },
                tokens_per_weight: Uint128::new(cfg.tpw as u128),
                min_bond: Uint128::new(cfg.min_bond as u128),
                unbonding_period: Duration::Height(cfg.unbond_blocks as u64),
                admin: admin_str.clone(),
            };
            w.d.tx(|deps, env| cw4_stake::contract::instantiate(deps, env, info, msg))
        }
    };
    if r.is_err() {
        ctx.count("init_rejected");
        return Ok(());
    }
    ctx.count("init_accepted");
    let h_inst = w.d.height;
    let h_lo = h_inst.saturating_sub(2);

    // reference model of cw4-group membership (the documented semantics of the calls);
    // for cw4-stake the "true history" is the sequence of observed current memberships
    let mut model: BTreeMap<String, u64> = BTreeMap::new();
    if is_group {
        for (i, wgt) in &case.members {
            model.insert(w.addr_str(*i), *wgt);
        }
    }
    let mut model_hooks: BTreeSet<String> = BTreeSet::new();
    let mut former_admins: Vec<String> = vec![];
    let mut pre = w.observe(prop)?;
    let mut hist: Vec<(u64, BTreeMap<String, u64>)> = vec![];

    if prop == "C09" {
        check_c09_current(&w, &pre, if is_group { Some(&model) } else { None }, "after instantiate")?;
        if !is_group {
            model = pre.members.clone();
        }
        hist.push((h_inst, model.clone()));
        check_c09_heights(&w, &hist, h_lo..=h_inst, "after instantiate", ctx)?;
    }
    if prop == "C14" && pre.hooks != model_hooks {
        return Err(v(prop, "hooks-ne-model", format!("after instantiate: Hooks reports {:?}, none was registered", pre.hooks)));
    }

    // non-triviality bookkeeping
    let mut changes_in_block: BTreeMap<String, u32> = BTreeMap::new();
    let mut removed_once: BTreeSet<String> = BTreeSet::new();
    let mut hook_stage = 0u8; // C14: 0 -> change with >=2 hooks -> 1 -> hook removal -> 2 -> change with >=1 hook -> 3

    let mut step_no = 0usize;
    for (bno, blk) in case.blocks.iter().enumerate() {
        if blk.gap > 0 {
            if prop == "C09" {
                // the open block ends: every height from before instantiation to the near future
                check_c09_heights(&w, &hist, h_lo..=w.d.height + 2, &format!("end of block {} (before block #{bno})", w.d.height), ctx)?;
                ctx.count("blocks_closed");
            }
            let gap: u64 = match blk.gap { 255 => 1_000_003, 254 => 3_000_001, g => g as u64 };
            w.d.advance(gap, 5 * gap);
            changes_in_block.clear();
        }
        for op in &blk.ops {
            step_no += 1;
            // ---------- resolve the op against the current state
            let mut touched: BTreeSet<String> = BTreeSet::new();
            // addresses an UpdateMembers call writes in any case (its add list): they are reported even when
            // the weight written is the one the member already had
            let mut added: BTreeSet<String> = BTreeSet::new();
            let mut funds: Vec<Coin> = vec![];
            let mut overlap: Vec<String> = vec![];
            let (kind, sender_ix, x): (&'static str, usize, X) = match op {
                Op::UpdateMembers { by, add, remove } => {
                    if !is_group {
                        ctx.count("op_skipped_wrong_flavour");
                        continue;
                    }
                    let add: Vec<Member> = add
                        .iter()
                        .map(|(i, wt)| {
                            let addr = w.addr_str(*i);
                            let weight = match wt {
                                Wt::Abs(x) => *x,
                                Wt::Same => pre.members.get(&addr).copied().unwrap_or(1),
                            };
                            Member { addr, weight }
                        })
                        .collect();
                    let remove: Vec<String> = remove.iter().map(|i| w.addr_str(*i)).collect();
                    for m in &add {
                        touched.insert(m.addr.clone());
                        added.insert(m.addr.clone());
                        if remove.contains(&m.addr) {
                            overlap.push(m.addr.clone());
                        }
                    }
                    for r in &remove {
                        touched.insert(r.clone());
                    }
                    ("UpdateMembers", resolve_who(by, &pre, &w, &former_admins), X::UpdateMembers { add, remove })
                }
                Op::UpdateAdmin { by, to } => ("UpdateAdmin", resolve_who(by, &pre, &w, &former_admins), X::UpdateAdmin { admin: to.map(|i| w.addr_str(i)) }),
                Op::AddHook { by, hook } => ("AddHook", resolve_who(by, &pre, &w, &former_admins), X::AddHook { addr: w.hook_str(*hook) }),
                Op::RemoveHook { by, hook } => {
                    let addr = match hook {
                        HookSel::Ix(i) => w.hook_str(*i),
                        HookSel::Registered(k) => {
                            let reg: Vec<&String> = model_hooks.iter().collect();
                            if reg.is_empty() {
                                w.hook_str(0)
                            } else {
                                reg[pick(*k, reg.len())].clone()
                            }
                        }
                    };
                    ("RemoveHook", resolve_who(by, &pre, &w, &former_admins), X::RemoveHook { addr })
                }
                Op::Bond { by, funds: f } => {
                    let Some(cfg) = &case.stake else {
                        ctx.count("op_skipped_wrong_flavour");
                        continue;
                    };
                    let s = *by as usize % N_ADDR as usize;
                    touched.insert(w.addr_strs[s].clone());
                    let mut cw20_bond: Option<u128> = None;
                    match f {
                        Funds::Stake(a) => {
                            let amount = match a {
                                BondAmt::Abs(x) => *x as u128,
                                BondAmt::Tpw(k) => *k as u128 * cfg.tpw as u128,
                                BondAmt::ToMinBond(d) => {
                                    let st = w.staked(&w.addr_strs[s]).map_err(|e| v(prop, "query-failed", e))?;
                                    clamp_i((cfg.min_bond as u128).saturating_sub(st), *d)
                                }
                            };
                            if cfg.cw20 {
                                cw20_bond = Some(amount.min(MAX_BOND));
                            } else {
                                funds.push(coin(amount.min(MAX_BOND), STAKE_DENOM));
                            }
                        }
                        Funds::WrongDenom(x) => funds.push(coin(*x as u128, OTHER_DENOM)),
                        Funds::Nothing => {}
                        Funds::TwoCoins(x) => {
                            funds.push(coin(*x as u128, OTHER_DENOM));
                            funds.push(coin(*x as u128, STAKE_DENOM));
                        }
                    }
                    match cw20_bond {
                        Some(amount) => ("Bond", s, X::BondCw20 { user: w.addr_strs[s].clone(), amount }),
                        None => ("Bond", s, X::Bond),
                    }
                }
                Op::Unbond { by, amt } => {
                    let Some(cfg) = &case.stake else {
                        ctx.count("op_skipped_wrong_flavour");
                        continue;
                    };
                    let s = *by as usize % N_ADDR as usize;
                    touched.insert(w.addr_strs[s].clone());
                    let st = w.staked(&w.addr_strs[s]).map_err(|e| v(prop, "query-failed", e))?;
                    let tokens = match amt {
                        UnbondAmt::Abs(x) => *x as u128,
                        UnbondAmt::All(d) => clamp_i(st, *d),
                        UnbondAmt::Frac(k) => st * (*k as u128 + 1) / 256,
                        UnbondAmt::BelowMin => (st + 1).saturating_sub((cfg.min_bond as u128).max(1)),
                        UnbondAmt::Tpw(k) => *k as u128 * cfg.tpw as u128,
                    };
                    ("Unbond", s, X::Unbond { tokens })
                }
                Op::Claim { by } => {
                    if is_group {
                        ctx.count("op_skipped_wrong_flavour");
                        continue;
                    }
                    // (`by` from 100: not a Claim but a direct Receive that names the current admin as the cw20 sender
                    // and carries an admin call as its payload - the caller speaks for nobody but itself)
                    if *by >= 100 {
                        let ix = (*by as usize - 100) % N_ADDR as usize;
                        let claimed = pre.admin.clone().unwrap_or_else(|| w.addr_strs[0].clone());
                        let arg = if *by % 3 == 0 { w.addr_strs[ix].clone() } else { w.hook_str((*by / 3) % N_HOOK) };
                        ("ReceiveAs", ix, X::ReceiveAs { claimed, kind: *by % 3, arg })
                    } else {
                        ("Claim", *by as usize % N_ADDR as usize, X::Claim)
                    }
                }
            };
            let sender = w.addrs[sender_ix].clone();
            let sender_is_admin = pre.admin.as_deref() == Some(sender.as_str());
            let descr = match &x {
                X::UpdateMembers { add, remove } => format!("add={:?} remove={:?}", add.iter().map(|m| (m.addr.as_str(), m.weight)).collect::<Vec<_>>(), remove),
                X::UpdateAdmin { admin } => format!("to={:?}", admin),
                X::AddHook { addr } | X::RemoveHook { addr } => format!("hook={addr}"),
                X::Bond => format!("funds={:?}", funds),
                X::BondCw20 { amount, .. } => format!("cw20 amount={amount}"),
                X::Unbond { tokens } => format!("tokens={tokens}"),
                X::Claim => String::new(),
                X::ReceiveAs { claimed, kind, arg } => format!("claimed sender={claimed} kind={kind} arg={arg}"),
            };
            let hook_arg = match &x {
                X::AddHook { addr } | X::RemoveHook { addr } => Some(addr.clone()),
                _ => None,
            };
            let hooks_pre = model_hooks.clone();

            // ---------- run it
            let res = w.exec(&sender, &funds, x);
            let ok = res.is_ok();
            let post = w.observe(prop)?;
            ctx.count(&format!("op_{kind}_{}", if ok { "ok" } else { "fail" }));
            ctx.count(&format!("op_{kind}_{}_{}", if sender_is_admin { "admin" } else { "other" }, if ok { "ok" } else { "fail" }));
            let at = format!(
                "step {step_no} (height {}) {kind} by member{sender_ix}{} {descr} -> {}",
                w.d.height,
                if sender_is_admin { " [admin]" } else { "" },
                match &res {
                    Ok(_) => "ok".to_string(),
                    Err(e) => format!("err({e})"),
                }
            );
            if !ok && post != pre {
                return Err(v(prop, "failed-call-changed-state", format!("{at}: harness rollback broken?")));
            }

            // ---------- models
            if ok {
                match op {
                    Op::UpdateMembers { .. } => {
                        if let Op::UpdateMembers { add, remove, .. } = op {
                            for (i, wt) in add {
                                let addr = w.addr_str(*i);
                                let weight = match wt {
                                    Wt::Abs(x) => *x,
                                    Wt::Same => pre.members.get(&addr).copied().unwrap_or(1),
                                };
                                model.insert(addr, weight);
                            }
                            // "remove is applied after add, so if an address is in both, it is removed"
                            for i in remove {
                                model.remove(&w.addr_str(*i));
                            }
                        }
                    }
                    Op::AddHook { .. } => {
                        model_hooks.insert(hook_arg.clone().unwrap_or_default());
                    }
                    Op::RemoveHook { .. } => {
                        model_hooks.remove(&hook_arg.clone().unwrap_or_default());
                    }
                    _ => {}
                }
            }
            if !is_group {
                model = post.members.clone();
            }
            if pre.admin != post.admin {
                if let Some(a) = &pre.admin {
                    former_admins.push(a.clone());
                }
                ctx.flag(if post.admin.is_some() { "admin_handover" } else { "admin_cleared" });
            }
            let weights_changed = pre.members != post.members;

            match prop {
                "C09" => {
                    check_c09_current(&w, &post, if is_group { Some(&model) } else { None }, &at)?;
                    match hist.last_mut() {
                        Some((bh, m)) if *bh == w.d.height => *m = model.clone(),
                        _ => hist.push((w.d.height, model.clone())),
                    }
                    // a change made in block h must not show at height h
                    let now = w.d.height;
                    check_c09_heights(&w, &hist, now..=now, &at, ctx)?;
                    // bookkeeping for the non-triviality rule
                    for a in w.addr_strs.iter().take(N_ADDR as usize) {
                        let (p, q) = (pre.members.get(a), post.members.get(a));
                        let mut n = 0;
                        if p != q {
                            n = 1;
                        }
                        if ok && overlap.contains(a) && p.is_some() {
                            n = 2; // re-weighted and removed by one call: two writes in this block
                        }
                        if n > 0 {
                            let c = changes_in_block.entry(a.clone()).or_insert(0);
                            *c += n;
                            if *c >= 2 {
                                ctx.flag("multi_change_in_block");
                            }
                        }
                        if p.is_some() && q.is_none() {
                            removed_once.insert(a.clone());
                            ctx.flag("removal");
                        }
                        if p.is_none() && q.is_some() && removed_once.contains(a) {
                            ctx.flag("readd_after_removal");
                        }
                    }
                    if ok && matches!(op, Op::UpdateMembers { .. }) && !weights_changed {
                        ctx.flag("noop_update");
                    }
                }
                "C14" => {
                    let changed = check_c14_step(&w, sender.as_str(), &touched, &added, ok, res.as_ref().ok(), &pre, &post, &hooks_pre, &at, ctx)?;
                    if post.hooks != model_hooks {
                        return Err(v(prop, "hooks-ne-model", format!("{at}: Hooks reports {:?}; the successful AddHook/RemoveHook calls give {:?}", post.hooks, model_hooks)));
                    }
                    if ok && !sender_is_admin && matches!(op, Op::UpdateMembers { .. } | Op::UpdateAdmin { .. } | Op::AddHook { .. } | Op::RemoveHook { .. }) {
                        // not asserted (a call that changes nothing is not forbidden by the statement), only measured
                        ctx.count("gated_call_ok_for_non_admin");
                    }
                    if ok && matches!(op, Op::UpdateAdmin { .. }) {
                        if let Op::UpdateAdmin { to, .. } = op {
                            if post.admin != to.map(|i| w.addr_str(i)) {
                                ctx.count("update_admin_result_differs_from_request");
                            }
                        }
                    }
                    if changed {
                        if !hooks_pre.is_empty() {
                            ctx.flag("change_with_hooks");
                            if !overlap.is_empty() {
                                ctx.flag("overlap_change_with_hooks");
                            }
                        }
                        if hook_stage == 0 && hooks_pre.len() >= 2 {
                            hook_stage = 1;
                        } else if hook_stage == 2 && !hooks_pre.is_empty() {
                            hook_stage = 3;
                            ctx.flag("hook_removed_between_changes");
                        }
                    }
                    if ok && !overlap.is_empty() && !hooks_pre.is_empty() {
                        ctx.flag("overlap_update_with_hooks");
                    }
                    if ok && matches!(op, Op::RemoveHook { .. }) && hook_stage == 1 {
                        hook_stage = 2;
                    }
                    if !sender_is_admin && !former_admins.is_empty() && former_admins.iter().any(|a| a == sender.as_str()) {
                        ctx.flag("former_admin_attempt");
                    }
                }
                _ => {}
            }
            pre = post;
        }
    }

    if prop == "C09" {
        check_c09_heights(&w, &hist, h_lo..=w.d.height + 2, &format!("end of block {} (end of case)", w.d.height), ctx)?;
        ctx.count("blocks_closed");
    }

    let nontrivial = match prop {
        "C09" => ctx.has("multi_change_in_block") && ctx.has("readd_after_removal"),
        "C14" => ctx.has("overlap_update_with_hooks") || ctx.has("hook_removed_between_changes"),
        _ => false,
    };
    if nontrivial {
        ctx.flag(if is_group { "nontrivial_group" } else { "nontrivial_stake" });
    }
    ctx.nontrivial = nontrivial;
    Ok(())
}

// ---------------------------------------------------------------- family

pub struct Cw4Family;

const ASSUME: &[&str] = &[
    "transactions are atomic: a failed or panicking call leaves no state (direct driver restores the store)",
    "MockApi bech32 address validation stands for the chain's; info.sender is always a valid address",
    "cosmwasm-std, cw-storage-plus (SnapshotMap/SnapshotItem), cw-controllers (Admin, Hooks, Claims), cw-utils, cw2 are trusted as execution substrate but are on the executed path",
    "natively compiled contract code behaves as its wasm build (overflow checks on)",
    "cw4-stake runs with a native stake denom and the bonded funds are passed directly in MessageInfo.funds (token backing is C10's subject); bonded amounts are capped at 2^40 so every stake/tokens_per_weight quotient fits u64 (the u64 wrap is C10's subject)",
    "the case owns block boundaries: 'the value at the start of block h' is the membership after the last transaction of the last block below h; future heights are queried only after the last transaction of the open block",
];

impl Family for Cw4Family {
    type Case = Case;
    fn name(&self) -> &'static str {
        "cw4"
    }
    fn props(&self) -> Vec<PropSpec> {
        vec![
            PropSpec {
                id: "C09", quick_cases: 5000, thorough_cases: 3500, floor: 633,
                rule: "case = cw4-group (0-6 initial members from a 6-address pool, duplicates/invalid occasionally) or cw4-stake (random tokens_per_weight/min_bond, native denom) + up to 25 (thorough 50) blocks of 0-3 (4) transactions, heights advancing by 1..5 (0 = same block, incl. the instantiation block): UpdateMembers with overlapping add/remove lists, same-value re-weights, removals and re-adds resp. Bond/Unbond with state-relative amounts around min_bond and the whole stake. After every transaction: TotalWeight == sum of paged ListMembers == (cw4-group) reference model; Member == listing; raw TOTAL_KEY / member_key(addr) == smart queries; Member/TotalWeight at the current height == value at the start of this block. At the end of every block: Member{addr,at_height:h} for all 6 pool addresses and (cw4-group) TotalWeight{at_height:h} for every h from instantiation-2 to now+2 against the per-block history. Non-trivial: >=1 address whose weight changed >=2 times within one block (queried at that height and the next) and >=1 removal later followed by a re-add; distinct = distinct canonical JSON of the case.",
                assumptions: ASSUME,
            },
            PropSpec {
                id: "C14", quick_cases: 80000, thorough_cases: 50_000, floor: 5066,
                rule: "same case type, up to 16 (thorough 30) blocks of 0-5 (6) transactions weighted towards UpdateAdmin (to another address / to none), AddHook/RemoveHook (4 hook addresses + an invalid one) and UpdateMembers resp. Bond/Unbond, sent by the current admin, former admins and strangers. Around every call ListMembers/Hooks/Admin are compared: membership (cw4-group), hook list and admin differ only after a successful call of the pre-call admin (never once the admin is none); every MemberChangedHook message of every successful call is decoded and its entries are composed per key (first old == pre weight, entries chain, last new == post weight, keys only addresses named by the call, every changed address present); when weights changed, each registered hook got exactly one notification and nobody else got one. Non-trivial: a successful UpdateMembers with an address in both lists while >=1 hook is registered, or a weight change notified to >=2 hooks, then a successful RemoveHook, then another notified weight change.",
                assumptions: ASSUME,
            },
        ]
    }
    fn strategy(&self, prop: &str, tier: Tier) -> BoxedStrategy<Case> {
        case_strategy(prop, tier)
    }
    fn run(&self, prop: &str, case: &Case, ctx: &mut CaseCtx) -> Result<(), Violation> {
        run_case(prop, case, ctx)
    }
    fn decode(&self, prop: &str, u: &mut arbitrary::Unstructured) -> Option<Case> {
        Some(decode_case(prop, u))
    }
}

// ---------------------------------------------------------------- byte decoder (fuzz front-end)
// Mirrors `case_strategy` arm by arm (same arms, same weights, same value ranges); one byte per choice.

use vcore::amounts::{arb_below, arb_bool, arb_u64};

/// arm index drawn with the weights of the corresponding `prop_oneof!` (one byte while the weights sum
/// to <= 256); an exhausted input selects the first arm
fn d_arm(u: &mut arbitrary::Unstructured, w: &[u32]) -> usize {
    let total: u32 = w.iter().sum();
    let mut r = arb_below(u, total as usize) as u32;
    for (i, x) in w.iter().enumerate() {
        if r < *x {
            return i;
        }
        r -= *x;
    }
    0
}
/// 16-bit state-relative selector from one byte (`pick` only looks at the top bits)
fn d_sel(u: &mut arbitrary::Unstructured) -> u16 {
    u.arbitrary::<u8>().unwrap_or(0) as u16 * 257
}
/// `any_addr`
fn d_addr(u: &mut arbitrary::Unstructured) -> u8 {
    match arb_below(u, 46) {
        r @ 0..=43 => (r % N_ADDR as usize) as u8,
        44 => N_ADDR,
        _ => N_ADDR + 1,
    }
}
/// `who(prop)`
fn d_who(u: &mut arbitrary::Unstructured, prop: &str) -> Who {
    let w: [u32; 3] = if prop == "C14" { [60, 12, 28] } else { [88, 2, 10] };
    match d_arm(u, &w) {
        0 => Who::Admin,
        1 => Who::ExAdmin,
        _ => Who::Actor(arb_below(u, N_ADDR as usize) as u8),
    }
}
/// `wt`
fn d_wt(u: &mut arbitrary::Unstructured) -> Wt {
    match d_arm(u, &[3, 3, 20, 5, 2, 1]) {
        0 => Wt::Abs(0),
        1 => Wt::Abs(1),
        2 => Wt::Abs(arb_below(u, 100) as u64),
        3 => Wt::Same,
        4 => Wt::Abs(arb_u64(u)),
        _ => Wt::Abs(u64::MAX),
    }
}
/// `hook_ix`
fn d_hook(u: &mut arbitrary::Unstructured) -> u8 {
    match arb_below(u, 32) {
        30 => N_HOOK,
        31 => N_HOOK + 1,
        r => (r % N_HOOK as usize) as u8,
    }
}
/// `hook_sel`
fn d_hook_sel(u: &mut arbitrary::Unstructured) -> HookSel {
    if d_arm(u, &[3, 1]) == 0 {
        HookSel::Registered(d_sel(u))
    } else {
        HookSel::Ix(d_hook(u))
    }
}
/// `admin_target` (none: 1, some: `some`) / `admin_init` (none: 1, some: 24)
fn d_opt_addr(u: &mut arbitrary::Unstructured, some: u32) -> Option<u8> {
    if d_arm(u, &[1, some]) == 0 {
        None
    } else {
        Some(d_addr(u))
    }
}
/// `group_op`
fn d_group_op(u: &mut arbitrary::Unstructured, prop: &str) -> Op {
    let w: [u32; 5] = if prop == "C14" { [12, 1, 3, 6, 4] } else { [30, 1, 1, 1, 1] };
    match d_arm(u, &w) {
        0 => {
            let by = d_who(u, prop);
            let add: Vec<(u8, Wt)> = if d_arm(u, &[14, 1]) == 0 {
                // distinct addresses in ascending order (btree_map), at most 3
                let n = arb_below(u, 4);
                (0..n).map(|_| (d_addr(u), d_wt(u))).collect::<BTreeMap<u8, Wt>>().into_iter().collect()
            } else {
                let n = arb_below(u, 5);
                (0..n).map(|_| (d_addr(u), d_wt(u))).collect()
            };
            let n = arb_below(u, 3);
            Op::UpdateMembers { by, add, remove: (0..n).map(|_| d_addr(u)).collect() }
        }
        1 => {
            // one call touching more than a page of addresses
            let by = d_who(u, prop);
            let n = 28 + arb_below(u, 18) as u8;
            let w = d_wt(u);
            let k = arb_below(u, 46) as u8;
            let rm = arb_bool(u, 1, 2);
            let add: Vec<(u8, Wt)> = (0..n).map(|i| (100 + i, w.clone())).collect();
            let remove: Vec<u8> = if rm { (0..k.min(n)).map(|i| 100 + i).collect() } else { vec![] };
            Op::UpdateMembers { by, add, remove }
        }
        2 => Op::UpdateAdmin { by: d_who(u, prop), to: d_opt_addr(u, 14) },
        3 => Op::AddHook { by: d_who(u, prop), hook: d_hook(u) },
        _ => Op::RemoveHook { by: d_who(u, prop), hook: d_hook_sel(u) },
    }
}
/// `bond_amt`
fn d_bond_amt(u: &mut arbitrary::Unstructured) -> BondAmt {
    match d_arm(u, &[2, 2, 10, 2, 1, 6, 6]) {
        0 => BondAmt::Abs(0),
        1 => BondAmt::Abs(1),
        2 => BondAmt::Abs(u.arbitrary::<u16>().unwrap_or(0) as u64 % 1000),
        3 => BondAmt::Abs(u.arbitrary::<u64>().unwrap_or(0) % ((1u64 << 40) + 1)),
        4 => BondAmt::Abs([1u64 << 62, 1u64 << 63, u64::MAX / 3, u64::MAX - 5, u64::MAX][arb_below(u, 5)]),
        5 => BondAmt::Tpw(arb_below(u, 6) as u8),
        _ => BondAmt::ToMinBond(arb_below(u, 4) as i8 - 1),
    }
}
/// `stake_op`
fn d_stake_op(u: &mut arbitrary::Unstructured, prop: &str) -> Op {
    let users = 4usize;
    let w: [u32; 6] = if prop == "C14" { [9, 7, 1, 3, 6, 4] } else { [16, 14, 1, 1, 1, 1] };
    match d_arm(u, &w) {
        0 => {
            let by = arb_below(u, users) as u8;
            let funds = match d_arm(u, &[40, 1, 1, 1]) {
                0 => Funds::Stake(d_bond_amt(u)),
                1 => Funds::WrongDenom(1 + u.arbitrary::<u16>().unwrap_or(0) as u64 % 999),
                2 => Funds::Nothing,
                _ => Funds::TwoCoins(1 + u.arbitrary::<u16>().unwrap_or(0) as u64 % 999),
            };
            Op::Bond { by, funds }
        }
        1 => {
            let by = arb_below(u, users) as u8;
            let amt = match d_arm(u, &[4, 6, 4, 5, 4]) {
                0 => UnbondAmt::Abs(u.arbitrary::<u16>().unwrap_or(0) as u64 % 1000),
                1 => UnbondAmt::All(arb_below(u, 3) as i8 - 1),
                2 => UnbondAmt::Frac(u.arbitrary().unwrap_or(0)),
                3 => UnbondAmt::BelowMin,
                _ => UnbondAmt::Tpw(arb_below(u, 4) as u8),
            };
            Op::Unbond { by, amt }
        }
        2 => Op::Claim { by: if arb_bool(u, 2, 5) { 100 + arb_below(u, 24) as u8 } else { arb_below(u, users) as u8 } },
        3 => Op::UpdateAdmin { by: d_who(u, prop), to: d_opt_addr(u, 14) },
        4 => Op::AddHook { by: d_who(u, prop), hook: d_hook(u) },
        _ => Op::RemoveHook { by: d_who(u, prop), hook: d_hook_sel(u) },
    }
}
/// `blocks` with the quick-tier shape
fn d_blocks(u: &mut arbitrary::Unstructured, prop: &str, group: bool) -> Vec<Block> {
    let (max_blocks, max_ops) = shape(prop, Tier::Quick);
    let n_blocks = arb_below(u, max_blocks + 1);
    let mut blocks = vec![];
    for _ in 0..n_blocks {
        let gap = match d_arm(u, &[3, 36, 1]) {
            0 => 0,
            1 => 1 + arb_below(u, 5) as u8,
            _ => if arb_bool(u, 1, 3) { 254 } else { 255 },
        };
        if arb_bool(u, 1, 41) {
            let n = 11 + arb_below(u, 3) as u8;
            blocks.push(Block { gap: 1, ops: (0..n).map(|i| Op::AddHook { by: Who::Admin, hook: 100 + i }).collect() });
            continue;
        }
        let n = arb_below(u, max_ops + 1);
        let ops = (0..n).map(|_| if group { d_group_op(u, prop) } else { d_stake_op(u, prop) }).collect();
        blocks.push(Block { gap, ops });
    }
    blocks
}

/// Byte decoder for the cw4 family: same shape as `case_strategy(prop, Tier::Quick)`.
pub fn decode_case(prop: &str, u: &mut arbitrary::Unstructured) -> Case {
    if d_arm(u, &[3, 2]) == 0 {
        // cw4-group
        let admin = d_opt_addr(u, 24);
        let members: Vec<(u8, u64)> = match d_arm(u, &[20, 2, 2]) {
            0 => {
                // distinct pool addresses in ascending order
                let n = arb_below(u, N_ADDR as usize + 1);
                (0..n)
                    .map(|_| {
                        let a = arb_below(u, N_ADDR as usize) as u8;
                        let w = match d_arm(u, &[1, 10, 1]) {
                            0 => 0,
                            1 => arb_below(u, 100) as u64,
                            _ => arb_u64(u),
                        };
                        (a, w)
                    })
                    .collect::<BTreeMap<u8, u64>>()
                    .into_iter()
                    .collect()
            }
            1 => {
                let n = arb_below(u, 7);
                (0..n).map(|_| (d_addr(u), if d_arm(u, &[4, 1]) == 0 { arb_below(u, 100) as u64 } else { arb_u64(u) })).collect()
            }
            _ => {
                // an entry repeated exactly (same address, same weight)
                let n = 1 + arb_below(u, 5);
                let mut v: Vec<(u8, u64)> = (0..n).map(|_| (arb_below(u, N_ADDR as usize) as u8, 1 + arb_below(u, 99) as u64)).collect();
                let e = v[pick(d_sel(u), v.len())];
                let at = pick(d_sel(u), v.len() + 1);
                v.insert(at, e);
                v
            }
        };
        let blocks = d_blocks(u, prop, true);
        Case { stake: None, admin, members, blocks }
    } else {
        // cw4-stake
        let tpw = match d_arm(u, &[10, 6, 3, 2, 1, 1]) {
            0 => 1,
            1 => 2 + arb_below(u, 9) as u64,
            2 => 100,
            3 => 1000,
            4 => 1 + u.arbitrary::<u16>().unwrap_or(0) as u64 % 4999,
            _ => 0,
        };
        let min_bond = match d_arm(u, &[3, 3, 8, 3]) {
            0 => 0,
            1 => 1,
            2 => 2 + arb_below(u, 38) as u64,
            _ => 40 + u.arbitrary::<u16>().unwrap_or(0) as u64 % 2960,
        };
        let unbond_blocks = if arb_bool(u, 1, 6) { 0 } else { 1 + arb_below(u, 3) as u8 };
        let cw20 = arb_bool(u, 2, 5);
        let admin = d_opt_addr(u, 24);
        let blocks = d_blocks(u, prop, false);
        Case { stake: Some(StakeCfg { tpw, min_bond, unbond_blocks, cw20 }), admin, members: vec![], blocks }
    }
}
