//! cw20-base family: C01 (supply == sum of balances), C02 (balances move only by the
//! holder or within a valid allowance), C13 (minter / cap), C19 (three allowance views).
//! One case type + one interpreter; the oracle that is evaluated is chosen by the
//! property id, so every check reports only its own property.
use cosmwasm_std::{from_json, Addr, Binary, CosmosMsg, Response, Uint128, Uint256, WasmMsg};
use cw20::{
    AllAccountsResponse, AllAllowancesResponse, AllSpenderAllowancesResponse, AllowanceResponse,
    BalanceResponse, Cw20Coin, Cw20ExecuteMsg, MinterResponse, TokenInfoResponse,
};
use cw20_base::msg::{InstantiateMsg, MigrateMsg, QueryMsg};
use cw_storage_plus::{Item, Map};
use cw_utils::Expiration;
use proptest::prelude::*;
use serde::{Deserialize, Serialize};
use std::collections::{BTreeMap, BTreeSet};
use vcore::amounts::{arb_below, arb_bool, arb_u128, edge_u128, mostly_small_u128};
use vcore::direct::Direct;
use vcore::exp::{arb_exp, arb_opt_exp, exp_spec, is_expired_ns as is_expired, opt_exp_spec, ExpSpec};
use vcore::{CaseCtx, Family, PropSpec, Tier, Violation};

pub const N_ACTORS: u8 = 5;
/// observed accounts: the actors (the only senders) plus the token contract's own address, which is a
/// perfectly valid recipient, minter, spender and initial account
pub const N_HOLDERS: u8 = N_ACTORS + 1;
/// recipient indices: 0..N_HOLDERS are the observed accounts, N_HOLDERS.. are invalid address strings
pub const N_RCPT: u8 = N_HOLDERS + 2;

#[derive(Clone, Debug, Serialize, Deserialize, PartialEq)]
pub enum Rel {
    BalanceOf(u8),
    /// balance of the account this op would debit
    Debited,
    /// the allowance this op would draw on / change
    ThisAllowance,
    CapRoom,
    Supply,
}

#[derive(Clone, Debug, Serialize, Deserialize, PartialEq)]
pub enum Amt {
    Abs(u128),
    Rel(Rel, i8),
    /// k/256 of the debited account's balance
    FracDebited(u8),
    /// k/256 of the allowance this op refers to
    FracAllowance(u8),
}

/// who sends a minter-only call
#[derive(Clone, Debug, Serialize, Deserialize, PartialEq)]
pub enum Who {
    Actor(u8),
    /// whoever is registered as minter at that moment (actor 0 if none)
    Minter,
}

/// (owner, spender) of an allowance op
#[derive(Clone, Debug, Serialize, Deserialize, PartialEq)]
pub enum Pair {
    Explicit(u8, u8),
    /// the k-th (monotone map of the selector) pair that currently has a non-zero allowance;
    /// falls back to (0,1) when none exists
    Granted(u16),
}

#[derive(Clone, Debug, Serialize, Deserialize, PartialEq)]
pub enum Cap {
    SupplyPlus(u128),
    SupplyMinus(u128),
    Abs(u128),
}

#[derive(Clone, Debug, Serialize, Deserialize, PartialEq)]
pub enum Op {
    Transfer { from: u8, to: u8, amt: Amt },
    Send { from: u8, to: u8, amt: Amt, payload: Vec<u8> },
    Burn { from: u8, amt: Amt },
    Mint { by: Who, to: u8, amt: Amt },
    Increase { owner: u8, spender: u8, amt: Amt, exp: Option<ExpSpec> },
    Decrease { pair: Pair, amt: Amt, exp: Option<ExpSpec> },
    TransferFrom { pair: Pair, to: u8, amt: Amt },
    SendFrom { pair: Pair, to: u8, amt: Amt, payload: Vec<u8> },
    BurnFrom { pair: Pair, amt: Amt },
    UpdateMinter { by: Who, new: Option<u8> },
    Advance { blocks: u8, secs: u16, #[serde(default)] nanos: u32 },
    /// calls that have nothing to do with balances, allowances or the minter role and must leave all of
    /// them alone: what % 5 = 0 UpdateMarketing (texts), 1 UpdateMarketing (hand the marketing role to
    /// actor `arg`), 2 UploadLogo (url), 3 UploadLogo (embedded svg), 4 a code upgrade: the stored cw2
    /// version is set to an older >= 0.14 release (same layout) and `migrate` runs
    Side { by: u8, what: u8, arg: u8 },
}

#[derive(Clone, Debug, Serialize, Deserialize, PartialEq)]
pub struct Init {
    pub accounts: Vec<(u8, u128)>,
    /// (minter, cap)
    pub mint: Option<(u8, Option<Cap>)>,
    /// actor that holds the marketing role (None: no marketing info at instantiation)
    #[serde(default)]
    pub marketing: Option<u8>,
    /// further initial accounts outside the actor pool (they never act): tokens with more holders than any
    /// page or batch size
    #[serde(default)]
    pub crowd: u8,
}

#[derive(Clone, Debug, Serialize, Deserialize, PartialEq)]
pub struct LegacyAllowance {
    pub owner: u8,
    pub spender: u8,
    pub amount: u128,
    pub exp: ExpSpec,
}

#[derive(Clone, Debug, Serialize, Deserialize, PartialEq)]
pub struct Case {
    pub init: Init,
    /// Some: start from a fabricated pre-0.14 storage image with these allowances,
    /// run `migrate`, then continue with `ops`
    pub legacy: Option<Vec<LegacyAllowance>>,
    /// which pre-0.14 version string the legacy image carries (index into LEGACY_VERSIONS)
    #[serde(default)]
    pub legacy_version: u8,
    /// legacy image only: actors 0 and 1 each also have this many further spenders (addresses outside the
    /// actor pool that never act), so that the allowance table is larger than any page or batch size
    #[serde(default)]
    pub legacy_bulk: u8,
    pub ops: Vec<Op>,
}

/// cw2 version strings of pre-0.14 releases (the storage layout of token_info / balance / allowance is the same)
pub const LEGACY_VERSIONS: [&str; 11] = ["0.13.4", "0.13.0", "0.12.1", "0.10.3", "0.9.1", "0.6.2", "0.2.0", "0.13.9", "0.12.0-alpha1", "0.11.0-rc1", "0.10.0-soon"];

// ---------------------------------------------------------------- strategies

fn actor() -> impl Strategy<Value = u8> {
    0u8..N_ACTORS
}
fn rcpt() -> impl Strategy<Value = u8> {
    prop_oneof![30 => 0u8..N_ACTORS, 2 => Just(N_ACTORS), 1 => N_HOLDERS..N_RCPT]
}

fn amt() -> BoxedStrategy<Amt> {
    prop_oneof![
        8 => mostly_small_u128().prop_map(Amt::Abs),
        3 => edge_u128().prop_map(Amt::Abs),
        4 => (-1i8..=1).prop_map(|d| Amt::Rel(Rel::Debited, d)),
        5 => (-1i8..=1).prop_map(|d| Amt::Rel(Rel::ThisAllowance, d)),
        5 => any::<u8>().prop_map(Amt::FracDebited),
        5 => any::<u8>().prop_map(Amt::FracAllowance),
        1 => (actor(), -1i8..=1).prop_map(|(a, d)| Amt::Rel(Rel::BalanceOf(a), d)),
        2 => (-1i8..=1).prop_map(|d| Amt::Rel(Rel::CapRoom, d)),
        1 => (-1i8..=1).prop_map(|d| Amt::Rel(Rel::Supply, d)),
    ]
    .boxed()
}

fn who() -> impl Strategy<Value = Who> {
    // (index N_ACTORS: the token contract's own address as the sender)
    prop_oneof![9 => Just(Who::Minter), 6 => actor().prop_map(Who::Actor), 1 => Just(Who::Actor(N_ACTORS))]
}

fn pair() -> impl Strategy<Value = Pair> {
    // (owner index N_ACTORS: the token contract's own account, which holds tokens whenever somebody sent it some)
    prop_oneof![9 => any::<u16>().prop_map(Pair::Granted), 3 => (actor(), actor()).prop_map(|(o, s)| Pair::Explicit(o, s)), 1 => actor().prop_map(|s| Pair::Explicit(N_ACTORS, s))]
}

fn payload() -> impl Strategy<Value = Vec<u8>> {
    proptest::collection::vec(any::<u8>(), 0..6)
}

#[derive(Clone, Copy)]
struct Weights {
    transfer: u32,
    send: u32,
    burn: u32,
    mint: u32,
    incr: u32,
    decr: u32,
    tfrom: u32,
    sfrom: u32,
    bfrom: u32,
    upd_minter: u32,
    advance: u32,
    race: u32,
    side: u32,
}

fn weights(prop: &str) -> Weights {
    match prop {
        "C13" => Weights { transfer: 3, send: 1, burn: 6, mint: 12, incr: 2, decr: 1, tfrom: 1, sfrom: 1, bfrom: 2, upd_minter: 8, advance: 1, race: 0, side: 1 },
        "C02" => Weights { transfer: 4, send: 3, burn: 2, mint: 2, incr: 8, decr: 4, tfrom: 7, sfrom: 4, bfrom: 4, upd_minter: 1, advance: 5, race: 3, side: 1 },
        "C19" => Weights { transfer: 2, send: 1, burn: 1, mint: 2, incr: 8, decr: 6, tfrom: 6, sfrom: 3, bfrom: 4, upd_minter: 0, advance: 3, race: 1, side: 1 },
        _ => Weights { transfer: 6, send: 3, burn: 4, mint: 5, incr: 6, decr: 2, tfrom: 5, sfrom: 3, bfrom: 4, upd_minter: 1, advance: 2, race: 1, side: 1 },
    }
}

/// one "op group": usually a single op; the race arm emits
/// Increase; (Decrease || TransferFrom) in both orders.
fn op_group(w: Weights) -> BoxedStrategy<Vec<Op>> {
    let one = |s: BoxedStrategy<Op>| s.prop_map(|o| vec![o]).boxed();
    let mut arms: Vec<(u32, BoxedStrategy<Vec<Op>>)> = vec![
        (w.transfer, one((actor(), rcpt(), amt()).prop_map(|(from, to, amt)| Op::Transfer { from, to, amt }).boxed())),
        (w.send, one((actor(), rcpt(), amt(), payload()).prop_map(|(from, to, amt, payload)| Op::Send { from, to, amt, payload }).boxed())),
        (w.burn, one((actor(), amt()).prop_map(|(from, amt)| Op::Burn { from, amt }).boxed())),
        (w.mint, one((who(), rcpt(), amt()).prop_map(|(by, to, amt)| Op::Mint { by, to, amt }).boxed())),
        (w.incr, one((actor(), rcpt(), amt(), opt_exp_spec()).prop_map(|(owner, spender, amt, exp)| Op::Increase { owner, spender, amt, exp }).boxed())),
        (w.decr, one((pair(), amt(), opt_exp_spec()).prop_map(|(pair, amt, exp)| Op::Decrease { pair, amt, exp }).boxed())),
        (w.tfrom, one((pair(), rcpt(), amt()).prop_map(|(pair, to, amt)| Op::TransferFrom { pair, to, amt }).boxed())),
        (w.sfrom, one((pair(), rcpt(), amt(), payload()).prop_map(|(pair, to, amt, payload)| Op::SendFrom { pair, to, amt, payload }).boxed())),
        (w.bfrom, one((pair(), amt()).prop_map(|(pair, amt)| Op::BurnFrom { pair, amt }).boxed())),
        (w.upd_minter, one((who(), proptest::option::weighted(0.75, rcpt())).prop_map(|(by, new)| Op::UpdateMinter { by, new }).boxed())),
        (w.advance, one((0u8..4, 0u16..40, prop_oneof![2 => Just(0u32), 1 => 1u32..1_000_000_000]).prop_map(|(blocks, secs, nanos)| Op::Advance { blocks, secs, nanos }).boxed())),
        (w.side, one((actor(), 0u8..5, actor()).prop_map(|(by, what, arg)| Op::Side { by, what, arg }).boxed())),
        (w.race, (actor(), actor(), actor(), 1u128..200, 0u128..250, 0u128..250, exp_spec(), any::<bool>(), 0u8..3)
            .prop_map(|(owner, spender, to, grant, dec, draw, exp, dec_first, adv)| {
                let g = Op::Increase { owner, spender, amt: Amt::Abs(grant), exp: Some(exp) };
                let d = Op::Decrease { pair: Pair::Explicit(owner, spender), amt: Amt::Abs(dec), exp: None };
                let t = Op::TransferFrom { pair: Pair::Explicit(owner, spender), to, amt: Amt::Abs(draw) };
                let a = Op::Advance { blocks: adv, secs: adv as u16 * 5, nanos: 0 };
                if dec_first { vec![g, a, d, t] } else { vec![g, a, t, d] }
            })
            .boxed()),
    ];
    arms.retain(|(w, _)| *w > 0);
    proptest::strategy::Union::new_weighted(arms).boxed()
}

fn init_strategy(prop: &str) -> BoxedStrategy<Init> {
    let accounts = prop_oneof![
        // distinct valid accounts (the common, accepted shape)
        20 => proptest::collection::btree_map(actor(), prop_oneof![8 => 0u128..100_000, 2 => mostly_small_u128(), 1 => edge_u128()], 0..=N_ACTORS as usize)
            .prop_map(|m| m.into_iter().collect::<Vec<_>>()),
        // arbitrary list: duplicates / invalid addresses / overflowing sums must be rejected
        3 => proptest::collection::vec((rcpt(), prop_oneof![3 => 0u128..1000, 1 => edge_u128()]), 0..7),
    ];
    let cap = prop_oneof![
        3 => Just(None),
        3 => (0u128..3).prop_map(|d| Some(Cap::SupplyPlus(d))),
        6 => (0u128..5000).prop_map(|d| Some(Cap::SupplyPlus(d))),
        1 => edge_u128().prop_map(|d| Some(Cap::SupplyPlus(d))),
        1 => (1u128..3).prop_map(|d| Some(Cap::SupplyMinus(d))),
        1 => edge_u128().prop_map(|k| Some(Cap::Abs(k))),
    ];
    let p_mint = if prop == "C13" { 0.92 } else { 0.7 };
    let crowd = if prop == "C01" || prop == "C13" { prop_oneof![9 => Just(0u8), 1 => 31u8..48].boxed() } else { Just(0u8).boxed() };
    (accounts, proptest::option::weighted(p_mint, (rcpt(), cap)), proptest::option::weighted(0.6, actor()), crowd)
        .prop_map(|(accounts, mint, marketing, crowd)| Init { accounts, mint, marketing, crowd })
        .boxed()
}

fn legacy_strategy() -> BoxedStrategy<Vec<LegacyAllowance>> {
    proptest::collection::vec(
        (actor(), actor(), prop_oneof![1 => Just(0u128), 8 => 1u128..10_000, 1 => edge_u128()], exp_spec())
            .prop_filter_map("self allowance", |(owner, spender, amount, exp)| {
                if owner == spender {
                    None
                } else {
                    Some(LegacyAllowance { owner, spender, amount, exp })
                }
            }),
        0..12,
    )
    .boxed()
}

pub fn case_strategy(prop: &str, tier: Tier) -> BoxedStrategy<Case> {
    let max_groups = match tier {
        Tier::Quick => 40usize,
        Tier::Thorough => 120usize,
    };
    let w = weights(prop);
    let ops = proptest::collection::vec(op_group(w), 0..max_groups).prop_map(|g| g.into_iter().flatten().collect::<Vec<_>>());
    let legacy = if prop == "C19" {
        proptest::option::weighted(0.4, legacy_strategy()).boxed()
    } else {
        // an upgrade from a pre-0.14 release is a point in the token's life like any other: it is no owner's
        // call, no spender's draw and no Mint, so balances, supply, allowances, minter and cap come through unchanged
        proptest::option::weighted(0.12, legacy_strategy()).boxed()
    };
    let bulk = if prop == "C19" { prop_oneof![4 => Just(0u8), 1 => 16u8..24].boxed() } else { Just(0u8).boxed() };
    (init_strategy(prop), legacy, 0u8..LEGACY_VERSIONS.len() as u8, bulk, ops).prop_map(|(init, legacy, legacy_version, legacy_bulk, ops)| Case { init, legacy, legacy_version, legacy_bulk, ops }).boxed()
}

// ---------------------------------------------------------------- frozen legacy (0.13) layout

#[derive(Serialize, Deserialize)]
struct LegacyMinterData {
    minter: Addr,
    cap: Option<Uint128>,
}
#[derive(Serialize, Deserialize)]
struct LegacyTokenInfo {
    name: String,
    symbol: String,
    decimals: u8,
    total_supply: Uint128,
    mint: Option<LegacyMinterData>,
}
#[derive(Serialize, Deserialize)]
struct LegacyContractVersion {
    contract: String,
    version: String,
}
#[derive(Serialize, Deserialize)]
struct LegacyAllowanceValue {
    allowance: Uint128,
    expires: Expiration,
}
const L_TOKEN_INFO: Item<LegacyTokenInfo> = Item::new("token_info");
const L_BALANCES: Map<&Addr, Uint128> = Map::new("balance");
const L_ALLOWANCES: Map<(&Addr, &Addr), LegacyAllowanceValue> = Map::new("allowance");
const L_VERSION: Item<LegacyContractVersion> = Item::new("contract_info");

// ---------------------------------------------------------------- interpreter

#[derive(Clone, Debug, PartialEq)]
struct Obs {
    balances: Vec<u128>,
    supply: u128,
    minter: Option<(String, Option<u128>)>,
    /// allowances[o][s]
    allow: Vec<Vec<(u128, Expiration)>>,
}

struct World {
    d: Direct,
    actors: Vec<Addr>,
    rcpts: Vec<String>,
    /// spenders outside the actor pool that only exist in a bulk legacy image (C19)
    ghosts: Vec<Addr>,
}

fn v(prop: &str, sig: &str, msg: String) -> Violation {
    Violation::new(prop, &format!("{prop}/{sig}"), msg)
}

impl World {
    fn new() -> World {
        let mut d = Direct::new();
        let mut actors: Vec<Addr> = (0..N_ACTORS).map(|i| d.api.addr_make(&format!("actor{i}"))).collect();
        // chain-level (wasm module) admin of the token contract: an ordinary actor, no rights inside the contract
        d.chain_admin = Some(actors[1].clone());
        // every actor may just as well be a contract (a proxy, a multisig) that answers smart queries obligingly:
        // whatever it says when asked, nobody but the registered minter mints
        for a in &actors {
            d.peers.insert(a.to_string(), vec![(String::new(), br#"{"can_execute":true}"#.to_vec())]);
        }
        actors.push(d.contract.clone());
        let mut rcpts: Vec<String> = actors.iter().map(|a| a.to_string()).collect();
        rcpts.push("x".to_string());
        rcpts.push(actors[0].to_string().to_uppercase());
        World { d, actors, rcpts, ghosts: vec![] }
    }

    fn q<T: serde::de::DeserializeOwned>(&self, msg: QueryMsg) -> Result<T, String> {
        self.d.query(|deps, env| cw20_base::contract::query(deps, env, msg))
    }

    fn balance(&self, addr: &str) -> Result<u128, String> {
        Ok(self.q::<BalanceResponse>(QueryMsg::Balance { address: addr.to_string() })?.balance.u128())
    }
    fn supply(&self) -> Result<u128, String> {
        Ok(self.q::<TokenInfoResponse>(QueryMsg::TokenInfo {})?.total_supply.u128())
    }
    fn minter(&self) -> Result<Option<(String, Option<u128>)>, String> {
        Ok(self.q::<Option<MinterResponse>>(QueryMsg::Minter {})?.map(|m| (m.minter, m.cap.map(|c| c.u128()))))
    }
    fn allowance(&self, o: &str, s: &str) -> Result<(u128, Expiration), String> {
        let r = self.q::<AllowanceResponse>(QueryMsg::Allowance { owner: o.to_string(), spender: s.to_string() })?;
        Ok((r.allowance.u128(), r.expires))
    }
    /// walk AllAccounts to the first empty page with the given page size (cursor = last returned key)
    fn all_accounts(&self, limit: u32) -> Result<Vec<String>, String> {
        let mut out: Vec<String> = vec![];
        let mut cursor: Option<String> = None;
        loop {
            let page = self.q::<AllAccountsResponse>(QueryMsg::AllAccounts { start_after: cursor.clone(), limit: Some(limit) })?.accounts;
            if page.is_empty() {
                return Ok(out);
            }
            cursor = page.last().cloned();
            out.extend(page);
            if out.len() > 10_000 {
                return Err("AllAccounts does not terminate".into());
            }
        }
    }
    fn owner_allowances(&self, o: &str) -> Result<BTreeMap<String, (u128, Expiration)>, String> {
        let mut out = BTreeMap::new();
        let mut cursor: Option<String> = None;
        let mut n = 0;
        loop {
            let page = self.q::<AllAllowancesResponse>(QueryMsg::AllAllowances { owner: o.to_string(), start_after: cursor.clone(), limit: Some(3) })?.allowances;
            if page.is_empty() {
                return Ok(out);
            }
            cursor = page.last().map(|a| a.spender.clone());
            for a in page {
                n += 1;
                if out.insert(a.spender.clone(), (a.allowance.u128(), a.expires)).is_some() {
                    return Err(format!("AllAllowances lists spender {} twice", a.spender));
                }
            }
            if n > 10_000 {
                return Err("AllAllowances does not terminate".into());
            }
        }
    }
    fn spender_allowances(&self, s: &str) -> Result<BTreeMap<String, (u128, Expiration)>, String> {
        let mut out = BTreeMap::new();
        let mut cursor: Option<String> = None;
        let mut n = 0;
        loop {
            let page = self.q::<AllSpenderAllowancesResponse>(QueryMsg::AllSpenderAllowances { spender: s.to_string(), start_after: cursor.clone(), limit: Some(3) })?.allowances;
            if page.is_empty() {
                return Ok(out);
            }
            cursor = page.last().map(|a| a.owner.clone());
            for a in page {
                n += 1;
                if out.insert(a.owner.clone(), (a.allowance.u128(), a.expires)).is_some() {
                    return Err(format!("AllSpenderAllowances lists owner {} twice", a.owner));
                }
            }
            if n > 10_000 {
                return Err("AllSpenderAllowances does not terminate".into());
            }
        }
    }

    fn observe(&self) -> Result<Obs, String> {
        let mut balances = vec![];
        for a in &self.actors {
            balances.push(self.balance(a.as_str())?);
        }
        let mut allow = vec![];
        for o in &self.actors {
            let mut row = vec![];
            for s in &self.actors {
                row.push(self.allowance(o.as_str(), s.as_str())?);
            }
            allow.push(row);
        }
        Ok(Obs { balances, supply: self.supply()?, minter: self.minter()?, allow })
    }

    fn exec(&mut self, sender: u8, msg: Cw20ExecuteMsg) -> Result<Response, String> {
        let info = Direct::info(&self.actors[sender as usize], &[]);
        self.d.tx(|deps, env| cw20_base::contract::execute(deps, env, info, msg))
    }
}

/// resolve a (possibly state-relative) amount; `debited` is the account the op would debit,
/// `pair` the allowance it refers to
fn resolve(a: &Amt, o: &Obs, inst_cap: Option<u128>, debited: Option<usize>, pair: Option<(usize, usize)>) -> u128 {
    let n = N_ACTORS as usize;
    let deb = debited.map(|i| o.balances[i]).unwrap_or(0);
    let alw = pair.map(|(ow, sp)| o.allow[ow][sp].0).unwrap_or(0);
    let frac = |x: u128, k: u8| -> u128 { (Uint256::from(x) * Uint256::from(k as u128 + 1) / Uint256::from(256u128)).to_string().parse::<u128>().unwrap_or(x) };
    match a {
        Amt::Abs(x) => *x,
        Amt::FracDebited(k) => frac(deb, *k),
        Amt::FracAllowance(k) => frac(alw, *k),
        Amt::Rel(r, d) => {
            let base = match r {
                Rel::BalanceOf(i) => o.balances[*i as usize % n],
                Rel::Debited => deb,
                Rel::ThisAllowance => alw,
                Rel::CapRoom => match o.minter.as_ref().and_then(|m| m.1).or(inst_cap) {
                    Some(c) => c.saturating_sub(o.supply),
                    None => 1000,
                },
                Rel::Supply => o.supply,
            };
            if *d >= 0 {
                base.saturating_add(*d as u128)
            } else {
                base.saturating_sub((-*d) as u128)
            }
        }
    }
}

fn resolve_pair(p: &Pair, o: &Obs) -> (usize, usize) {
    let n = N_ACTORS as usize;
    match p {
        Pair::Explicit(a, b) => (*a as usize % N_HOLDERS as usize, *b as usize % n),
        Pair::Granted(k) => {
            let mut live = vec![];
            for ow in 0..n {
                for sp in 0..n {
                    if o.allow[ow][sp].0 > 0 {
                        live.push((ow, sp));
                    }
                }
            }
            if live.is_empty() {
                (0, 1)
            } else {
                live[vcore::amounts::pick(*k, live.len())]
            }
        }
    }
}

fn resolve_who(wh: &Who, o: &Obs, w: &World) -> usize {
    match wh {
        Who::Actor(i) => *i as usize % N_HOLDERS as usize,
        Who::Minter => o.minter.as_ref().and_then(|m| w.actors.iter().position(|a| a.as_str() == m.0)).unwrap_or(0),
    }
}

#[derive(Deserialize)]
#[serde(rename_all = "snake_case")]
enum ReceiveWrap {
    Receive { sender: String, amount: Uint128, msg: Binary },
}

/// What an op is, after resolving indices and amounts.
#[derive(Clone, Debug)]
enum Kind {
    Transfer,
    Send,
    Burn,
    Mint,
    Increase,
    Decrease,
    TransferFrom,
    SendFrom,
    BurnFrom,
    UpdateMinter,
    Side,
}

#[derive(Clone, Debug)]
struct Step {
    kind: Kind,
    sender: usize,
    /// owner for *From ops (index) ; for Increase/Decrease the owner is the sender
    owner: Option<usize>,
    /// recipient / spender / contract / new minter as raw string + actor index if it is an actor
    target: Option<(String, Option<usize>)>,
    amount: u128,
    exp: Option<Expiration>,
    payload: Vec<u8>,
}

pub fn run_case(prop: &str, case: &Case, ctx: &mut CaseCtx) -> Result<(), Violation> {
    let mut w = World::new();
    let qerr = |e: String| v(prop, "query-failed", format!("a query failed or panicked: {e}"));

    // ---------------- instantiate (or fabricate legacy image and migrate)
    let valid_list = {
        let mut seen = BTreeSet::new();
        case.init.accounts.iter().all(|(i, _)| (*i as usize) < N_HOLDERS as usize && seen.insert(*i))
    };
    let init_sum: Option<u128> = case.init.accounts.iter().try_fold(0u128, |s, (_, a)| s.checked_add(*a));
    let init_supply_hint = init_sum.unwrap_or(u128::MAX);
    let cap_value: Option<u128> = match &case.init.mint {
        Some((_, Some(c))) => Some(match c {
            Cap::Abs(x) => *x,
            Cap::SupplyPlus(d) => init_supply_hint.saturating_add(*d),
            Cap::SupplyMinus(d) => init_supply_hint.saturating_sub(*d),
        }),
        _ => None,
    };
    let minter_str: Option<String> = case.init.mint.as_ref().map(|(m, _)| w.rcpts[*m as usize % N_RCPT as usize].clone());
    let mut granted: BTreeMap<(usize, usize), Uint256> = BTreeMap::new();
    let mut drawn: BTreeMap<(usize, usize), Uint256> = BTreeMap::new();
    let mut migrated_pairs: BTreeSet<(usize, usize)> = BTreeSet::new();
    let mut migrated_modified: BTreeSet<(usize, usize)> = BTreeSet::new();
    let mut legacy_cap: Option<u128> = None;
    let mut legacy_total: u128 = 0;

    if let Some(legacy) = &case.legacy {
        // fabricated pre-0.14 image: balances = distinct valid part of init.accounts
        let mut total = 0u128;
        let mut seen = BTreeSet::new();
        let (start_h, start_ns) = (w.d.height, w.d.now_ns());
        let crowd_addrs: Vec<Addr> = (0..case.init.crowd).map(|k| w.d.api.addr_make(&format!("crowd{k}"))).collect();
        let store = &mut w.d.store;
        for (i, a) in &case.init.accounts {
            let i = *i as usize % N_ACTORS as usize;
            if !seen.insert(i) {
                continue;
            }
            let Some(t) = total.checked_add(*a) else { continue };
            total = t;
            L_BALANCES.save(store, &w.actors[i], &Uint128::new(*a)).unwrap();
        }
        for k in 0..case.init.crowd {
            let Some(t) = total.checked_add(1 + k as u128) else { continue };
            total = t;
            L_BALANCES.save(store, &crowd_addrs[k as usize], &Uint128::new(1 + k as u128)).unwrap();
        }
        let mint = match (&minter_str, case.init.mint.as_ref()) {
            (Some(m), Some((mi, _))) if (*mi as usize) < N_ACTORS as usize => Some(LegacyMinterData {
                minter: Addr::unchecked(m.clone()),
                cap: cap_value.map(|c| Uint128::new(c.max(total))),
            }),
            _ => None,
        };
        legacy_cap = mint.as_ref().and_then(|m| m.cap).map(|c| c.u128());
        legacy_total = total;
        L_TOKEN_INFO
            .save(store, &LegacyTokenInfo { name: "Verif Token".into(), symbol: "VRF".into(), decimals: 6, total_supply: Uint128::new(total), mint })
            .unwrap();
        L_VERSION.save(store, &LegacyContractVersion { contract: "crates.io:cw20-base".into(), version: LEGACY_VERSIONS[case.legacy_version as usize % LEGACY_VERSIONS.len()].into() }).unwrap();
        let mut last: BTreeMap<(usize, usize), u128> = BTreeMap::new();
        for la in legacy {
            let (o, s) = (la.owner as usize % N_ACTORS as usize, la.spender as usize % N_ACTORS as usize);
            if o == s {
                continue;
            }
            let e = la.exp.resolve_ns(start_h, start_ns);
            L_ALLOWANCES.save(store, (&w.actors[o], &w.actors[s]), &LegacyAllowanceValue { allowance: Uint128::new(la.amount), expires: e }).unwrap();
            last.insert((o, s), la.amount);
        }
        for ((o, s), a) in last {
            granted.insert((o, s), Uint256::from(a));
            migrated_pairs.insert((o, s));
        }
        if prop == "C19" && case.legacy_bulk > 0 {
            w.ghosts = (0..case.legacy_bulk).map(|i| w.d.api.addr_make(&format!("ghost{i}"))).collect();
            let store = &mut w.d.store;
            for o in 0..2usize {
                for (i, g) in w.ghosts.iter().enumerate() {
                    L_ALLOWANCES.save(store, (&w.actors[o], g), &LegacyAllowanceValue { allowance: Uint128::new(1 + i as u128 + 100 * o as u128), expires: Expiration::Never {} }).unwrap();
                }
            }
            ctx.flag("legacy_bulk");
        }
        let r = w.d.tx(|deps, env| cw20_base::contract::migrate(deps, env, MigrateMsg {}));
        if let Err(e) = r {
            if prop == "C19" {
                return Err(v(prop, "migrate-failed", format!("migrate from a pre-0.14 storage image failed: {e}")));
            }
            ctx.count("legacy_migrate_failed");
            return Ok(());
        }
        ctx.flag("legacy");
    } else {
        let msg = InstantiateMsg {
            name: "Verif Token".into(),
            symbol: "VRF".into(),
            decimals: 6,
            initial_balances: case
                .init
                .accounts
                .iter()
                .map(|(i, a)| Cw20Coin { address: w.rcpts[*i as usize % N_RCPT as usize].clone(), amount: Uint128::new(*a) })
                .chain((0..case.init.crowd).map(|k| Cw20Coin { address: w.d.api.addr_make(&format!("crowd{k}")).to_string(), amount: Uint128::new(1 + k as u128) }))
                .collect(),
            mint: minter_str.clone().map(|m| MinterResponse { minter: m, cap: cap_value.map(Uint128::new) }),
            marketing: case.init.marketing.map(|m| cw20_base::msg::InstantiateMarketingInfo { project: Some("verif".into()), description: None, marketing: Some(w.actors[m as usize % N_ACTORS as usize].to_string()), logo: None }),
        };
        let info = Direct::info(&w.actors[0], &[]);
        let r = w.d.tx(|deps, env| cw20_base::contract::instantiate(deps, env, info, msg));
        if r.is_err() {
            ctx.count("init_rejected");
            if valid_list && init_sum.is_some() {
                ctx.count("init_rejected_valid_list");
            }
            return Ok(());
        }
        ctx.count("init_accepted");
        if !valid_list {
            ctx.flag("accepted_irregular_init");
        }
    }
    // the cap "fixed at instantiation": what Minter reports right after instantiate, or, for an upgraded
    // token, the cap its storage image carried (an upgrade must not change it)
    let inst_cap: Option<u128> = if case.legacy.is_some() { legacy_cap } else { w.minter().map_err(qerr)?.and_then(|m| m.1) };
    let had_minter_at_start = w.minter().map_err(qerr)?.is_some();

    let mut pre = w.observe().map_err(qerr)?;
    if case.legacy.is_some() && matches!(prop, "C01" | "C13") && pre.supply != legacy_total {
        return Err(v(prop, "upgrade-changed-supply", format!("after migrating a pre-0.14 image: total supply is {} but the image held {}", pre.supply, legacy_total)));
    }
    if prop == "C02" && case.legacy.is_some() {
        // the upgrade carried over exactly the allowances the owners had granted
        let n = N_ACTORS as usize;
        for o in 0..n {
            for x in 0..n {
                let want = granted.get(&(o, x)).cloned().unwrap_or(Uint256::zero());
                if Uint256::from(pre.allow[o][x].0) != want {
                    return Err(v(prop, "upgrade-changed-allowance", format!("after migrating a pre-0.14 image: allowance of owner actor{o} for spender actor{x} is {} but the owner had granted {}", pre.allow[o][x].0, want)));
                }
            }
        }
    }
    check_state(prop, &w, &pre, inst_cap, "after instantiate")?;
    let mut minter_gone = pre.minter.is_none();
    let mut handovers = 0u32;
    let mut renounced = false;

    for (step_no, op) in case.ops.iter().enumerate() {
        let n = N_ACTORS as usize;
        let rc = |i: u8| -> (String, Option<usize>) {
            let i = i as usize % N_RCPT as usize;
            (w.rcpts[i].clone(), if i < N_HOLDERS as usize { Some(i) } else { None })
        };
        let step: Step = match op {
            Op::Advance { blocks, secs, nanos } => {
                w.d.advance(*blocks as u64, *secs as u64);
                w.d.advance_nanos(*nanos);
                // time passing alone changes nothing observable
                let post = w.observe().map_err(qerr)?;
                if post != pre {
                    return Err(v(prop, "advance-changed-state", format!("step {step_no}: advancing the block changed queried state")));
                }
                continue;
            }
            Op::Transfer { from, to, amt } => {
                let f = *from as usize % n;
                Step { kind: Kind::Transfer, sender: f, owner: None, target: Some(rc(*to)), amount: resolve(amt, &pre, inst_cap, Some(f), None), exp: None, payload: vec![] }
            }
            Op::Send { from, to, amt, payload } => {
                let f = *from as usize % n;
                Step { kind: Kind::Send, sender: f, owner: None, target: Some(rc(*to)), amount: resolve(amt, &pre, inst_cap, Some(f), None), exp: None, payload: payload.clone() }
            }
            Op::Burn { from, amt } => {
                let f = *from as usize % n;
                Step { kind: Kind::Burn, sender: f, owner: None, target: None, amount: resolve(amt, &pre, inst_cap, Some(f), None), exp: None, payload: vec![] }
            }
            Op::Mint { by, to, amt } => {
                let b = resolve_who(by, &pre, &w);
                Step { kind: Kind::Mint, sender: b, owner: None, target: Some(rc(*to)), amount: resolve(amt, &pre, inst_cap, None, None), exp: None, payload: vec![] }
            }
            Op::Increase { owner, spender, amt, exp } => {
                let o = *owner as usize % n;
                let t = rc(*spender);
                let pr = t.1.map(|sp| (o, sp));
                Step { kind: Kind::Increase, sender: o, owner: None, target: Some(t), amount: resolve(amt, &pre, inst_cap, Some(o), pr), exp: exp.map(|e| e.resolve_ns(w.d.height, w.d.now_ns())), payload: vec![] }
            }
            Op::Decrease { pair, amt, exp } => {
                let (o, sp) = resolve_pair(pair, &pre);
                Step { kind: Kind::Decrease, sender: o, owner: None, target: Some((w.rcpts[sp].clone(), Some(sp))), amount: resolve(amt, &pre, inst_cap, Some(o), Some((o, sp))), exp: exp.map(|e| e.resolve_ns(w.d.height, w.d.now_ns())), payload: vec![] }
            }
            Op::TransferFrom { pair, to, amt } => {
                let (o, sp) = resolve_pair(pair, &pre);
                Step { kind: Kind::TransferFrom, sender: sp, owner: Some(o), target: Some(rc(*to)), amount: resolve(amt, &pre, inst_cap, Some(o), Some((o, sp))), exp: None, payload: vec![] }
            }
            Op::SendFrom { pair, to, amt, payload } => {
                let (o, sp) = resolve_pair(pair, &pre);
                Step { kind: Kind::SendFrom, sender: sp, owner: Some(o), target: Some(rc(*to)), amount: resolve(amt, &pre, inst_cap, Some(o), Some((o, sp))), exp: None, payload: payload.clone() }
            }
            Op::BurnFrom { pair, amt } => {
                let (o, sp) = resolve_pair(pair, &pre);
                Step { kind: Kind::BurnFrom, sender: sp, owner: Some(o), target: None, amount: resolve(amt, &pre, inst_cap, Some(o), Some((o, sp))), exp: None, payload: vec![] }
            }
            Op::Side { by, arg, .. } => Step { kind: Kind::Side, sender: *by as usize % n, owner: None, target: Some(rc(*arg % N_ACTORS)), amount: 0, exp: None, payload: vec![] },
            Op::UpdateMinter { by, new } => Step { kind: Kind::UpdateMinter, sender: resolve_who(by, &pre, &w), owner: None, target: new.map(rc), amount: 0, exp: None, payload: vec![] },
        };
        let amount = Uint128::new(step.amount);
        let tgt = step.target.as_ref().map(|t| t.0.clone()).unwrap_or_default();
        let owner_s = step.owner.map(|o| w.actors[o].to_string()).unwrap_or_default();
        let msg = match step.kind {
            Kind::Transfer => Cw20ExecuteMsg::Transfer { recipient: tgt.clone(), amount },
            Kind::Send => Cw20ExecuteMsg::Send { contract: tgt.clone(), amount, msg: Binary::from(step.payload.clone()) },
            Kind::Burn => Cw20ExecuteMsg::Burn { amount },
            Kind::Mint => Cw20ExecuteMsg::Mint { recipient: tgt.clone(), amount },
            Kind::Increase => Cw20ExecuteMsg::IncreaseAllowance { spender: tgt.clone(), amount, expires: step.exp },
            Kind::Decrease => Cw20ExecuteMsg::DecreaseAllowance { spender: tgt.clone(), amount, expires: step.exp },
            Kind::TransferFrom => Cw20ExecuteMsg::TransferFrom { owner: owner_s.clone(), recipient: tgt.clone(), amount },
            Kind::SendFrom => Cw20ExecuteMsg::SendFrom { owner: owner_s.clone(), contract: tgt.clone(), amount, msg: Binary::from(step.payload.clone()) },
            Kind::BurnFrom => Cw20ExecuteMsg::BurnFrom { owner: owner_s.clone(), amount },
            Kind::UpdateMinter => Cw20ExecuteMsg::UpdateMinter { new_minter: step.target.as_ref().map(|t| t.0.clone()) },
            Kind::Side => {
                let what = match op {
                    Op::Side { what, .. } => *what % 5,
                    _ => 0,
                };
                match what {
                    0 => Cw20ExecuteMsg::UpdateMarketing { project: Some(format!("project {step_no}")), description: Some(String::new()), marketing: None },
                    1 => Cw20ExecuteMsg::UpdateMarketing { project: None, description: None, marketing: Some(tgt.clone()) },
                    2 => Cw20ExecuteMsg::UploadLogo(cw20::Logo::Url("https://example.org/logo.png".into())),
                    _ => Cw20ExecuteMsg::UploadLogo(cw20::Logo::Embedded(cw20::EmbeddedLogo::Svg(Binary::from(br#"<?xml version="1.0"?><svg xmlns="http://www.w3.org/2000/svg"></svg>"#.to_vec())))),
                }
            }
        };
        let is_upgrade = matches!(op, Op::Side { what, .. } if *what % 5 == 4);
        // C13: the minter's address spelled in upper case is not the registered minter's address (the chain hands
        // contracts the one normalised spelling of every sender): the same minter-only call from it is refused
        if prop == "C13" && matches!(step.kind, Kind::Mint | Kind::UpdateMinter) && step_no % 3 == 1 {
            if let Some((m, _)) = &pre.minter {
                let alias = Addr::unchecked(m.to_uppercase());
                let info = Direct::info(&alias, &[]);
                let attempt = msg.clone();
                ctx.count("minter_call_from_upper_case_spelling");
                if w.d.tx(|deps, env| cw20_base::contract::execute(deps, env, info, attempt)).is_ok() {
                    return Err(v(prop, "minter-call-by-other-address", format!("step {step_no}: {:?} sent by {alias}, which is not the registered minter {m}, succeeded", msg)));
                }
            }
        }
        let res = if is_upgrade {
            let from = ["1.1.0", "0.16.0", "0.14.2", "2.0.0"][step.sender % 4];
            L_VERSION.save(&mut w.d.store, &LegacyContractVersion { contract: "crates.io:cw20-base".into(), version: from.into() }).unwrap();
            w.d.tx(|deps, env| cw20_base::contract::migrate(deps, env, MigrateMsg {}))
        } else {
            w.exec(step.sender as u8, msg)
        };
        let ok = res.is_ok();
        let post = w.observe().map_err(qerr)?;
        let kname = format!("{:?}", step.kind);
        ctx.count(&format!("op_{}_{}", kname, if ok { "ok" } else { "fail" }));
        if !ok {
            ctx.flag("failed_call");
        }
        let at = format!("step {step_no} {kname} by actor{} target={tgt:?} owner={:?} amount={} -> {}", step.sender, step.owner, step.amount, if ok { "ok".to_string() } else { format!("err({})", res.as_ref().err().unwrap()) });

        // a failed call never changes anything (driver rolls back; state must be identical)
        if !ok && post != pre {
            return Err(v(prop, "failed-call-changed-state", format!("{at}: harness rollback broken?")));
        }

        match prop {
            "C01" => check_c01_step(&w, &step, ok, &pre, &post, &at, ctx)?,
            "C02" => check_c02_step(&w, &step, ok, res.as_ref().ok(), &pre, &post, &at, ctx, &mut granted, &mut drawn)?,
            "C13" => check_c13_step(&w, &step, ok, &pre, &post, &at, ctx, inst_cap, &mut minter_gone, &mut handovers, &mut renounced)?,
            "C19" => {
                if ok {
                    match step.kind {
                        Kind::Decrease => {
                            let s = step.target.as_ref().and_then(|t| t.1);
                            if let Some(s) = s {
                                if post.allow[step.sender][s].0 == 0 {
                                    ctx.flag("removed_by_decrease");
                                }
                                if migrated_pairs.contains(&(step.sender, s)) {
                                    migrated_modified.insert((step.sender, s));
                                }
                            }
                        }
                        Kind::Increase => {
                            if let Some(s) = step.target.as_ref().and_then(|t| t.1) {
                                if migrated_pairs.contains(&(step.sender, s)) {
                                    migrated_modified.insert((step.sender, s));
                                }
                            }
                        }
                        Kind::TransferFrom | Kind::SendFrom | Kind::BurnFrom => {
                            let o = step.owner.unwrap();
                            if post.allow[o][step.sender].0 == 0 && step.amount > 0 {
                                ctx.flag("drawn_to_zero");
                            }
                            if migrated_pairs.contains(&(o, step.sender)) {
                                migrated_modified.insert((o, step.sender));
                            }
                        }
                        _ => {}
                    }
                }
            }
            _ => {}
        }
        check_state(prop, &w, &post, inst_cap, &at)?;
        pre = post;
    }

    // ---------------- non-triviality
    ctx.nontrivial = match prop {
        "C01" => (ctx.has("mint_ok") || ctx.has("burn_ok")) && ctx.has("draw_ok") && ctx.has("failed_call"),
        "C02" => ctx.has("draw_ok") && (ctx.has("draw_refused_expired") || ctx.has("draw_refused_amount")),
        "C13" => had_minter_at_start && ((handovers >= 1 && ctx.has("mint_at_cap_boundary")) || (renounced && ctx.has("attempt_after_renounce"))),
        "C19" => {
            if case.legacy.is_some() {
                migrated_modified.len() >= 2
            } else {
                ctx.has("drawn_to_zero") || ctx.has("removed_by_decrease")
            }
        }
        _ => false,
    };
    Ok(())
}

/// State invariants evaluated after instantiate and after every step.
fn check_state(prop: &str, w: &World, o: &Obs, inst_cap: Option<u128>, at: &str) -> Result<(), Violation> {
    match prop {
        "C01" => {
            // the listing is walked page by page; the page size varies with the block so that every
            // size from 1 up is used along a history ("the accounts it lists" must not depend on it)
            let limit = [1u32, 2, 3, 30][((w.d.height + w.d.time) % 4) as usize];
            let listed = w.all_accounts(limit).map_err(|e| v(prop, "query-failed", e))?;
            let mut seen = BTreeSet::new();
            let mut sum: u128 = 0;
            for a in &listed {
                if !seen.insert(a.clone()) {
                    return Err(v(prop, "account-listed-twice", format!("{at}: AllAccounts lists {a} twice")));
                }
                let b = w.balance(a).map_err(|e| v(prop, "query-failed", e))?;
                sum = sum.checked_add(b).ok_or_else(|| v(prop, "sum-overflow", format!("{at}: the sum of listed balances exceeds u128 while supply is {}", o.supply)))?;
            }
            if sum != o.supply {
                return Err(v(prop, "supply-ne-sum", format!("{at}: total_supply {} != sum of listed balances {}", o.supply, sum)));
            }
            for (i, a) in w.actors.iter().enumerate() {
                if o.balances[i] > 0 && !seen.contains(a.as_str()) {
                    return Err(v(prop, "holder-not-listed", format!("{at}: {a} holds {} but is not listed by AllAccounts", o.balances[i])));
                }
            }
        }
        "C02" => {
            for i in 0..w.actors.len() {
                if o.allow[i][i].0 != 0 {
                    return Err(v(prop, "self-allowance", format!("{at}: actor{i} has an allowance on its own account")));
                }
            }
        }
        "C13" => {
            if let Some(c) = inst_cap {
                if o.supply > c {
                    return Err(v(prop, "supply-above-cap", format!("{at}: supply {} exceeds the cap {} fixed at instantiation", o.supply, c)));
                }
                // ... and neither do the tokens actually held by the accounts
                let held = o.balances.iter().fold(Uint256::zero(), |a, b| a + Uint256::from(*b));
                if held > Uint256::from(c) {
                    return Err(v(prop, "holdings-above-cap", format!("{at}: the accounts together hold {held}, more than the cap {c} fixed at instantiation (reported supply {})", o.supply)));
                }
            }
            if let Some((_, c)) = &o.minter {
                if *c != inst_cap {
                    return Err(v(prop, "cap-changed", format!("{at}: minter cap {:?} differs from the cap fixed at instantiation {:?}", c, inst_cap)));
                }
            }
        }
        "C19" => {
            let n = w.actors.len();
            let mut by_owner = vec![];
            let mut by_spender = vec![];
            for a in &w.actors {
                by_owner.push(w.owner_allowances(a.as_str()).map_err(|e| v(prop, "listing-failed", format!("{at}: {e}")))?);
                by_spender.push(w.spender_allowances(a.as_str()).map_err(|e| v(prop, "listing-failed", format!("{at}: {e}")))?);
            }
            // the spenders of a bulk legacy image: the same three-view comparison, point query made on the spot
            for g in &w.ghosts {
                let listed = w.spender_allowances(g.as_str()).map_err(|e| v(prop, "listing-failed", format!("{at}: {e}")))?;
                for (i, a) in w.actors.iter().enumerate() {
                    let point = w.allowance(a.as_str(), g.as_str()).map_err(|e| v(prop, "query-failed", e))?;
                    let (e1, e2) = (by_owner[i].get(g.as_str()), listed.get(a.as_str()));
                    let agree = match (e1, e2) {
                        (Some(x), Some(y)) => x == y && *x == point,
                        (None, None) => point.0 == 0,
                        _ => false,
                    };
                    if !agree {
                        return Err(v(prop, "views-disagree", format!("{at}: owner actor{i} spender {g} (bulk legacy image): owner listing {:?}, spender listing {:?}, point query {:?}", e1, e2, point)));
                    }
                }
            }
            let known: BTreeSet<&str> = w.actors.iter().chain(w.ghosts.iter()).map(|a| a.as_str()).collect();
            for (i, m) in by_owner.iter().enumerate() {
                for k in m.keys() {
                    if !known.contains(k.as_str()) {
                        return Err(v(prop, "unknown-entry", format!("{at}: AllAllowances(actor{i}) lists unknown spender {k}")));
                    }
                }
            }
            for (i, m) in by_spender.iter().enumerate() {
                for k in m.keys() {
                    if !known.contains(k.as_str()) {
                        return Err(v(prop, "unknown-entry", format!("{at}: AllSpenderAllowances(actor{i}) lists unknown owner {k}")));
                    }
                }
            }
            for ow in 0..n {
                for sp in 0..n {
                    let e1 = by_owner[ow].get(w.actors[sp].as_str());
                    let e2 = by_spender[sp].get(w.actors[ow].as_str());
                    let a = &o.allow[ow][sp];
                    match (e1, e2) {
                        (Some(x), Some(y)) => {
                            if x != y || x != a {
                                return Err(v(prop, "views-disagree", format!("{at}: owner actor{ow} spender actor{sp}: owner listing {:?}, spender listing {:?}, point query {:?}", x, y, a)));
                            }
                        }
                        (None, None) => {
                            if a.0 != 0 {
                                return Err(v(prop, "views-disagree", format!("{at}: owner actor{ow} spender actor{sp}: point query reports {:?} but neither listing has the pair", a)));
                            }
                        }
                        (x, y) => {
                            return Err(v(prop, "views-disagree", format!("{at}: owner actor{ow} spender actor{sp}: owner listing {:?} vs spender listing {:?} (point query {:?})", x, y, a)));
                        }
                    }
                }
            }
        }
        _ => {}
    }
    Ok(())
}

fn check_c01_step(w: &World, s: &Step, ok: bool, pre: &Obs, post: &Obs, at: &str, ctx: &mut CaseCtx) -> Result<(), Violation> {
    let prop = "C01";
    let n = w.actors.len();
    // expected balance delta vector (as signed pairs: minus[i], plus[i])
    let mut minus = vec![0u128; n];
    let mut plus = vec![0u128; n];
    let mut d_supply: (u128, u128) = (0, 0); // (minus, plus)
    if ok {
        let tgt_ix = s.target.as_ref().and_then(|t| t.1);
        match s.kind {
            Kind::Transfer | Kind::Send => {
                minus[s.sender] = s.amount;
                if let Some(t) = tgt_ix {
                    plus[t] = s.amount;
                }
            }
            Kind::TransferFrom | Kind::SendFrom => {
                ctx.flag("draw_ok");
                minus[s.owner.unwrap()] = s.amount;
                if let Some(t) = tgt_ix {
                    plus[t] = s.amount;
                }
            }
            Kind::Burn => {
                ctx.flag("burn_ok");
                minus[s.sender] = s.amount;
                d_supply.0 = s.amount;
            }
            Kind::BurnFrom => {
                ctx.flag("burn_ok");
                ctx.flag("draw_ok");
                minus[s.owner.unwrap()] = s.amount;
                d_supply.0 = s.amount;
            }
            Kind::Mint => {
                ctx.flag("mint_ok");
                if let Some(t) = tgt_ix {
                    plus[t] = s.amount;
                }
                d_supply.1 = s.amount;
            }
            _ => {}
        }
    }
    for i in 0..n {
        // post = pre - minus + plus, evaluated without overflow
        let expect = (Uint256::from(pre.balances[i]) + Uint256::from(plus[i])).checked_sub(Uint256::from(minus[i]));
        let good = match expect {
            Ok(e) => e == Uint256::from(post.balances[i]),
            Err(_) => false,
        };
        if !good {
            return Err(v(prop, "balance-delta", format!("{at}: balance of actor{i} went {} -> {}, expected -{} +{}", pre.balances[i], post.balances[i], minus[i], plus[i])));
        }
    }
    let expect = (Uint256::from(pre.supply) + Uint256::from(d_supply.1)).checked_sub(Uint256::from(d_supply.0));
    let good = match expect {
        Ok(e) => e == Uint256::from(post.supply),
        Err(_) => false,
    };
    if !good {
        return Err(v(prop, "supply-delta", format!("{at}: supply went {} -> {}, expected -{} +{}", pre.supply, post.supply, d_supply.0, d_supply.1)));
    }
    Ok(())
}

#[allow(clippy::too_many_arguments)]
fn check_c02_step(
    w: &World,
    s: &Step,
    ok: bool,
    resp: Option<&Response>,
    pre: &Obs,
    post: &Obs,
    at: &str,
    ctx: &mut CaseCtx,
    granted: &mut BTreeMap<(usize, usize), Uint256>,
    drawn: &mut BTreeMap<(usize, usize), Uint256>,
) -> Result<(), Violation> {
    let prop = "C02";
    let n = w.actors.len();
    // (block time in nanoseconds: it is not a whole number of seconds)
    let (h, t) = (w.d.height, w.d.now_ns());
    let is_draw = matches!(s.kind, Kind::TransferFrom | Kind::SendFrom | Kind::BurnFrom);

    // (a) a balance decreases only for the legitimate debited account of a successful op
    let debited: Option<usize> = if !ok {
        None
    } else {
        match s.kind {
            Kind::Transfer | Kind::Send | Kind::Burn => Some(s.sender),
            Kind::TransferFrom | Kind::SendFrom | Kind::BurnFrom => s.owner,
            _ => None,
        }
    };
    for i in 0..n {
        if post.balances[i] < pre.balances[i] {
            if debited != Some(i) {
                return Err(v(prop, "unauthorised-debit", format!("{at}: balance of actor{i} fell {} -> {} although this call does not entitle anyone to debit it", pre.balances[i], post.balances[i])));
            }
            let dec = pre.balances[i] - post.balances[i];
            if dec > s.amount {
                return Err(v(prop, "debit-exceeds-amount", format!("{at}: actor{i} lost {dec}, more than the amount {} of the call", s.amount)));
            }
        }
    }
    if let Some(d) = debited {
        // exact movement: the debited account loses `amount` (net 0 when it is also credited)
        let self_credit = matches!(s.kind, Kind::Transfer | Kind::Send | Kind::TransferFrom | Kind::SendFrom) && s.target.as_ref().and_then(|t| t.1) == Some(d);
        let expect = if self_credit { Some(pre.balances[d]) } else { pre.balances[d].checked_sub(s.amount) };
        if expect != Some(post.balances[d]) {
            return Err(v(prop, "debit-ne-amount", format!("{at}: debited account actor{d} went {} -> {}, amount {}", pre.balances[d], post.balances[d], s.amount)));
        }
        if !self_credit {
            if let Some(r) = s.target.as_ref().and_then(|t| t.1) {
                if matches!(s.kind, Kind::Transfer | Kind::Send | Kind::TransferFrom | Kind::SendFrom) && pre.balances[r].checked_add(s.amount) != Some(post.balances[r]) {
                    return Err(v(prop, "credit-ne-amount", format!("{at}: recipient actor{r} went {} -> {}, amount {}", pre.balances[r], post.balances[r], s.amount)));
                }
            }
        }
        if matches!(s.kind, Kind::Burn | Kind::BurnFrom) && pre.supply.checked_sub(s.amount) != Some(post.supply) {
            return Err(v(prop, "burn-supply", format!("{at}: supply went {} -> {} for a burn of {}", pre.supply, post.supply, s.amount)));
        }
    }

    // (b) draws
    if is_draw {
        let o = s.owner.unwrap();
        let x = s.sender;
        let (pa, pe) = pre.allow[o][x].clone();
        let expired = is_expired(&pe, h, t);
        if ok {
            ctx.flag("draw_ok");
            if expired {
                return Err(v(prop, "draw-on-expired", format!("{at}: draw succeeded on an allowance that expired ({:?}) at height {h} time {t}", pe)));
            }
            if pa < s.amount {
                return Err(v(prop, "draw-exceeds-allowance", format!("{at}: draw of {} succeeded with allowance {}", s.amount, pa)));
            }
            let (qa, qe) = post.allow[o][x].clone();
            if qa != pa - s.amount || qe != pe {
                return Err(v(prop, "allowance-not-reduced-exactly", format!("{at}: allowance went ({pa},{:?}) -> ({qa},{:?}), expected amount {}", pe, qe, pa - s.amount)));
            }
            let e = drawn.entry((o, x)).or_insert(Uint256::zero());
            *e += Uint256::from(s.amount);
            let g = granted.get(&(o, x)).cloned().unwrap_or(Uint256::zero());
            if *e > g {
                return Err(v(prop, "drawn-exceeds-granted", format!("{at}: actor{x} has now moved {} of actor{o}'s tokens but was only ever granted {}", e, g)));
            }
        } else if expired {
            ctx.flag("draw_refused_expired");
        } else if pa < s.amount {
            ctx.flag("draw_refused_amount");
        }
        if !expired && pa >= s.amount && s.amount > 0 && pre.balances[o] >= s.amount && s.target.as_ref().map(|t| t.1.is_some()).unwrap_or(true) {
            ctx.count("coverable_draws");
            if ok {
                ctx.count("coverable_draws_ok");
            }
        }
    }

    // (d) allowance changes
    let changer: Option<(usize, usize)> = if !ok {
        None
    } else {
        match s.kind {
            Kind::Increase | Kind::Decrease => s.target.as_ref().and_then(|t| t.1).map(|sp| (s.sender, sp)),
            Kind::TransferFrom | Kind::SendFrom | Kind::BurnFrom => Some((s.owner.unwrap(), s.sender)),
            _ => None,
        }
    };
    for o in 0..n {
        for x in 0..n {
            if pre.allow[o][x] != post.allow[o][x] && changer != Some((o, x)) {
                return Err(v(prop, "allowance-changed-by-other", format!("{at}: allowance of owner actor{o} for spender actor{x} changed {:?} -> {:?} in a call that is neither the owner's increase/decrease nor the spender's draw", pre.allow[o][x], post.allow[o][x])));
            }
        }
    }
    if ok {
        match s.kind {
            Kind::Increase => {
                let Some(sp) = s.target.as_ref().and_then(|t| t.1) else {
                    return Err(v(prop, "grant-to-invalid-address", format!("{at}: increase for an invalid spender address succeeded")));
                };
                let (pa, pe) = pre.allow[s.sender][sp].clone();
                let (qa, qe) = post.allow[s.sender][sp].clone();
                if pa.checked_add(s.amount) != Some(qa) {
                    return Err(v(prop, "increase-amount", format!("{at}: allowance {pa} -> {qa} after increase by {}", s.amount)));
                }
                match &s.exp {
                    Some(e) => {
                        if qe != *e {
                            return Err(v(prop, "increase-expiry", format!("{at}: expiry {:?} after increase with expires {:?}", qe, e)));
                        }
                        if is_expired(e, h, t) {
                            return Err(v(prop, "expired-expiry-accepted", format!("{at}: increase accepted an already expired expiry {:?} at height {h} time {t}", e)));
                        }
                    }
                    None => {
                        if qe != pe {
                            return Err(v(prop, "increase-expiry", format!("{at}: expiry changed {:?} -> {:?} without an expires argument", pe, qe)));
                        }
                    }
                }
                *granted.entry((s.sender, sp)).or_insert(Uint256::zero()) += Uint256::from(s.amount);
                ctx.flag("grant_ok");
            }
            Kind::Decrease => {
                let Some(sp) = s.target.as_ref().and_then(|t| t.1) else {
                    return Err(v(prop, "grant-to-invalid-address", format!("{at}: decrease for an invalid spender address succeeded")));
                };
                let (pa, pe) = pre.allow[s.sender][sp].clone();
                let (qa, qe) = post.allow[s.sender][sp].clone();
                if qa != pa.saturating_sub(s.amount) {
                    return Err(v(prop, "decrease-amount", format!("{at}: allowance {pa} -> {qa} after decrease by {}", s.amount)));
                }
                if qa > 0 {
                    match &s.exp {
                        Some(e) => {
                            if qe != *e && qe != pe {
                                return Err(v(prop, "decrease-expiry", format!("{at}: expiry {:?} after decrease with expires {:?} (was {:?})", qe, e, pe)));
                            }
                            if qe != pe && is_expired(&qe, h, t) {
                                return Err(v(prop, "expired-expiry-accepted", format!("{at}: decrease set an already expired expiry {:?}", qe)));
                            }
                        }
                        None => {
                            if qe != pe {
                                return Err(v(prop, "decrease-expiry", format!("{at}: expiry changed {:?} -> {:?} without an expires argument", pe, qe)));
                            }
                        }
                    }
                }
                if ctx.has("grant_ok") {
                    ctx.flag("decrease_after_grant");
                }
            }
            _ => {}
        }
    }

    // (e) notification of the receiving contract
    if ok {
        let resp = resp.unwrap();
        match s.kind {
            Kind::Send | Kind::SendFrom => {
                if resp.messages.len() != 1 {
                    return Err(v(prop, "receive-msg-count", format!("{at}: {} messages returned, expected exactly one", resp.messages.len())));
                }
                let m = &resp.messages[0].msg;
                let CosmosMsg::Wasm(WasmMsg::Execute { contract_addr, msg, funds }) = m else {
                    return Err(v(prop, "receive-msg-kind", format!("{at}: returned message is not a wasm execute: {:?}", m)));
                };
                let want_contract = s.target.as_ref().map(|t| t.0.clone()).unwrap_or_default();
                if *contract_addr != want_contract || !funds.is_empty() {
                    return Err(v(prop, "receive-msg-target", format!("{at}: receive hook sent to {contract_addr} with funds {:?}, expected {want_contract} without funds", funds)));
                }
                let parsed: Result<ReceiveWrap, _> = from_json(msg);
                let Ok(ReceiveWrap::Receive { sender, amount, msg: inner }) = parsed else {
                    return Err(v(prop, "receive-msg-format", format!("{at}: receive hook payload does not decode as {{receive:{{sender,amount,msg}}}}: {}", String::from_utf8_lossy(msg.as_slice()))));
                };
                if sender != w.actors[s.sender].as_str() || amount.u128() != s.amount || inner.as_slice() != s.payload.as_slice() {
                    return Err(v(prop, "receive-msg-content", format!("{at}: receive hook says sender={sender} amount={amount} msg={:?}; expected sender={} amount={} msg={:?}", inner.as_slice(), w.actors[s.sender], s.amount, s.payload)));
                }
            }
            _ => {
                if !resp.messages.is_empty() {
                    return Err(v(prop, "unexpected-messages", format!("{at}: call returned {} messages", resp.messages.len())));
                }
            }
        }
    }
    Ok(())
}

#[allow(clippy::too_many_arguments)]
fn check_c13_step(
    w: &World,
    s: &Step,
    ok: bool,
    pre: &Obs,
    post: &Obs,
    at: &str,
    ctx: &mut CaseCtx,
    inst_cap: Option<u128>,
    minter_gone: &mut bool,
    handovers: &mut u32,
    renounced: &mut bool,
) -> Result<(), Violation> {
    let prop = "C13";
    let sender = w.actors[s.sender].as_str();
    let is_minter = pre.minter.as_ref().map(|m| m.0 == sender).unwrap_or(false);
    if post.supply > pre.supply {
        if !(ok && matches!(s.kind, Kind::Mint)) {
            return Err(v(prop, "supply-rose-without-mint", format!("{at}: supply rose {} -> {} in a call that is not a successful Mint", pre.supply, post.supply)));
        }
        if !is_minter {
            return Err(v(prop, "mint-by-non-minter", format!("{at}: supply rose by a Mint whose sender is not the registered minter {:?}", pre.minter)));
        }
    }
    // tokens come into existence only by a Mint: the holdings of all accounts together never grow otherwise
    let total_of = |o: &Obs| o.balances.iter().fold(Uint256::zero(), |a, b| a + Uint256::from(*b));
    if total_of(post) > total_of(pre) && !(ok && matches!(s.kind, Kind::Mint)) {
        return Err(v(prop, "tokens-created-without-mint", format!("{at}: the accounts together hold {} after the call, {} before, and the call is not a successful Mint", total_of(post), total_of(pre))));
    }
    if ok && matches!(s.kind, Kind::Mint) && !is_minter {
        return Err(v(prop, "mint-by-non-minter", format!("{at}: Mint succeeded for a sender that is not the registered minter {:?}", pre.minter)));
    }
    if matches!(s.kind, Kind::Mint) {
        if let Some(c) = inst_cap {
            let room = c.saturating_sub(pre.supply);
            if is_minter && (s.amount == room || s.amount == room.saturating_add(1)) {
                ctx.flag("mint_at_cap_boundary");
            }
        } else if is_minter && ok {
            ctx.flag("mint_at_cap_boundary"); // no cap: every mint by the minter is at "the boundary"
        }
    }
    if pre.minter.as_ref().map(|m| &m.0) != post.minter.as_ref().map(|m| &m.0) {
        if !(ok && matches!(s.kind, Kind::UpdateMinter) && is_minter) {
            return Err(v(prop, "minter-changed-illegitimately", format!("{at}: minter changed {:?} -> {:?} other than by a successful UpdateMinter of the current minter", pre.minter, post.minter)));
        }
        if post.minter.is_none() {
            *renounced = true;
        } else {
            *handovers += 1;
        }
    }
    if ok && matches!(s.kind, Kind::UpdateMinter) {
        if !is_minter {
            return Err(v(prop, "update-minter-by-non-minter", format!("{at}: UpdateMinter succeeded for a sender that is not the registered minter {:?}", pre.minter)));
        }
        // the new minter is the requested one
        let want = s.target.as_ref().map(|t| t.0.clone());
        if post.minter.as_ref().map(|m| m.0.clone()) != want {
            return Err(v(prop, "update-minter-result", format!("{at}: minter is {:?} after UpdateMinter to {:?}", post.minter, want)));
        }
    }
    if *minter_gone {
        if matches!(s.kind, Kind::Mint | Kind::UpdateMinter) {
            ctx.flag("attempt_after_renounce");
            if ok {
                return Err(v(prop, "mint-after-renounce", format!("{at}: {:?} succeeded although the token has no minter", s.kind)));
            }
        }
        if post.minter.is_some() {
            return Err(v(prop, "minter-resurrected", format!("{at}: a minter exists again after the role was removed")));
        }
    }
    if post.minter.is_none() {
        *minter_gone = true;
    }
    Ok(())
}

// ---------------------------------------------------------------- family

pub struct Cw20Family;

const ASSUME: &[&str] = &[
    "transactions are atomic: a failed or panicking call leaves no state (direct driver restores the store)",
    "MockApi bech32 address validation stands for the chain's",
    "cosmwasm-std, cw-storage-plus, cw-utils, cw2 are trusted as execution substrate",
    "natively compiled contract code behaves as its wasm build (overflow checks on)",
];

impl Family for Cw20Family {
    type Case = Case;
    fn name(&self) -> &'static str {
        "cw20"
    }
    fn props(&self) -> Vec<PropSpec> {
        vec![
            PropSpec { id: "C01", quick_cases: 20000, thorough_cases: 40_000, floor: 1000, rule: "case = instantiate message (0-6 accounts from a 5-address pool incl. duplicates/invalid, optional minter/cap) + up to 40 (thorough 120) op groups over all cw20 execute variants with edge-biased absolute and state-relative amounts; after every step AllAccounts is paged to exhaustion and compared with TokenInfo, plus exact per-step balance/supply deltas. Non-trivial: history has >=1 successful mint or burn, >=1 successful allowance draw and >=1 failed call; distinct = distinct canonical JSON of the case.", assumptions: ASSUME },
            PropSpec { id: "C02", quick_cases: 20000, thorough_cases: 40_000, floor: 1000, rule: "same case type, weights towards allowances/draws/advance and a dedicated increase;(decrease||draw) race arm; oracle: clauses (a)-(e) of DESIGN section 4/C02 from Balance/Allowance observations of all 5 actors and 25 pairs before and after every call. Non-trivial: >=1 successful draw and >=1 draw refused because the allowance was expired or too small at that block.", assumptions: ASSUME },
            PropSpec { id: "C13", quick_cases: 20000, thorough_cases: 40_000, floor: 666, rule: "same case type weighted towards Mint/Burn/UpdateMinter by minter, ex-minters and strangers, caps at initial supply -1/0/+1 and mint amounts at cap-supply(+1). Non-trivial: token starts with a minter and (>=1 hand-over and >=1 mint attempt by the minter at the cap boundary) or (a renounce followed by >=1 mint/update attempt).", assumptions: ASSUME },
            PropSpec { id: "C19", quick_cases: 12000, thorough_cases: 25_000, floor: 450, rule: "same case type weighted towards allowance changes; 40% of cases start from a fabricated 0.13.4 storage image (frozen legacy layout: token_info, balance, allowance keyed (owner,spender), cw2 version) that is migrated first; after every step AllAllowances and AllSpenderAllowances (paged with limit 3) and Allowance are compared for all 25 pairs. Non-trivial: a draw to exactly zero or a removal by decrease (fresh arm) or >=2 migrated allowances later modified (legacy arm).", assumptions: ASSUME },
        ]
    }
    fn strategy(&self, prop: &str, tier: Tier) -> BoxedStrategy<Case> {
        case_strategy(prop, tier)
    }
    fn run(&self, prop: &str, case: &Case, ctx: &mut CaseCtx) -> Result<(), Violation> {
        run_case(prop, case, ctx)
    }
    fn decode(&self, prop: &str, u: &mut arbitrary::Unstructured) -> Option<Case> {
        Some(decode_case(prop, u))
    }
}

// ---------------------------------------------------------------- byte decoder (fuzz front-end)

fn d_actor(u: &mut arbitrary::Unstructured) -> u8 {
    arb_below(u, N_ACTORS as usize) as u8
}
fn d_rcpt(u: &mut arbitrary::Unstructured) -> u8 {
    if arb_bool(u, 1, 12) {
        N_ACTORS + arb_below(u, (N_RCPT - N_ACTORS) as usize) as u8
    } else {
        d_actor(u)
    }
}
fn d_amt(u: &mut arbitrary::Unstructured) -> Amt {
    let d = |u: &mut arbitrary::Unstructured| arb_below(u, 3) as i8 - 1;
    match arb_below(u, 12) {
        0..=3 => Amt::Abs(arb_u128(u)),
        4 => Amt::Rel(Rel::Debited, d(u)),
        5 | 6 => Amt::Rel(Rel::ThisAllowance, d(u)),
        7 => Amt::FracDebited(u.arbitrary().unwrap_or(0)),
        8 => Amt::FracAllowance(u.arbitrary().unwrap_or(0)),
        9 => Amt::Rel(Rel::BalanceOf(d_actor(u)), d(u)),
        10 => Amt::Rel(Rel::CapRoom, d(u)),
        _ => Amt::Rel(Rel::Supply, d(u)),
    }
}
fn d_pair(u: &mut arbitrary::Unstructured) -> Pair {
    if arb_bool(u, 3, 4) {
        Pair::Granted(u.arbitrary().unwrap_or(0))
    } else {
        Pair::Explicit(if arb_bool(u, 1, 8) { N_ACTORS } else { d_actor(u) }, d_actor(u))
    }
}
fn d_who(u: &mut arbitrary::Unstructured) -> Who {
    if arb_bool(u, 3, 5) {
        Who::Minter
    } else {
        Who::Actor(if arb_bool(u, 1, 9) { N_ACTORS } else { d_actor(u) })
    }
}
fn d_payload(u: &mut arbitrary::Unstructured) -> Vec<u8> {
    let n = arb_below(u, 6);
    (0..n).map(|_| u.arbitrary().unwrap_or(0)).collect()
}

pub fn decode_case(prop: &str, u: &mut arbitrary::Unstructured) -> Case {
    let n_acc = arb_below(u, 7);
    let irregular = arb_bool(u, 1, 8);
    let mut accounts = vec![];
    for i in 0..n_acc {
        let who = if irregular { d_rcpt(u) } else { (i as u8) % N_ACTORS };
        let amount = if arb_bool(u, 3, 4) { u.arbitrary::<u32>().unwrap_or(0) as u128 % 100_000 } else { arb_u128(u) };
        accounts.push((who, amount));
    }
    if !irregular {
        accounts.truncate(N_ACTORS as usize);
    }
    let mint = if arb_bool(u, 3, 4) {
        let cap = match arb_below(u, 6) {
            0 => None,
            1 | 2 => Some(Cap::SupplyPlus(arb_below(u, 3) as u128)),
            3 => Some(Cap::SupplyPlus(u.arbitrary::<u16>().unwrap_or(0) as u128 % 5000)),
            4 => Some(Cap::SupplyMinus(1 + arb_below(u, 2) as u128)),
            _ => Some(Cap::Abs(arb_u128(u))),
        };
        Some((d_rcpt(u), cap))
    } else {
        None
    };
    let legacy = if (prop == "C19" && arb_bool(u, 2, 5)) || (prop != "C19" && arb_bool(u, 1, 8)) {
        let n = arb_below(u, 12);
        let mut v = vec![];
        for _ in 0..n {
            let (o, sp) = (d_actor(u), d_actor(u));
            if o == sp {
                continue;
            }
            v.push(LegacyAllowance { owner: o, spender: sp, amount: if arb_bool(u, 4, 5) { 1 + u.arbitrary::<u16>().unwrap_or(0) as u128 % 10_000 } else { arb_u128(u) }, exp: arb_exp(u) });
        }
        Some(v)
    } else {
        None
    };
    let legacy_version = arb_below(u, LEGACY_VERSIONS.len()) as u8;
    let n_ops = arb_below(u, 48);
    let mut ops = vec![];
    for _ in 0..n_ops {
        let op = match arb_below(u, 14) {
            0 | 1 => Op::Transfer { from: d_actor(u), to: d_rcpt(u), amt: d_amt(u) },
            2 => Op::Send { from: d_actor(u), to: d_rcpt(u), amt: d_amt(u), payload: d_payload(u) },
            3 => Op::Burn { from: d_actor(u), amt: d_amt(u) },
            4 => Op::Mint { by: d_who(u), to: d_rcpt(u), amt: d_amt(u) },
            5 | 6 => Op::Increase { owner: d_actor(u), spender: d_rcpt(u), amt: d_amt(u), exp: arb_opt_exp(u) },
            7 => Op::Decrease { pair: d_pair(u), amt: d_amt(u), exp: arb_opt_exp(u) },
            8 | 9 => Op::TransferFrom { pair: d_pair(u), to: d_rcpt(u), amt: d_amt(u) },
            10 => Op::SendFrom { pair: d_pair(u), to: d_rcpt(u), amt: d_amt(u), payload: d_payload(u) },
            11 => Op::BurnFrom { pair: d_pair(u), amt: d_amt(u) },
            12 => Op::UpdateMinter { by: d_who(u), new: if arb_bool(u, 3, 4) { Some(d_rcpt(u)) } else { None } },
            _ => if arb_bool(u, 1, 3) { Op::Side { by: d_actor(u), what: arb_below(u, 5) as u8, arg: d_actor(u) } } else { Op::Advance { blocks: arb_below(u, 4) as u8, secs: arb_below(u, 40) as u16, nanos: if arb_bool(u, 1, 3) { 1 + u.int_in_range(0u32..=999_999_998).unwrap_or(0) } else { 0 } } },
        };
        ops.push(op);
    }
    let marketing = if arb_bool(u, 3, 5) { Some(d_actor(u)) } else { None };
    let legacy_bulk = if prop == "C19" && arb_bool(u, 1, 5) { 16 + arb_below(u, 8) as u8 } else { 0 };
    let crowd = if (prop == "C01" || prop == "C13") && arb_bool(u, 1, 10) { 31 + arb_below(u, 17) as u8 } else { 0 };
    Case { init: Init { accounts, mint, marketing, crowd }, legacy, legacy_version, legacy_bulk, ops }
}
