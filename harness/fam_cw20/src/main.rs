fn main() {
    vcore::runner::main_for(fam_cw20::Cw20Family)
}
