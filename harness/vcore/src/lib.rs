pub mod amounts;
pub mod direct;
pub mod exp;
pub mod runner;
pub mod store;

pub use runner::{CaseCtx, Family, Known, PropSpec, Tier, Violation};
