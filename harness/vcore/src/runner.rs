//! Generated-case runner shared by all property families: proptest `TestRunner`
//! with fixed seeds, whole-case shrinking, statistics, evidence and replay files.
use proptest::strategy::BoxedStrategy;
use proptest::test_runner::{
    Config, RngSeed, TestCaseError, TestError, TestRunner,
};
use serde::de::DeserializeOwned;
use serde::Serialize;
use serde_json::{json, Value};
use std::cell::RefCell;
use std::collections::hash_map::DefaultHasher;
use std::collections::{BTreeMap, BTreeSet, HashSet};
use std::fmt::Debug;
use std::hash::{Hash, Hasher};
use std::panic::{catch_unwind, AssertUnwindSafe};
use std::path::PathBuf;
use std::sync::atomic::{AtomicBool, Ordering};
use std::sync::{Arc, Mutex};
use std::time::Instant;

#[derive(Clone, Copy, Debug, PartialEq, Eq)]
pub enum Tier {
    Quick,
    Thorough,
}

impl Tier {
    pub fn as_str(&self) -> &'static str {
        match self {
            Tier::Quick => "quick",
            Tier::Thorough => "thorough",
        }
    }
}

#[derive(Clone, Debug)]
pub struct PropSpec {
    pub id: &'static str,
    /// cases of the quick tier (single worker)
    pub quick_cases: u32,
    /// cases per worker of the thorough tier (16 workers)
    pub thorough_cases: u32,
    /// minimum number of distinct non-trivial cases the quick tier must reach,
    /// otherwise the run is reported inconclusive (exit 2): the generator regressed
    pub floor: u64,
    pub rule: &'static str,
    pub assumptions: &'static [&'static str],
}

#[derive(Clone, Debug)]
pub struct Violation {
    pub property: String,
    pub signature: String,
    pub message: String,
}

impl Violation {
    pub fn new(property: &str, signature: &str, message: impl Into<String>) -> Self {
        Violation {
            property: property.to_string(),
            signature: signature.to_string(),
            message: message.into(),
        }
    }
}

/// Entries of /verif/known_findings.json
#[derive(Clone, Debug, Default)]
pub struct Known {
    /// signature -> what (open entries only)
    pub open: BTreeMap<String, (String, String)>, // signature -> (property, what)
}

impl Known {
    pub fn load(root: &std::path::Path) -> Known {
        let p = root.join("known_findings.json");
        let mut k = Known::default();
        let Ok(txt) = std::fs::read_to_string(&p) else { return k };
        let Ok(v) = serde_json::from_str::<Value>(&txt) else {
            eprintln!("INCONCLUSIVE: known_findings.json does not parse");
            std::process::exit(2);
        };
        if let Some(arr) = v.get("findings").and_then(|a| a.as_array()) {
            for e in arr {
                let status = e.get("status").and_then(|s| s.as_str()).unwrap_or("");
                if status == "open" {
                    let sig = e.get("signature").and_then(|s| s.as_str()).unwrap_or("").to_string();
                    let prop = e.get("property").and_then(|s| s.as_str()).unwrap_or("").to_string();
                    let what = e.get("what").and_then(|s| s.as_str()).unwrap_or("").to_string();
                    k.open.insert(sig, (prop, what));
                }
            }
        }
        k
    }
}

/// Per-case context handed to the interpreter.
pub struct CaseCtx<'a> {
    pub prop: &'a str,
    pub tier: Tier,
    pub known: &'a Known,
    pub counters: BTreeMap<String, u64>,
    pub flags: BTreeSet<&'static str>,
    pub known_hits: BTreeMap<String, u64>,
    pub nontrivial: bool,
}

impl<'a> CaseCtx<'a> {
    pub fn new(prop: &'a str, tier: Tier, known: &'a Known) -> Self {
        CaseCtx {
            prop,
            tier,
            known,
            counters: BTreeMap::new(),
            flags: BTreeSet::new(),
            known_hits: BTreeMap::new(),
            nontrivial: false,
        }
    }
    pub fn count(&mut self, k: &str) {
        *self.counters.entry(k.to_string()).or_insert(0) += 1;
    }
    pub fn add(&mut self, k: &str, n: u64) {
        *self.counters.entry(k.to_string()).or_insert(0) += n;
    }
    pub fn flag(&mut self, k: &'static str) {
        self.flags.insert(k);
    }
    pub fn has(&self, k: &'static str) -> bool {
        self.flags.contains(k)
    }
    /// True iff `signature` is listed as an open known finding for this
    /// property; the hit is counted.
    pub fn tolerate(&mut self, signature: &str) -> bool {
        if let Some((p, _)) = self.known.open.get(signature) {
            if p == self.prop {
                *self.known_hits.entry(signature.to_string()).or_insert(0) += 1;
                return true;
            }
        }
        false
    }
}

pub trait Family: Sync + Send + 'static {
    type Case: Clone + Debug + Serialize + DeserializeOwned + Send + 'static;
    fn name(&self) -> &'static str;
    fn props(&self) -> Vec<PropSpec>;
    fn strategy(&self, prop: &str, tier: Tier) -> BoxedStrategy<Self::Case>;
    fn run(&self, prop: &str, case: &Self::Case, ctx: &mut CaseCtx) -> Result<(), Violation>;
    /// Byte-level front-end for coverage-guided fuzzing: decode a case from raw bytes with
    /// `arbitrary::Unstructured` (total: never loops, never fails on short input). Families
    /// without a fuzz target keep the default.
    fn decode(&self, _prop: &str, _u: &mut arbitrary::Unstructured) -> Option<Self::Case> {
        None
    }
}

const HASH_CAP: usize = 2_000_000;

#[derive(Default)]
struct Stats {
    evaluations: u64,
    nontrivial: HashSet<u64>,
    distinct: HashSet<u64>,
    counters: BTreeMap<String, u64>,
    flag_cases: BTreeMap<String, u64>,
    known_hits: BTreeMap<String, u64>,
    samples: Vec<Value>,
}

impl Stats {
    fn merge(&mut self, o: Stats) {
        self.evaluations += o.evaluations;
        self.nontrivial.extend(o.nontrivial);
        self.distinct.extend(o.distinct);
        for (k, v) in o.counters {
            *self.counters.entry(k).or_insert(0) += v;
        }
        for (k, v) in o.flag_cases {
            *self.flag_cases.entry(k).or_insert(0) += v;
        }
        for (k, v) in o.known_hits {
            *self.known_hits.entry(k).or_insert(0) += v;
        }
        for s in o.samples {
            if self.samples.len() < 4 {
                self.samples.push(s);
            }
        }
    }
}

fn truncate_arrays(v: &mut Value) {
    match v {
        Value::Array(a) => {
            if a.len() > 25 {
                let more = a.len() - 25;
                a.truncate(25);
                a.push(Value::String(format!("... (+{more} more)")));
            }
            for x in a.iter_mut() {
                truncate_arrays(x);
            }
        }
        Value::Object(m) => {
            for (_, x) in m.iter_mut() {
                truncate_arrays(x);
            }
        }
        _ => {}
    }
}

fn hash_str(s: &str) -> u64 {
    let mut h = DefaultHasher::new();
    s.hash(&mut h);
    h.finish()
}

pub fn verif_root() -> PathBuf {
    std::env::var("VERIF_ROOT").map(PathBuf::from).unwrap_or_else(|_| PathBuf::from("/verif"))
}

pub fn verif_seed() -> u64 {
    std::env::var("VERIF_SEED").ok().and_then(|s| s.trim().parse::<i64>().ok()).map(|v| v as u64).unwrap_or(1)
}

thread_local! {
    static LAST_PANIC: RefCell<String> = const { RefCell::new(String::new()) };
}

pub fn install_quiet_panic_hook() {
    std::panic::set_hook(Box::new(|info| {
        let loc = info.location().map(|l| format!("{}:{}", l.file(), l.line())).unwrap_or_default();
        let msg = if let Some(s) = info.payload().downcast_ref::<&str>() {
            s.to_string()
        } else if let Some(s) = info.payload().downcast_ref::<String>() {
            s.clone()
        } else {
            String::new()
        };
        LAST_PANIC.with(|p| *p.borrow_mut() = format!("{msg} @ {loc}"));
    }));
}

pub fn last_panic() -> String {
    LAST_PANIC.with(|p| p.borrow().clone())
}

enum Outcome<C> {
    Clean,
    Failed { case: C, violation: Violation },
    HarnessPanic { case: C, text: String },
    Aborted(String),
}

fn run_worker<F: Family>(
    fam: &F,
    prop: &str,
    tier: Tier,
    cases: u32,
    seed: u64,
    known: &Known,
    stop: &AtomicBool,
) -> (Stats, Outcome<F::Case>) {
    let cfg = Config {
        cases,
        rng_seed: RngSeed::Fixed(seed),
        failure_persistence: None,
        max_shrink_iters: 3000,
        max_shrink_time: 0,
        max_global_rejects: 1_000_000,
        max_local_rejects: 1_000_000,
        verbose: 0,
        result_cache: proptest::test_runner::noop_result_cache,
        ..Config::default()
    };
    let mut runner = TestRunner::new(cfg);
    let strategy = fam.strategy(prop, tier);
    let stats = RefCell::new(Stats::default());
    let first: RefCell<Option<Violation>> = RefCell::new(None);
    let harness_panic: RefCell<Option<String>> = RefCell::new(None);

    let result = runner.run(&strategy, |case| {
        let shrinking = first.borrow().is_some() || harness_panic.borrow().is_some();
        if !shrinking && stop.load(Ordering::Relaxed) {
            return Ok(());
        }
        let mut ctx = CaseCtx::new(prop, tier, known);
        let r = catch_unwind(AssertUnwindSafe(|| fam.run(prop, &case, &mut ctx)));
        match r {
            Ok(Ok(())) => {
                if !shrinking {
                    let mut st = stats.borrow_mut();
                    st.evaluations += 1;
                    let js = serde_json::to_string(&case).unwrap_or_default();
                    let h = hash_str(&js);
                    // hash sets are capped per worker; beyond the cap the distinct counts are lower bounds
                    if st.distinct.len() < HASH_CAP {
                        st.distinct.insert(h);
                    }
                    if ctx.nontrivial && st.nontrivial.len() < HASH_CAP {
                        let fresh = st.nontrivial.insert(h);
                        if fresh && st.samples.len() < 4 {
                            st.samples.push(case_value(&case));
                        }
                    }
                    for (k, v) in ctx.counters {
                        *st.counters.entry(k).or_insert(0) += v;
                    }
                    for f in ctx.flags {
                        *st.flag_cases.entry(f.to_string()).or_insert(0) += 1;
                    }
                    for (k, v) in ctx.known_hits {
                        *st.known_hits.entry(k).or_insert(0) += v;
                    }
                }
                Ok(())
            }
            Ok(Err(v)) => {
                if harness_panic.borrow().is_some() {
                    return Ok(()); // shrinking a harness panic: other failures do not count
                }
                let mut f = first.borrow_mut();
                match &*f {
                    None => {
                        if !shrinking {
                            stats.borrow_mut().evaluations += 1;
                        }
                        *f = Some(v.clone());
                        stop.store(true, Ordering::Relaxed);
                        Err(TestCaseError::fail(v.signature))
                    }
                    Some(orig) => {
                        if orig.signature == v.signature {
                            Err(TestCaseError::fail(v.signature))
                        } else {
                            Ok(())
                        }
                    }
                }
            }
            Err(p) => {
                if first.borrow().is_some() {
                    return Ok(());
                }
                let text = format!("{} [{}]", crate::direct::panic_text(p), last_panic());
                let mut hp = harness_panic.borrow_mut();
                if hp.is_none() {
                    *hp = Some(text);
                    stop.store(true, Ordering::Relaxed);
                }
                Err(TestCaseError::fail("harness-panic"))
            }
        }
    });

    let st = stats.into_inner();
    let outcome = match result {
        Ok(()) => Outcome::Clean,
        Err(TestError::Fail(_, case)) => {
            if let Some(text) = harness_panic.into_inner() {
                Outcome::HarnessPanic { case, text }
            } else {
                // re-run the minimal case to obtain its own message
                let mut ctx = CaseCtx::new(prop, tier, known);
                let v = match catch_unwind(AssertUnwindSafe(|| fam.run(prop, &case, &mut ctx))) {
                    Ok(Err(v)) => v,
                    _ => first.into_inner().unwrap_or_else(|| Violation::new(prop, "unknown", "unreproducible on re-run")),
                };
                Outcome::Failed { case, violation: v }
            }
        }
        Err(TestError::Abort(r)) => Outcome::Aborted(r.message().to_string()),
    };
    (st, outcome)
}

#[derive(Serialize, serde::Deserialize)]
struct ReplayDoc<C> {
    property: String,
    family: String,
    signature: String,
    message: String,
    case: C,
}

/// serde_json::Value cannot hold integers above u64::MAX (no arbitrary_precision), while
/// typed (de)serialisation through strings can: replay files are written and read typed.
fn write_replay<C: Serialize>(root: &std::path::Path, fam: &str, prop: &str, case: &C, v: &Violation) -> PathBuf {
    let dir = root.join("replays");
    let _ = std::fs::create_dir_all(&dir);
    let h = hash_str(&serde_json::to_string(case).unwrap_or_default());
    let path = dir.join(format!("{prop}-{:016x}.json", h));
    let doc = ReplayDoc { property: prop.to_string(), family: fam.to_string(), signature: v.signature.clone(), message: v.message.clone(), case };
    let _ = std::fs::write(&path, serde_json::to_string_pretty(&doc).unwrap_or_default());
    path
}

/// a case as a JSON value for the evidence file; falls back to the JSON text when the
/// case contains integers a serde_json::Value cannot represent
fn case_value<C: Serialize>(case: &C) -> Value {
    match serde_json::to_value(case) {
        Ok(mut v) => {
            truncate_arrays(&mut v);
            v
        }
        Err(_) => {
            let mut s = serde_json::to_string(case).unwrap_or_default();
            if s.len() > 6000 {
                s.truncate(6000);
                s.push_str("...(truncated)");
            }
            Value::String(s)
        }
    }
}

#[allow(clippy::too_many_arguments)]
fn write_evidence(
    root: &std::path::Path,
    spec: &PropSpec,
    fam: &str,
    tier: Tier,
    seed: u64,
    st: &Stats,
    wall: f64,
    violations: u64,
    workers: usize,
    extra: Option<Value>,
) {
    let dir = root.join("evidence");
    let _ = std::fs::create_dir_all(&dir);
    let mut coverage = json!({
        "evaluations": st.evaluations,
        "distinct_nontrivial": st.nontrivial.len(),
        "distinct_cases": st.distinct.len(),
        "rule": spec.rule,
        "samples": st.samples,
        "counters": st.counters,
        "cases_with_flag": st.flag_cases,
        "known_finding_hits": st.known_hits,
        "workers": workers,
        "family": fam,
        "generator": "proptest 1.11 strategies, whole-case shrinking, RngSeed::Fixed derived from VERIF_SEED",
    });
    if let Some(e) = extra {
        if let (Some(c), Some(e)) = (coverage.as_object_mut(), e.as_object()) {
            for (k, v) in e {
                c.insert(k.clone(), v.clone());
            }
        }
    }
    let doc = json!({
        "property_id": spec.id,
        "tier": tier.as_str(),
        "seed": seed as i64,
        "level": "exploration",
        "coverage": coverage,
        "assumptions": spec.assumptions,
        "wall_s": wall,
        "violations": violations,
    });
    let path = dir.join(format!("{}.json", spec.id));
    let _ = std::fs::write(&path, serde_json::to_string_pretty(&doc).unwrap());
}

fn derive_seed(seed: u64, worker: u64, prop: &str) -> u64 {
    let mut h = DefaultHasher::new();
    (seed, worker, prop).hash(&mut h);
    h.finish()
}

/// Decode a case from raw fuzz bytes through the family's `decode` (arbitrary::Unstructured).
/// (proptest's PassThrough RNG is not usable for this: every lazily generated union arm forks
/// the stream by halving it, so deep strategies exhaust any input, and rand's uniform sampling
/// then spins forever on the all-zero tail.)
pub fn case_from_bytes<F: Family>(fam: &F, prop: &str, _tier: Tier, data: &[u8]) -> Option<F::Case> {
    let mut u = arbitrary::Unstructured::new(data);
    fam.decode(prop, &mut u)
}

static FUZZ_KNOWN: std::sync::OnceLock<Known> = std::sync::OnceLock::new();

/// Call at the top of every fuzz iteration: libfuzzer-sys installs a panic hook that aborts the
/// process, which would turn every caught contract panic (a failed transaction) into a crash;
/// replace it with the quiet hook. Panics that escape the interpreter still abort (libfuzzer-sys
/// catches the unwind and aborts), so harness bugs are not hidden.
pub fn fuzz_setup() -> &'static Known {
    static ONCE: std::sync::Once = std::sync::Once::new();
    ONCE.call_once(install_quiet_panic_hook);
    FUZZ_KNOWN.get_or_init(|| Known::load(&verif_root()))
}

/// Run one already-built case inside a fuzz target; aborts (so libFuzzer saves the input) on a
/// violation that is not a tolerated known finding.
pub fn fuzz_case<F: Family>(fam: &F, prop: &str, case: &F::Case) {
    let known = fuzz_setup();
    let mut ctx = CaseCtx::new(prop, Tier::Quick, known);
    if let Err(v) = fam.run(prop, case, &mut ctx) {
        let js = serde_json::to_string(case).unwrap_or_default();
        eprintln!("FUZZ-VIOLATION property={} signature={} message={}\ncase={}", v.property, v.signature, v.message, js);
        std::process::abort();
    }
}

/// Fuzz input layout: byte 0 selects the property among `props`, the rest is the strategy's
/// input of the family's byte decoder.
pub fn fuzz_one<F: Family>(fam: &F, props: &[&str], data: &[u8]) {
    fuzz_setup();
    if data.is_empty() {
        return;
    }
    // VERIF_FUZZ_PROP pins the campaign to one property (used by `./check <ID> thorough`)
    static PIN: std::sync::OnceLock<Option<String>> = std::sync::OnceLock::new();
    let pin = PIN.get_or_init(|| std::env::var("VERIF_FUZZ_PROP").ok());
    let prop = match pin {
        Some(p) if props.contains(&p.as_str()) => p.as_str(),
        _ => props[data[0] as usize % props.len()],
    };
    let Some(case) = case_from_bytes(fam, prop, Tier::Quick, &data[1..]) else { return };
    fuzz_case(fam, prop, &case);
}

fn usage(name: &str) -> ! {
    eprintln!("usage: {name} <PROP> quick|thorough | replay <PROP> <file> | fuzzbytes <PROP> <file> | list");
    std::process::exit(2);
}

pub fn main_for<F: Family>(fam: F) -> ! {
    let args: Vec<String> = std::env::args().collect();
    let name = fam.name();
    if args.len() < 2 {
        usage(name);
    }
    install_quiet_panic_hook();
    let root = verif_root();
    let known = Known::load(&root);
    let specs = fam.props();
    if args[1] == "list" {
        for s in &specs {
            println!("{}", s.id);
        }
        std::process::exit(0);
    }
    if args[1] == "replay" || args[1] == "fuzzbytes" {
        if args.len() < 4 {
            usage(name);
        }
        let prop = args[2].as_str();
        if !specs.iter().any(|s| s.id == prop) {
            eprintln!("INCONCLUSIVE: family {name} does not serve {prop}");
            std::process::exit(2);
        }
        let case: F::Case = if args[1] == "replay" {
            let txt = std::fs::read_to_string(&args[3]).unwrap_or_else(|e| {
                eprintln!("INCONCLUSIVE: cannot read {}: {e}", args[3]);
                std::process::exit(2)
            });
            match serde_json::from_str::<ReplayDoc<F::Case>>(&txt) {
                Ok(doc) => doc.case,
                Err(e1) => serde_json::from_str::<F::Case>(&txt).unwrap_or_else(|e2| {
                    eprintln!("INCONCLUSIVE: replay file does not decode: {e1} / as bare case: {e2}");
                    std::process::exit(2)
                }),
            }
        } else {
            let data = std::fs::read(&args[3]).unwrap_or_else(|e| {
                eprintln!("INCONCLUSIVE: cannot read {}: {e}", args[3]);
                std::process::exit(2)
            });
            // byte 0 of a fuzz input selects the property inside the target; the stream starts at byte 1
            match case_from_bytes(&fam, prop, Tier::Quick, if data.is_empty() { &data } else { &data[1..] }) {
                Some(c) => c,
                None => {
                    println!("no case decodable from bytes");
                    std::process::exit(0)
                }
            }
        };
        let mut ctx = CaseCtx::new(prop, Tier::Quick, &known);
        let r = catch_unwind(AssertUnwindSafe(|| fam.run(prop, &case, &mut ctx)));
        match r {
            Ok(Ok(())) => {
                for (sig, n) in &ctx.known_hits {
                    if let Some((p, what)) = known.open.get(sig) {
                        println!("KNOWN-FINDING: property={p} {what} (signature={sig} hits={n})");
                    }
                }
                println!("replay: property={prop} held on this case (nontrivial={} flags={:?})", ctx.nontrivial, ctx.flags);
                std::process::exit(0);
            }
            Ok(Err(v)) => {
                let path = if args[1] == "replay" {
                    PathBuf::from(&args[3])
                } else {
                    write_replay(&root, name, prop, &case, &v)
                };
                println!("VIOLATION property={} replay={}", v.property, path.display());
                println!("  signature: {}", v.signature);
                println!("  message: {}", v.message);
                std::process::exit(1);
            }
            Err(p) => {
                eprintln!("INCONCLUSIVE: harness panic during replay: {} [{}]", crate::direct::panic_text(p), last_panic());
                std::process::exit(2);
            }
        }
    }

    if args.len() < 3 {
        usage(name);
    }
    let prop = args[1].as_str();
    let tier = match args[2].as_str() {
        "quick" => Tier::Quick,
        "thorough" => Tier::Thorough,
        _ => usage(name),
    };
    let Some(spec) = specs.iter().find(|s| s.id == prop).cloned() else {
        eprintln!("INCONCLUSIVE: family {name} does not serve {prop}");
        std::process::exit(2);
    };
    let seed = verif_seed();
    let scale: f64 = std::env::var("VERIF_SCALE").ok().and_then(|s| s.parse().ok()).unwrap_or(1.0);
    let (workers, cases) = match tier {
        Tier::Quick => (quick_workers(), ((spec.quick_cases as f64 * scale) as u32).max(1)),
        Tier::Thorough => (16usize, ((spec.thorough_cases as f64 * scale) as u32).max(1)),
    };
    let per_worker = cases.div_ceil(if tier == Tier::Quick { workers as u32 } else { 1 }).max(1);
    let start = Instant::now();

    // watchdog: a run that exceeds its wall budget is inconclusive, never a violation
    let budget_s: u64 = std::env::var("VERIF_WATCHDOG_S").ok().and_then(|s| s.parse().ok()).unwrap_or(match tier {
        Tier::Quick => 900,
        Tier::Thorough => 4 * 3600,
    });
    std::thread::spawn(move || {
        std::thread::sleep(std::time::Duration::from_secs(budget_s));
        println!("INCONCLUSIVE: watchdog after {budget_s}s");
        std::process::exit(2);
    });

    let stop = Arc::new(AtomicBool::new(false));
    let total = Arc::new(Mutex::new(Stats::default()));
    let outcomes: Arc<Mutex<Vec<Outcome<F::Case>>>> = Arc::new(Mutex::new(Vec::new()));
    let fam = Arc::new(fam);
    let known = Arc::new(known);
    std::thread::scope(|s| {
        for w in 0..workers {
            let fam = fam.clone();
            let known = known.clone();
            let stop = stop.clone();
            let total = total.clone();
            let outcomes = outcomes.clone();
            let prop = prop.to_string();
            std::thread::Builder::new()
                .stack_size(64 << 20)
                .spawn_scoped(s, move || {
                    let wseed = derive_seed(seed, w as u64, &prop);
                    let (st, out) = run_worker(&*fam, &prop, tier, per_worker, wseed, &known, &stop);
                    total.lock().unwrap().merge(st);
                    outcomes.lock().unwrap().push(out);
                })
                .expect("spawn worker");
        }
    });
    let st = std::mem::take(&mut *total.lock().unwrap());
    let wall = start.elapsed().as_secs_f64();
    let outs = std::mem::take(&mut *outcomes.lock().unwrap());

    let mut violation: Option<(F::Case, Violation)> = None;
    let mut inconclusive: Option<String> = None;
    for o in outs {
        match o {
            Outcome::Clean => {}
            Outcome::Failed { case, violation: v } => {
                if violation.is_none() {
                    violation = Some((case, v));
                }
            }
            Outcome::HarnessPanic { case, text } => {
                let js = serde_json::to_string(&case).unwrap_or_default();
                inconclusive = Some(format!("harness panic: {text}; minimal case: {js}"));
            }
            Outcome::Aborted(r) => inconclusive = Some(format!("proptest aborted: {r}")),
        }
    }

    let nviol = if violation.is_some() { 1 } else { 0 };
    write_evidence(&root, &spec, name, tier, seed, &st, wall, nviol, workers, None);

    for (sig, n) in &st.known_hits {
        if let Some((p, what)) = known.open.get(sig) {
            println!("KNOWN-FINDING: property={p} {what} (signature={sig} hits={n})");
        }
    }
    println!(
        "{prop} {}: cases={} distinct_nontrivial={} wall={:.1}s seed={seed}",
        tier.as_str(),
        st.evaluations,
        st.nontrivial.len(),
        wall
    );
    if let Some((case, v)) = violation {
        let path = write_replay(&root, name, prop, &case, &v);
        println!("VIOLATION property={} replay={}", v.property, path.display());
        println!("  signature: {}", v.signature);
        println!("  message: {}", v.message);
        std::process::exit(1);
    }
    if let Some(msg) = inconclusive {
        println!("INCONCLUSIVE: {msg}");
        std::process::exit(2);
    }
    let floor = match tier {
        Tier::Quick => ((spec.floor as f64) * scale.min(1.0)) as u64,
        Tier::Thorough => spec.floor,
    };
    if (st.nontrivial.len() as u64) < floor.max(2) {
        println!(
            "INCONCLUSIVE: only {} distinct non-trivial cases (floor {}); generator regressed",
            st.nontrivial.len(),
            floor.max(2)
        );
        std::process::exit(2);
    }
    std::process::exit(0);
}

fn quick_workers() -> usize {
    std::env::var("VERIF_QUICK_WORKERS").ok().and_then(|s| s.parse().ok()).unwrap_or(4)
}
