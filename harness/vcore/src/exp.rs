//! Expirations generated relative to the moving block so that "just before / at /
//! after expiry" are all common.
use cosmwasm_std::Timestamp;
use cw_utils::Expiration;
use proptest::prelude::*;
use serde::{Deserialize, Serialize};

#[derive(Clone, Copy, Debug, Serialize, Deserialize, PartialEq, Eq)]
pub enum ExpSpec {
    Never,
    /// height = current height + delta
    Height(i32),
    /// time = current time + delta seconds
    Time(i64),
}

impl ExpSpec {
    pub fn resolve(&self, height: u64, time: u64) -> Expiration {
        match *self {
            ExpSpec::Never => Expiration::Never {},
            ExpSpec::Height(i32::MAX) => Expiration::AtHeight(u64::MAX),
            ExpSpec::Time(i64::MAX) => Expiration::AtTime(Timestamp::from_nanos(u64::MAX)),
            ExpSpec::Height(d) => Expiration::AtHeight((height as i128 + d as i128).clamp(0, u64::MAX as i128) as u64),
            ExpSpec::Time(d) => Expiration::AtTime(Timestamp::from_seconds(
                (time as i128 + d as i128).clamp(0, (u64::MAX / 1_000_000_000) as i128) as u64,
            )),
        }
    }
}

/// Expiration semantics as documented in cw-utils: AtHeight(h) is expired when
/// block.height >= h, AtTime(t) when block.time >= t, Never never.
pub fn is_expired(e: &Expiration, height: u64, time_secs: u64) -> bool {
    match e {
        Expiration::AtHeight(h) => height >= *h,
        Expiration::AtTime(t) => Timestamp::from_seconds(time_secs) >= *t,
        Expiration::Never {} => false,
    }
}

pub fn exp_spec() -> BoxedStrategy<ExpSpec> {
    prop_oneof![
        3 => Just(ExpSpec::Never),
        6 => (-2i32..8).prop_map(ExpSpec::Height),
        6 => (-10i64..60).prop_map(ExpSpec::Time),
        1 => (0i32..10_000).prop_map(ExpSpec::Height),
        // the far end of the range: i32::MAX / i64::MAX stand for the largest height / time there is
        1 => prop_oneof![Just(ExpSpec::Height(i32::MAX)), Just(ExpSpec::Time(i64::MAX))],
    ]
    .boxed()
}

pub fn opt_exp_spec() -> BoxedStrategy<Option<ExpSpec>> {
    prop_oneof![2 => Just(None), 3 => exp_spec().prop_map(Some)].boxed()
}

pub fn arb_exp(u: &mut arbitrary::Unstructured) -> ExpSpec {
    let sel: u8 = u.arbitrary().unwrap_or(0);
    if sel == 255 {
        return if u.arbitrary::<bool>().unwrap_or(false) { ExpSpec::Height(i32::MAX) } else { ExpSpec::Time(i64::MAX) };
    }
    match sel % 5 {
        0 => ExpSpec::Never,
        1 | 2 => ExpSpec::Height(u.int_in_range(-2i32..=8).unwrap_or(0)),
        _ => ExpSpec::Time(u.int_in_range(-10i64..=60).unwrap_or(0)),
    }
}

pub fn arb_opt_exp(u: &mut arbitrary::Unstructured) -> Option<ExpSpec> {
    if u.arbitrary::<u8>().unwrap_or(0) % 5 < 2 {
        None
    } else {
        Some(arb_exp(u))
    }
}

/// same as `is_expired`, block time given in nanoseconds
pub fn is_expired_ns(e: &Expiration, height: u64, time_nanos: u64) -> bool {
    match e {
        Expiration::AtHeight(h) => height >= *h,
        Expiration::AtTime(t) => Timestamp::from_nanos(time_nanos) >= *t,
        Expiration::Never {} => false,
    }
}

impl ExpSpec {
    /// resolve against a block time in nanoseconds (sub-second part preserved)
    pub fn resolve_ns(&self, height: u64, time_nanos: u64) -> Expiration {
        match *self {
            ExpSpec::Never => Expiration::Never {},
            ExpSpec::Height(i32::MAX) => Expiration::AtHeight(u64::MAX),
            ExpSpec::Time(i64::MAX) => Expiration::AtTime(Timestamp::from_nanos(u64::MAX)),
            ExpSpec::Height(d) => Expiration::AtHeight((height as i128 + d as i128).clamp(0, u64::MAX as i128) as u64),
            ExpSpec::Time(d) => Expiration::AtTime(Timestamp::from_nanos((time_nanos as i128 + d as i128 * 1_000_000_000).clamp(0, u64::MAX as i128) as u64)),
        }
    }
}
