//! Direct driver: calls a contract's entry points natively on a cloneable store.
//! A call is a transaction: on `Err` or panic the store is rolled back, which is
//! the chain's semantics (several handlers write before later fallible steps and
//! rely on the abort-reverts-everything rule; `Uint128 +` panics on overflow).
use crate::store::MemStore;
use cosmwasm_std::testing::{MockApi, MockQuerier};
use cosmwasm_std::{
    from_json, Addr, Binary, BlockInfo, Coin, ContractInfo, Deps, DepsMut, Empty, Env,
    MessageInfo, QuerierWrapper, Response, StdResult, Timestamp, TransactionInfo,
};
use serde::de::DeserializeOwned;
use std::fmt::Display;
use std::panic::{catch_unwind, AssertUnwindSafe};

pub const START_HEIGHT: u64 = 12_345;
pub const START_TIME: u64 = 1_571_797_419;

#[derive(Clone)]
pub struct Direct {
    pub store: MemStore,
    pub api: MockApi,
    pub height: u64,
    pub time: u64, // seconds
    /// sub-second part of the block time in nanoseconds (0 unless a family moves it)
    pub nanos: u32,
    pub contract: Addr,
    /// the chain-level (wasm module) admin of the contract under test, i.e. who may migrate it; answered
    /// to `WasmQuery::ContractInfo` about the contract's own address. None: the chain knows no admin.
    pub chain_admin: Option<Addr>,
    /// other contracts the chain knows: address -> (text that occurs in the query message, JSON answer) pairs;
    /// the first pair whose text occurs in the smart query answers it ("" matches every query) - an obliging
    /// peer, e.g. a proxy that says `{"can_execute":true}` to whoever asks. Nothing asks unless the contract
    /// under test does.
    pub peers: std::collections::BTreeMap<String, Vec<(String, Vec<u8>)>>,
    /// what the staking module reports for the contract under test: (validator, accumulated rewards) of its
    /// delegations (each of 1000 units of the bonded denom `uatom`); empty: it has delegated nothing
    pub delegations: Vec<(String, Vec<Coin>)>,
    pub calls_ok: u64,
    pub calls_err: u64,
    pub calls_panic: u64,
}

impl Default for Direct {
    fn default() -> Self {
        Self::new()
    }
}

pub fn panic_text(p: Box<dyn std::any::Any + Send>) -> String {
    if let Some(s) = p.downcast_ref::<&str>() {
        s.to_string()
    } else if let Some(s) = p.downcast_ref::<String>() {
        s.clone()
    } else {
        "non-string panic".to_string()
    }
}

impl Direct {
    pub fn new() -> Self {
        let api = MockApi::default();
        let contract = api.addr_make("contract-under-test");
        Direct {
            store: MemStore::new(),
            api,
            height: START_HEIGHT,
            time: START_TIME,
            nanos: 0,
            contract,
            chain_admin: None,
            peers: Default::default(),
            delegations: vec![],
            calls_ok: 0,
            calls_err: 0,
            calls_panic: 0,
        }
    }

    pub fn block(&self) -> BlockInfo {
        BlockInfo {
            height: self.height,
            time: Timestamp::from_seconds(self.time).plus_nanos(self.nanos as u64),
            chain_id: "verif-chain".to_string(),
        }
    }

    pub fn env(&self) -> Env {
        Env {
            block: self.block(),
            transaction: Some(TransactionInfo { index: 0 }),
            contract: ContractInfo { address: self.contract.clone() },
        }
    }

    pub fn advance(&mut self, blocks: u64, secs: u64) {
        self.height = self.height.saturating_add(blocks);
        self.time = self.time.saturating_add(secs);
    }

    /// block time in nanoseconds
    pub fn now_ns(&self) -> u64 {
        self.time.saturating_mul(1_000_000_000).saturating_add(self.nanos as u64)
    }

    /// move the clock by a sub-second amount (carrying into the seconds)
    pub fn advance_nanos(&mut self, n: u32) {
        let total = self.nanos as u64 + n as u64;
        self.time = self.time.saturating_add(total / 1_000_000_000);
        self.nanos = (total % 1_000_000_000) as u32;
    }

    pub fn info(sender: &Addr, funds: &[Coin]) -> MessageInfo {
        MessageInfo { sender: sender.clone(), funds: funds.to_vec() }
    }

    /// The querier handed to the contract: the mock chain knows exactly one contract, the one under test
    /// (code id 1, created by "creator", admin = `chain_admin`).
    fn querier(&self) -> MockQuerier<Empty> {
        let mut q: MockQuerier<Empty> = MockQuerier::default();
        let me = self.contract.clone();
        let admin = self.chain_admin.clone();
        let creator = self.api.addr_make("creator");
        let peers = self.peers.clone();
        if !self.delegations.is_empty() {
            let validators: Vec<cosmwasm_std::Validator> = self.delegations.iter().map(|(v, _)| cosmwasm_std::Validator::create(v.clone(), cosmwasm_std::Decimal::percent(5), cosmwasm_std::Decimal::percent(20), cosmwasm_std::Decimal::percent(1))).collect();
            let delegations: Vec<cosmwasm_std::FullDelegation> = self.delegations.iter().map(|(v, rewards)| cosmwasm_std::FullDelegation::create(me.clone(), v.clone(), Coin::new(1000u128, "uatom"), Coin::new(1000u128, "uatom"), rewards.clone())).collect();
            q.staking.update("uatom", &validators, &delegations);
        }
        q.update_wasm(move |w| match w {
            cosmwasm_std::WasmQuery::Smart { contract_addr, msg } if peers.contains_key(contract_addr) => {
                let text = String::from_utf8_lossy(msg.as_slice()).to_string();
                match peers[contract_addr].iter().find(|(needle, _)| text.contains(needle.as_str())) {
                    Some((_, answer)) => cosmwasm_std::SystemResult::Ok(cosmwasm_std::ContractResult::Ok(cosmwasm_std::Binary::from(answer.clone()))),
                    None => cosmwasm_std::SystemResult::Ok(cosmwasm_std::ContractResult::Err("unknown query".to_string())),
                }
            }
            cosmwasm_std::WasmQuery::ContractInfo { contract_addr } if peers.contains_key(contract_addr) => {
                let info = cosmwasm_std::ContractInfoResponse::new(2, creator.clone(), None, false, None);
                cosmwasm_std::SystemResult::Ok(cosmwasm_std::ContractResult::Ok(cosmwasm_std::to_json_binary(&info).unwrap()))
            }
            cosmwasm_std::WasmQuery::ContractInfo { contract_addr } if *contract_addr == me.as_str() => {
                let info = cosmwasm_std::ContractInfoResponse::new(1, creator.clone(), admin.clone(), false, None);
                cosmwasm_std::SystemResult::Ok(cosmwasm_std::ContractResult::Ok(cosmwasm_std::to_json_binary(&info).unwrap()))
            }
            cosmwasm_std::WasmQuery::ContractInfo { contract_addr } | cosmwasm_std::WasmQuery::Smart { contract_addr, .. } | cosmwasm_std::WasmQuery::Raw { contract_addr, .. } => {
                cosmwasm_std::SystemResult::Err(cosmwasm_std::SystemError::NoSuchContract { addr: contract_addr.clone() })
            }
            _ => cosmwasm_std::SystemResult::Err(cosmwasm_std::SystemError::UnsupportedRequest { kind: "wasm".into() }),
        });
        q
    }

    /// Run a state-changing entry point as one transaction.
    pub fn tx<E: Display>(
        &mut self,
        f: impl FnOnce(DepsMut, Env) -> Result<Response, E>,
    ) -> Result<Response, String> {
        let snapshot = self.store.clone();
        let env = self.env();
        let querier: MockQuerier<Empty> = self.querier();
        let api = self.api;
        let store = &mut self.store;
        let r = catch_unwind(AssertUnwindSafe(|| {
            let deps = DepsMut { storage: store, api: &api, querier: QuerierWrapper::new(&querier) };
            f(deps, env)
        }));
        match r {
            Ok(Ok(resp)) => {
                self.calls_ok += 1;
                Ok(resp)
            }
            Ok(Err(e)) => {
                self.store = snapshot;
                self.calls_err += 1;
                Err(e.to_string())
            }
            Err(p) => {
                self.store = snapshot;
                self.calls_panic += 1;
                Err(format!("panic: {}", panic_text(p)))
            }
        }
    }

    /// Run a query entry point; a query panic is reported as an error string
    /// starting with "panic:".
    pub fn query<T: DeserializeOwned>(
        &self,
        f: impl FnOnce(Deps, Env) -> StdResult<Binary>,
    ) -> Result<T, String> {
        let env = self.env();
        let querier: MockQuerier<Empty> = self.querier();
        let api = self.api;
        let r = catch_unwind(AssertUnwindSafe(|| {
            let deps = Deps { storage: &self.store, api: &api, querier: QuerierWrapper::new(&querier) };
            f(deps, env)
        }));
        match r {
            Ok(Ok(bin)) => from_json::<T>(&bin).map_err(|e| format!("decode: {e}")),
            Ok(Err(e)) => Err(e.to_string()),
            Err(p) => Err(format!("panic: {}", panic_text(p))),
        }
    }

    pub fn raw(&self, key: &[u8]) -> Option<Vec<u8>> {
        use cosmwasm_std::Storage;
        self.store.get(key)
    }
}

const BECH32_CHARSET: &[u8; 32] = b"qpzry9x8gf2tvdw0s3jn54khce6mua7l";

fn bech32_polymod(values: &[u8]) -> u32 {
    const GEN: [u32; 5] = [0x3b6a57b2, 0x26508e6d, 0x1ea119fa, 0x3d4233dd, 0x2a1462b3];
    let mut chk: u32 = 1;
    for v in values {
        let b = chk >> 25;
        chk = ((chk & 0x1ff_ffff) << 5) ^ (*v as u32);
        for (i, g) in GEN.iter().enumerate() {
            if (b >> i) & 1 == 1 {
                chk ^= g;
            }
        }
    }
    chk
}

/// A second valid address that continues `short`: its text starts with the whole text of `short` (data and
/// checksum), followed by six more data characters and its own checksum (a 40-byte address). In key order it
/// follows `short` directly, and `short` is a strict prefix of it - the one shape of neighbouring keys that
/// equal-length addresses never produce.
pub fn extended_addr(api: &cosmwasm_std::testing::MockApi, short: &cosmwasm_std::Addr) -> cosmwasm_std::Addr {
    use cosmwasm_std::Api;
    let text = short.as_str();
    let (hrp, data) = text.split_once('1').expect("bech32 separator");
    let mut vals: Vec<u8> = data.bytes().map(|c| BECH32_CHARSET.iter().position(|x| *x == c).expect("bech32 character") as u8).collect();
    assert_eq!(vals.len(), 58, "addr_make gives 32-byte addresses");
    // 58 + 6 characters = 320 bits = 40 bytes, no padding bits
    vals.extend_from_slice(&[7, 0, 19, 4, 31, 9]);
    let mut expanded: Vec<u8> = hrp.bytes().map(|c| c >> 5).collect();
    expanded.push(0);
    expanded.extend(hrp.bytes().map(|c| c & 31));
    expanded.extend_from_slice(&vals);
    expanded.extend_from_slice(&[0; 6]);
    let pm = bech32_polymod(&expanded) ^ 1;
    let mut out = format!("{hrp}1");
    for v in &vals {
        out.push(BECH32_CHARSET[*v as usize] as char);
    }
    for i in 0..6 {
        out.push(BECH32_CHARSET[((pm >> (5 * (5 - i))) & 31) as usize] as char);
    }
    api.addr_validate(&out).expect("the extended address is a valid address")
}
