//! Cloneable in-memory storage with the same observable behaviour as
//! `cosmwasm_std::MemoryStorage` (which is not `Clone`).
use cosmwasm_std::{Order, Record, Storage};
use std::collections::BTreeMap;
use std::ops::Bound;

#[derive(Default, Clone, Debug, PartialEq, Eq)]
pub struct MemStore {
    pub data: BTreeMap<Vec<u8>, Vec<u8>>,
}

impl MemStore {
    pub fn new() -> Self {
        Self::default()
    }
}

impl Storage for MemStore {
    fn get(&self, key: &[u8]) -> Option<Vec<u8>> {
        self.data.get(key).cloned()
    }

    fn set(&mut self, key: &[u8], value: &[u8]) {
        if value.is_empty() {
            panic!("Value must not be empty in Storage::set");
        }
        self.data.insert(key.to_vec(), value.to_vec());
    }

    fn remove(&mut self, key: &[u8]) {
        self.data.remove(key);
    }

    fn range<'a>(
        &'a self,
        start: Option<&[u8]>,
        end: Option<&[u8]>,
        order: Order,
    ) -> Box<dyn Iterator<Item = Record> + 'a> {
        if let (Some(s), Some(e)) = (start, end) {
            if s > e {
                return Box::new(std::iter::empty());
            }
        }
        let lo = start.map_or(Bound::Unbounded, |x| Bound::Included(x.to_vec()));
        let hi = end.map_or(Bound::Unbounded, |x| Bound::Excluded(x.to_vec()));
        let it = self.data.range((lo, hi)).map(|(k, v)| (k.clone(), v.clone()));
        match order {
            Order::Ascending => Box::new(it),
            Order::Descending => Box::new(it.rev()),
        }
    }
}
