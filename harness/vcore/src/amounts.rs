//! Edge-biased numeric strategies shared by the families.
use proptest::prelude::*;

pub fn edge_u128() -> BoxedStrategy<u128> {
    prop_oneof![
        4 => Just(0u128),
        4 => Just(1u128),
        2 => Just(2u128),
        14 => 0u128..1000,
        6 => 0u128..=1_000_000,
        2 => Just(1u128 << 32),
        2 => Just(u64::MAX as u128),
        2 => Just(1u128 << 64),
        2 => (0u128..1000).prop_map(|k| (1u128 << 64) + k),
        1 => Just(1u128 << 127),
        1 => Just(u128::MAX - 1),
        2 => Just(u128::MAX),
        1 => (0u128..1000).prop_map(|k| u128::MAX - k),
        4 => any::<u128>(),
    ]
    .boxed()
}

/// Mostly small amounts (so sums stay in range and histories stay live),
/// with occasional extremes.
pub fn mostly_small_u128() -> BoxedStrategy<u128> {
    prop_oneof![
        3 => Just(0u128),
        3 => Just(1u128),
        30 => 0u128..1000,
        6 => 0u128..=1_000_000,
        1 => Just(u64::MAX as u128),
        1 => Just(1u128 << 64),
        1 => Just(u128::MAX),
        1 => any::<u128>(),
    ]
    .boxed()
}

pub fn edge_u64() -> BoxedStrategy<u64> {
    prop_oneof![
        4 => Just(0u64),
        4 => Just(1u64),
        2 => Just(2u64),
        14 => 0u64..100,
        6 => 0u64..=1_000_000,
        2 => Just(1u64 << 32),
        1 => Just((1u64 << 32) - 1),
        1 => Just(1u64 << 63),
        1 => Just(u64::MAX - 1),
        2 => Just(u64::MAX),
        3 => any::<u64>(),
    ]
    .boxed()
}

/// map a 16-bit selector monotonically onto 0..len (len > 0)
pub fn pick(ix: u16, len: usize) -> usize {
    ((ix as usize) * len) >> 16
}

/// edge-biased u128 from fuzz bytes
pub fn arb_u128(u: &mut arbitrary::Unstructured) -> u128 {
    let sel: u8 = u.arbitrary().unwrap_or(0);
    match sel % 16 {
        0 => 0,
        1 => 1,
        2 => 2,
        3..=7 => u.arbitrary::<u16>().unwrap_or(0) as u128 % 1000,
        8 => u.arbitrary::<u32>().unwrap_or(0) as u128,
        9 => 1u128 << 32,
        10 => u64::MAX as u128,
        11 => (1u128 << 64) + (u.arbitrary::<u8>().unwrap_or(0) as u128),
        12 => 1u128 << 127,
        13 => u128::MAX - (u.arbitrary::<u8>().unwrap_or(0) as u128 % 3),
        _ => u.arbitrary::<u128>().unwrap_or(0),
    }
}

pub fn arb_u64(u: &mut arbitrary::Unstructured) -> u64 {
    let sel: u8 = u.arbitrary().unwrap_or(0);
    match sel % 12 {
        0 => 0,
        1 => 1,
        2 => 2,
        3..=6 => u.arbitrary::<u8>().unwrap_or(0) as u64 % 100,
        7 => u.arbitrary::<u32>().unwrap_or(0) as u64,
        8 => 1u64 << 32,
        9 => u64::MAX - (u.arbitrary::<u8>().unwrap_or(0) as u64 % 3),
        10 => 1u64 << 63,
        _ => u.arbitrary::<u64>().unwrap_or(0),
    }
}

pub fn arb_below(u: &mut arbitrary::Unstructured, n: usize) -> usize {
    if n <= 1 {
        0
    } else {
        u.int_in_range(0..=n - 1).unwrap_or(0)
    }
}

pub fn arb_bool(u: &mut arbitrary::Unstructured, num: u8, den: u8) -> bool {
    (u.arbitrary::<u8>().unwrap_or(0) % den.max(1)) < num
}
