//! Chain driver pieces for the multisig family: a cw-multi-test App with the real
//! contracts, a Recorder contract used as the target of proposal messages (its log
//! is rollback-aware because it lives in contract storage), panic-safe calls.
use cosmwasm_schema::cw_serde;
use cosmwasm_std::{
    to_json_binary, Addr, Binary, Coin, Deps, DepsMut, Empty, Env, MessageInfo, Response, StdError,
    StdResult,
};
use cw_multi_test::{App, AppResponse, Contract, ContractWrapper, Executor};
use cw_storage_plus::Item;
use serde::Serialize;
use std::panic::{catch_unwind, AssertUnwindSafe};

#[cw_serde]
pub enum RecExec {
    Record { tag: u64, idx: u32 },
    SetFault { on: bool },
}

#[cw_serde]
pub enum RecQuery {
    Log {},
}

const LOG: Item<Vec<(u64, u32)>> = Item::new("log");
const FAULT: Item<bool> = Item::new("fault");

fn rec_instantiate(deps: DepsMut, _env: Env, _info: MessageInfo, _msg: Empty) -> StdResult<Response> {
    LOG.save(deps.storage, &vec![])?;
    FAULT.save(deps.storage, &false)?;
    Ok(Response::default())
}

fn rec_execute(deps: DepsMut, _env: Env, _info: MessageInfo, msg: RecExec) -> StdResult<Response> {
    match msg {
        RecExec::Record { tag, idx } => {
            if FAULT.load(deps.storage)? {
                return Err(StdError::generic_err("recorder fault switch is on"));
            }
            let mut l = LOG.load(deps.storage)?;
            l.push((tag, idx));
            LOG.save(deps.storage, &l)?;
            Ok(Response::default())
        }
        RecExec::SetFault { on } => {
            FAULT.save(deps.storage, &on)?;
            Ok(Response::default())
        }
    }
}

fn rec_query(deps: Deps, _env: Env, msg: RecQuery) -> StdResult<Binary> {
    match msg {
        RecQuery::Log {} => to_json_binary(&LOG.load(deps.storage)?),
    }
}

pub fn recorder_contract() -> Box<dyn Contract<Empty>> {
    Box::new(ContractWrapper::new(rec_execute, rec_instantiate, rec_query))
}

/// A contract that acts for its operator: it sends on whatever messages it is given (a minimal proxy / DAO
/// treasury). It has no cw20 Receive handler and answers no queries - tokens can reach it by plain transfer only.
#[cw_serde]
pub enum RelayExec {
    Relay { msgs: Vec<cosmwasm_std::CosmosMsg> },
}

fn relay_instantiate(_deps: DepsMut, _env: Env, _info: MessageInfo, _msg: Empty) -> StdResult<Response> {
    Ok(Response::default())
}

fn relay_execute(_deps: DepsMut, _env: Env, _info: MessageInfo, msg: RelayExec) -> StdResult<Response> {
    match msg {
        RelayExec::Relay { msgs } => Ok(Response::new().add_messages(msgs)),
    }
}

fn relay_query(_deps: Deps, _env: Env, _msg: Empty) -> StdResult<Binary> {
    Err(StdError::generic_err("the relay answers no queries"))
}

pub fn relay_contract() -> Box<dyn Contract<Empty>> {
    Box::new(ContractWrapper::new(relay_execute, relay_instantiate, relay_query))
}

/// `try_exec` with `sender` as the caller; when `sender` is the relay contract the call is made by the relay
/// (its operator hands it the message, the funds come out of the relay's own balance)
pub fn exec_as<T: Serialize + std::fmt::Debug>(app: &mut App, relay: Option<&Addr>, operator: &Addr, sender: &Addr, contract: &Addr, msg: &T, funds: &[Coin]) -> Result<AppResponse, String> {
    if relay == Some(sender) {
        let inner = cosmwasm_std::WasmMsg::Execute { contract_addr: contract.to_string(), msg: to_json_binary(msg).map_err(|e| e.to_string())?, funds: funds.to_vec() };
        try_exec(app, operator, sender, &RelayExec::Relay { msgs: vec![inner.into()] }, &[])
    } else {
        try_exec(app, sender, contract, msg, funds)
    }
}

pub fn fixed_contract() -> Box<dyn Contract<Empty>> {
    Box::new(ContractWrapper::new(
        cw3_fixed_multisig::contract::execute,
        cw3_fixed_multisig::contract::instantiate,
        cw3_fixed_multisig::contract::query,
    ))
}

pub fn flex_contract() -> Box<dyn Contract<Empty>> {
    Box::new(ContractWrapper::new(
        cw3_flex_multisig::contract::execute,
        cw3_flex_multisig::contract::instantiate,
        cw3_flex_multisig::contract::query,
    ))
}

pub fn group_contract() -> Box<dyn Contract<Empty>> {
    Box::new(ContractWrapper::new(
        cw4_group::contract::execute,
        cw4_group::contract::instantiate,
        cw4_group::contract::query,
    ))
}

pub fn cw20_contract() -> Box<dyn Contract<Empty>> {
    Box::new(ContractWrapper::new(
        cw20_base::contract::execute,
        cw20_base::contract::instantiate,
        cw20_base::contract::query,
    ))
}

fn panic_text(p: Box<dyn std::any::Any + Send>) -> String {
    if let Some(s) = p.downcast_ref::<&str>() {
        s.to_string()
    } else if let Some(s) = p.downcast_ref::<String>() {
        s.clone()
    } else {
        "non-string panic".into()
    }
}

/// Execute as one transaction; a contract panic is a failed call (the App commits only on success).
pub fn try_exec<T: Serialize + std::fmt::Debug>(app: &mut App, sender: &Addr, contract: &Addr, msg: &T, funds: &[Coin]) -> Result<AppResponse, String> {
    let r = catch_unwind(AssertUnwindSafe(|| app.execute_contract(sender.clone(), contract.clone(), msg, funds)));
    match r {
        Ok(Ok(resp)) => Ok(resp),
        Ok(Err(e)) => Err(format!("{:#}", e)),
        Err(p) => Err(format!("panic: {}", panic_text(p))),
    }
}

pub fn try_instantiate<T: Serialize>(app: &mut App, code: u64, sender: &Addr, msg: &T, label: &str) -> Result<Addr, String> {
    let r = catch_unwind(AssertUnwindSafe(|| app.instantiate_contract(code, sender.clone(), msg, &[], label, None)));
    match r {
        Ok(Ok(a)) => Ok(a),
        Ok(Err(e)) => Err(format!("{:#}", e)),
        Err(p) => Err(format!("panic: {}", panic_text(p))),
    }
}

pub fn try_query<T: serde::de::DeserializeOwned, Q: Serialize>(app: &App, contract: &Addr, msg: &Q) -> Result<T, String> {
    let r = catch_unwind(AssertUnwindSafe(|| app.wrap().query_wasm_smart::<T>(contract.to_string(), msg)));
    match r {
        Ok(Ok(v)) => Ok(v),
        Ok(Err(e)) => Err(e.to_string()),
        Err(p) => Err(format!("panic: {}", panic_text(p))),
    }
}
