//! Contract-level cw3 properties on both multisigs through a cw-multi-test chain:
//! C03 (status == outcome implied by the ballots), C05 (execute at most once, lifecycle
//! only forward), C06 (one ballot per eligible voter, weights from the proposal's snapshot),
//! C15 (cw3-flex proposal deposits).
use crate::chain::*;
use crate::model::{can_still_pass, ceil_mul, certain_pass, passes_at_expiry, Tally, Thr};
use cosmwasm_std::{coins, to_json_binary, Addr, BankMsg, Coin, CosmosMsg, Decimal, Empty, Uint128, WasmMsg};
use cw20::{BalanceResponse, Cw20Coin, Cw20ExecuteMsg, Cw20QueryMsg, UncheckedDenom};
use cw3::{ProposalListResponse, ProposalResponse, Status, UncheckedDepositInfo, Vote, VoteListResponse, VoterListResponse};
use cw4::{Member, MemberListResponse};
use cw_multi_test::{App, BankSudo, Executor, SudoMsg};
use cw_utils::{Duration, Expiration, ThresholdResponse};
use proptest::prelude::*;
use serde::{Deserialize, Serialize};
use std::collections::{BTreeMap, BTreeSet};
use vcore::amounts::pick;
use vcore::exp::{is_expired_ns as is_expired, ExpSpec};
use vcore::{CaseCtx, Family, PropSpec, Tier, Violation};

pub const N_ACTORS: usize = 7;
pub const DEP_DENOM: &str = "udep";
pub const SPEND_DENOM: &str = "uspend";

// ------------------------------------------------------------------ case types

#[derive(Clone, Copy, Debug, Serialize, Deserialize, PartialEq)]
pub enum PSpec {
    /// k * 1e-9 (clamped into the valid range)
    Nine(u32),
    /// a hair above the rational j/(total - sub): (floor(j*1e9/base) + delta) * 1e-9
    Near { j: u16, sub: u8, delta: u8 },
    /// all 18 decimals used: floor(S * 1e18 / total) + hair (in units of 1e-18), where S is the combined
    /// weight of the initial voters selected by `mask` - the share of a reachable Yes tally, so that the
    /// rounding of the required weight is decided by the digits beyond the ninth decimal
    Share18 { mask: u8, hair: i8 },
}

#[derive(Clone, Copy, Debug, Serialize, Deserialize, PartialEq)]
pub enum ThrSpec {
    /// weight = 1 + sel mapped onto 0..total
    Count(u16),
    Pct(PSpec),
    Quorum(PSpec, PSpec),
}

#[derive(Clone, Copy, Debug, Serialize, Deserialize, PartialEq)]
pub enum Dur {
    Height(u32),
    Time(u32),
}

#[derive(Clone, Copy, Debug, Serialize, Deserialize, PartialEq)]
pub enum ExecSpec {
    Anyone,
    Member,
    Only(u8),
}

#[derive(Clone, Copy, Debug, Serialize, Deserialize, PartialEq)]
pub struct DepSpec {
    pub cw20: bool,
    pub amount: u128,
    pub refund_failed: bool,
}

#[derive(Clone, Debug, Serialize, Deserialize, PartialEq)]
pub enum Flavour {
    Fixed,
    Flex {
        executor: ExecSpec,
        deposit: Option<DepSpec>,
        /// register the multisig as a hook of its group
        hook: bool,
        /// blocks between creating the group and the first op (0 = same block)
        settle_blocks: u8,
    },
}

#[derive(Clone, Copy, Debug, Serialize, Deserialize, PartialEq)]
pub enum Pay {
    None,
    Exact,
    Short,
    Excess,
    WrongDenom,
    ExtraCoin,
    /// the exact deposit coin listed twice in the funds (cw20 deposits: as Exact)
    Twice,
    /// the exact amount in the bank denomination that differs from the deposit's in letter case only - another
    /// token (cw20 deposits: no payment)
    CaseDenom,
}

#[derive(Clone, Copy, Debug, Serialize, Deserialize, PartialEq)]
pub enum PRef {
    Own,
    Other(u16),
}

#[derive(Clone, Debug, Serialize, Deserialize, PartialEq)]
pub enum PMsg {
    Record,
    BankSend { to: u8, amt: u32 },
    /// pay `amt` of the DEPOSIT token (native or cw20, as configured) out of the multisig's pool to an actor
    SpendDeposit { to: u8, amt: u32 },
    ReExecute(PRef),
    ReVote(PRef),
    ReClose(PRef),
    /// the multisig proposes to itself (a nested Propose without any payment). Only built on flex
    /// multisigs that take a cw20 deposit, where such a proposal can never be paid for (a token
    /// contract grants no allowance on one's own account), so the nested call - and with it the whole
    /// Execute - fails; everywhere else it stands for a Record message
    RePropose,
}

/// who performs an op: a fixed actor, or a state-relative choice resolved by the interpreter
#[derive(Clone, Copy, Debug, Serialize, Deserialize, PartialEq)]
pub enum By {
    Actor(u8),
    /// k-th current member / voter (any weight); actor 0 if there is none
    Member(u16),
    /// k-th address that may still vote on the targeted proposal (snapshot weight >= 1, no ballot yet)
    Fresh(u16),
}

/// which proposal an op targets
#[derive(Clone, Copy, Debug, Serialize, Deserialize, PartialEq)]
pub enum Target {
    Any(u16),
    /// k-th proposal for which the op makes sense (vote: not expired; execute: Passed; close: expired and not passed)
    Apt(u16),
}

/// requested expiry of a proposal
#[derive(Clone, Copy, Debug, Serialize, Deserialize, PartialEq)]
pub enum Latest {
    None,
    Spec(ExpSpec),
    /// exactly the end of the maximum voting period, plus k blocks (height periods) / k nanoseconds (time periods)
    AtMax(i8),
}

#[derive(Clone, Debug, Serialize, Deserialize, PartialEq)]
pub enum Op {
    Propose { by: By, msgs: Vec<PMsg>, latest: Latest, pay: Pay },
    Vote { by: By, prop: Target, vote: u8 },
    Execute { by: By, prop: Target },
    Close { by: By, prop: Target },
    Advance { blocks: u8, secs: u16 },
    /// move the chain so that proposal `prop` expires in `delta` blocks / seconds (<= 0: is expired)
    ToExpiry { prop: u16, delta: i8 },
    GroupUpdate { add: Vec<(u8, u64)>, remove: Vec<u8> },
    Fault { on: bool },
    Fund { amt: u32 },
    /// refill the multisig's pool of the deposit token
    FundDeposit { amt: u32 },
    /// the group's admin gives the role up for good (UpdateAdmin to none): from then on the group cannot change
    GroupRenounce,
    /// every silent voter / member (the ones that otherwise never act) casts the same vote on one proposal:
    /// proposals with more ballots than any page or batch holds (C03, C05)
    SilentVotes { prop: Target, vote: u8 },
}

#[derive(Clone, Debug, Serialize, Deserialize, PartialEq)]
pub struct MCase {
    pub flavour: Flavour,
    /// weights of additional voters / group members that never act (groups larger than one page)
    #[serde(default)]
    pub silent: Vec<u64>,
    pub voters: Vec<(u8, u64)>,
    pub thr: ThrSpec,
    pub period: Dur,
    pub ops: Vec<Op>,
    /// flex: the multisig is a (weight 1) member of its own group
    #[serde(default)]
    pub self_member: bool,
    /// flex, C15: the last actor is a contract (a relay its operator acts through) instead of a plain account
    #[serde(default)]
    pub contract_actor: bool,
}

// ------------------------------------------------------------------ strategies

fn actor() -> impl Strategy<Value = u8> {
    0u8..N_ACTORS as u8
}

fn weight() -> BoxedStrategy<u64> {
    prop_oneof![
        5 => Just(0u64),
        8 => Just(1u64),
        10 => 1u64..6,
        4 => 6u64..100,
        1 => Just(1u64 << 32),
        1 => prop_oneof![Just(1u64 << 60), Just(1u64 << 63), Just(u64::MAX)],
        // token-sized weights (a staking-backed group): k * 10^12 give or take a little
        3 => (1u64..4, -3000i64..3000).prop_map(|(k, off)| ((k * 1_000_000_000_000) as i64 + off) as u64),
    ]
    .boxed()
}

fn pspec() -> BoxedStrategy<PSpec> {
    prop_oneof![
        3 => prop_oneof![Just(500_000_000u32), Just(510_000_000), Just(600_000_000), Just(666_666_667), Just(750_000_000), Just(1_000_000_000), Just(100_000_000), Just(250_000_000), Just(333_333_334), Just(1)].prop_map(PSpec::Nine),
        2 => (0u32..=1_000_000_000).prop_map(PSpec::Nine),
        3 => (any::<u16>(), 0u8..3, 0u8..3).prop_map(|(j, sub, delta)| PSpec::Near { j, sub, delta }),
        2 => (1u8..32, -1i8..=1).prop_map(|(mask, hair)| PSpec::Share18 { mask, hair }),
    ]
    .boxed()
}

fn thr_spec() -> BoxedStrategy<ThrSpec> {
    prop_oneof![
        3 => any::<u16>().prop_map(ThrSpec::Count),
        4 => pspec().prop_map(ThrSpec::Pct),
        5 => (pspec(), pspec()).prop_map(|(t, q)| ThrSpec::Quorum(t, q)),
    ]
    .boxed()
}

fn dur_for(prop: &str) -> BoxedStrategy<Dur> {
    if prop == "C06" {
        // C06 follows snapshots over long stretches more often
        prop_oneof![10 => (1u32..12).prop_map(Dur::Height), 10 => (1u32..120).prop_map(Dur::Time), 3 => Just(Dur::Height(2_500_000))].boxed()
    } else if prop == "C05" {
        // a zero period is accepted at instantiation: every proposal is born expired (nobody but the proposer votes)
        prop_oneof![24 => dur(), 1 => Just(Dur::Height(0)), 1 => Just(Dur::Time(0))].boxed()
    } else {
        dur()
    }
}

fn dur() -> BoxedStrategy<Dur> {
    // the long period (millions of blocks, as in the contract's own tests) keeps proposals open across
    // `Advance { blocks: 255 }`, which stands for 1 000 001 blocks
    prop_oneof![12 => (1u32..12).prop_map(Dur::Height), 12 => (1u32..120).prop_map(Dur::Time), 1 => Just(Dur::Height(2_500_000))].boxed()
}

fn latest() -> BoxedStrategy<Latest> {
    prop_oneof![
        8 => Just(Latest::None),
        2 => (-2i32..14).prop_map(|d| Latest::Spec(ExpSpec::Height(d))),
        2 => (-10i64..150).prop_map(|d| Latest::Spec(ExpSpec::Time(d))),
        1 => Just(Latest::Spec(ExpSpec::Never)),
        3 => (-2i8..=2).prop_map(Latest::AtMax),
    ]
    .boxed()
}

fn pref() -> impl Strategy<Value = PRef> {
    prop_oneof![1 => Just(PRef::Own), 2 => any::<u16>().prop_map(PRef::Other)]
}

fn pmsgs(prop: &str) -> BoxedStrategy<Vec<PMsg>> {
    match prop {
        "C05" => proptest::collection::vec(
            prop_oneof![
                16 => Just(PMsg::Record),
                6 => (actor(), prop_oneof![1 => Just(0u32), 7 => 1u32..60]).prop_map(|(to, amt)| PMsg::BankSend { to, amt }),
                1 => (actor(), 1u32..60, any::<bool>()).prop_map(|(to, amt, padded)| PMsg::BankSend { to: if padded { 200 + to } else { 100 + to }, amt }),
                4 => pref().prop_map(PMsg::ReExecute),
                2 => pref().prop_map(PMsg::ReVote),
                2 => pref().prop_map(PMsg::ReClose),
            ],
            0..4,
        )
        // a proposal may well carry the same message twice in a row (e.g. two equal payments)
        .prop_flat_map(|v| (Just(v), proptest::option::weighted(0.3, any::<u16>())))
        .prop_map(|(mut v, dup)| {
            if let (Some(k), false) = (dup, v.is_empty()) {
                let i = pick(k, v.len());
                let m = v[i].clone();
                v.insert(i, m);
            }
            v
        })
        .boxed(),
        // (ReClose: the multisig itself closes a proposal while executing another one - a Close like any other)
        "C15" => proptest::collection::vec(prop_oneof![12 => Just(PMsg::Record), 8 => (actor(), 0u32..40).prop_map(|(to, amt)| PMsg::SpendDeposit { to, amt }), 2 => Just(PMsg::SpendDeposit { to: 255, amt: u32::MAX }), 2 => Just(PMsg::RePropose), 3 => pref().prop_map(PMsg::ReClose)], 0..3).boxed(),
        _ => Just(vec![]).boxed(),
    }
}

fn pay(prop: &str) -> BoxedStrategy<Pay> {
    if prop == "C15" {
        prop_oneof![12 => Just(Pay::Exact), 2 => Just(Pay::None), 2 => Just(Pay::Short), 2 => Just(Pay::Excess), 1 => Just(Pay::WrongDenom), 1 => Just(Pay::ExtraCoin), 1 => Just(Pay::Twice), 1 => Just(Pay::CaseDenom)].boxed()
    } else {
        // a quarter of the flex multisigs of the other properties require a deposit too; it is mostly paid
        prop_oneof![8 => Just(Pay::Exact), 1 => Just(Pay::None)].boxed()
    }
}

fn by_member() -> BoxedStrategy<By> {
    prop_oneof![3 => any::<u16>().prop_map(By::Member), 1 => actor().prop_map(By::Actor)].boxed()
}
fn by_voter() -> BoxedStrategy<By> {
    prop_oneof![4 => any::<u16>().prop_map(By::Fresh), 1 => any::<u16>().prop_map(By::Member), 1 => actor().prop_map(By::Actor)].boxed()
}
fn target() -> BoxedStrategy<Target> {
    prop_oneof![3 => any::<u16>().prop_map(Target::Apt), 1 => any::<u16>().prop_map(Target::Any)].boxed()
}

fn op(prop: &str) -> BoxedStrategy<Op> {
    let propose = (by_member(), pmsgs(prop), latest(), pay(prop)).prop_map(|(by, msgs, latest, pay)| Op::Propose { by, msgs, latest, pay }).boxed();
    let vote = (by_voter(), target(), prop_oneof![5 => Just(0u8), 3 => Just(1u8), 2 => Just(2u8), 1 => Just(3u8)]).prop_map(|(by, prop, vote)| Op::Vote { by, prop, vote }).boxed();
    let execute = (by_member(), target()).prop_map(|(by, prop)| Op::Execute { by, prop }).boxed();
    let close = (by_member(), target()).prop_map(|(by, prop)| Op::Close { by, prop }).boxed();
    let advance = prop_oneof![24 => (0u8..4, 0u16..40).prop_map(|(blocks, secs)| Op::Advance { blocks, secs }), 1 => Just(Op::Advance { blocks: 255, secs: 0 })].boxed();
    let to_expiry = (any::<u16>(), -2i8..=2).prop_map(|(prop, delta)| Op::ToExpiry { prop, delta }).boxed();
    // remove lists may name the same address several times (and addresses that are also added)
    let removes = prop_oneof![
        6 => proptest::collection::vec(actor(), 0..3),
        2 => (actor(), 2usize..4).prop_map(|(a, n)| vec![a; n]),
        1 => (actor(), actor()).prop_map(|(a, b)| vec![a, b, a]),
    ];
    let group = (proptest::collection::vec((actor(), weight()), 0..4), removes).prop_map(|(add, remove)| Op::GroupUpdate { add, remove }).boxed();
    let fault = any::<bool>().prop_map(|on| Op::Fault { on }).boxed();
    let fund = (0u32..200).prop_map(|amt| Op::Fund { amt }).boxed();
    let fund_dep = (0u32..60).prop_map(|amt| Op::FundDeposit { amt }).boxed();
    let silent_votes = (target(), prop_oneof![6 => Just(0u8), 1 => Just(1u8), 1 => Just(2u8)]).prop_map(|(prop, vote)| Op::SilentVotes { prop, vote }).boxed();
    match prop {
        "C03" => prop_oneof![12 => propose, 28 => vote, 8 => execute, 8 => close, 6 => advance, 8 => to_expiry, 4 => group, 1 => silent_votes].boxed(),
        "C05" => prop_oneof![12 => propose, 20 => vote, 18 => execute, 8 => close, 4 => advance, 6 => to_expiry, 6 => fault, 4 => fund, 4 => group, 1 => silent_votes].boxed(),
        "C06" => prop_oneof![18 => propose, 36 => vote, 6 => execute, 3 => close, 12 => advance, 6 => to_expiry, 24 => group, 1 => Just(Op::GroupRenounce)].boxed(),
        // C15: group changes between Propose and Execute / Close must not touch anybody's deposit
        _ => prop_oneof![8 => propose, 10 => vote, 6 => execute, 6 => close, 2 => advance, 4 => to_expiry, 1 => fund_dep, 3 => group].boxed(),
    }
}

fn voters(prop: &str, fixed: bool) -> BoxedStrategy<Vec<(u8, u64)>> {
    let distinct = proptest::collection::btree_map(actor(), weight(), 1..=N_ACTORS).prop_map(|m| m.into_iter().collect::<Vec<_>>()).boxed();
    if prop == "C06" && fixed {
        prop_oneof![2 => distinct, 3 => proptest::collection::vec((actor(), weight()), 1..8)].boxed()
    } else if fixed {
        prop_oneof![9 => distinct, 1 => proptest::collection::vec((actor(), weight()), 1..8)].boxed()
    } else if prop == "C06" {
        // (a group list that names an address twice - verbatim or with another weight - is refused by the group)
        prop_oneof![12 => distinct, 1 => proptest::collection::vec((actor(), prop_oneof![Just(1u64), Just(5u64), weight()]), 2..8)].boxed()
    } else {
        distinct
    }
}

fn flavour(prop: &str) -> BoxedStrategy<Flavour> {
    let exec = |p: &str| -> BoxedStrategy<ExecSpec> {
        if p == "C05" {
            // (indices 100 and 101: a configured executor address nobody can ever send from - the upper-case spelling
            // of an account, a plain name: it is stored as given and authorises nobody)
            prop_oneof![12 => Just(ExecSpec::Anyone), 8 => Just(ExecSpec::Member), 7 => actor().prop_map(ExecSpec::Only), 1 => (100u8..102).prop_map(ExecSpec::Only)].boxed()
        } else {
            prop_oneof![8 => Just(ExecSpec::Anyone), 1 => Just(ExecSpec::Member), 1 => actor().prop_map(ExecSpec::Only)].boxed()
        }
    };
    let dep = (any::<bool>(), prop_oneof![3 => 1u128..20, 1 => 20u128..400], any::<bool>()).prop_map(|(cw20, amount, refund_failed)| DepSpec { cw20, amount, refund_failed });
    let settle = if prop == "C06" { prop_oneof![1 => Just(0u8), 6 => 1u8..3].boxed() } else { (1u8..3).boxed() };
    let flex = match prop {
        "C15" => (exec(prop), dep.prop_map(Some), any::<bool>(), settle).prop_map(|(executor, deposit, hook, settle_blocks)| Flavour::Flex { executor, deposit, hook, settle_blocks }).boxed(),
        _ => (exec(prop), proptest::option::weighted(0.25, dep), any::<bool>(), settle).prop_map(|(executor, deposit, hook, settle_blocks)| Flavour::Flex { executor, deposit, hook, settle_blocks }).boxed(),
    };
    match prop {
        "C15" => flex,
        _ => prop_oneof![1 => Just(Flavour::Fixed), 1 => flex].boxed(),
    }
}

pub fn mcase_strategy(prop: &str, tier: Tier) -> BoxedStrategy<MCase> {
    let max_ops = match tier {
        Tier::Quick => 26usize,
        Tier::Thorough => 60usize,
    };
    let prop_s = prop.to_string();
    flavour(prop)
        .prop_flat_map(move |fl| {
            let fixed = matches!(fl, Flavour::Fixed);
            let single = op(&prop_s).prop_map(|o| vec![o]).boxed();
            // a proposal followed by a burst of votes from addresses that may still vote
            let campaign = (by_member(), pmsgs(&prop_s), pay(&prop_s), proptest::collection::vec((any::<u16>(), prop_oneof![6 => Just(0u8), 2 => Just(1u8), 1 => Just(2u8), 1 => Just(3u8)]), 1..5))
                .prop_map(|(by, msgs, pay, votes)| {
                    let mut g = vec![Op::Propose { by, msgs, latest: Latest::None, pay: if pay == Pay::None { Pay::None } else { Pay::Exact } }];
                    for (k, vote) in votes {
                        g.push(Op::Vote { by: By::Fresh(k), prop: Target::Any(u16::MAX), vote });
                    }
                    g
                })
                .boxed();
            // dispatch fails while the fault switch is on, then the same proposal is retried
            let retry = (any::<u16>(), by_member()).prop_map(|(k, by)| vec![Op::Fault { on: true }, Op::Execute { by, prop: Target::Apt(k) }, Op::Fault { on: false }, Op::Execute { by, prop: Target::Apt(k) }]).boxed();
            // C06: a proposal that stays open for a very long time while one member's weight is changed twice,
            // more than a million blocks apart, before that member votes (its ballot still carries the
            // weight of the proposal's own snapshot)
            let long_haul = (by_member(), actor(), weight(), weight(), any::<bool>())
                .prop_map(|(by, a, w1, w2, remove_first)| {
                    vec![
                        Op::Propose { by, msgs: vec![], latest: Latest::None, pay: Pay::Exact },
                        Op::Advance { blocks: 2, secs: 10 },
                        if remove_first { Op::GroupUpdate { add: vec![], remove: vec![a] } } else { Op::GroupUpdate { add: vec![(a, w1)], remove: vec![] } },
                        Op::Advance { blocks: 255, secs: 0 },
                        Op::GroupUpdate { add: vec![(a, w2)], remove: vec![] },
                        Op::Advance { blocks: 1, secs: 5 },
                        Op::Vote { by: By::Actor(a), prop: Target::Any(u16::MAX), vote: 0 },
                    ]
                })
                .boxed();
            // the very same proposal submitted twice in a row by one member: two proposals, two ids
            let twice = (by_member(), pay(&prop_s)).prop_map(|(by, pay)| {
                let p = Op::Propose { by, msgs: vec![], latest: Latest::None, pay: if pay == Pay::None { Pay::None } else { Pay::Exact } };
                vec![p.clone(), p]
            }).boxed();
            // C06: the proposer leaves the group right after proposing, somebody tries to close the proposal at
            // once, the snapshot's voters vote on
            let leaver = (actor(), by_member(), any::<u16>(), any::<u16>())
                .prop_map(|(a, closer, k1, k2)| {
                    vec![
                        Op::Propose { by: By::Actor(a), msgs: vec![], latest: Latest::None, pay: Pay::Exact },
                        Op::GroupUpdate { add: vec![], remove: vec![a] },
                        Op::Close { by: closer, prop: Target::Any(u16::MAX) },
                        Op::Vote { by: By::Fresh(k1), prop: Target::Any(u16::MAX), vote: 0 },
                        Op::Vote { by: By::Fresh(k2), prop: Target::Any(u16::MAX), vote: 0 },
                    ]
                })
                .boxed();
            // C06: a proposal is voted through, the group then grows by a heavy member, the voting period runs
            // out, and only then somebody executes
            let grown = (by_member(), proptest::collection::vec(any::<u16>(), 2..5), actor(), prop_oneof![Just(50u64), Just(1u64 << 32), 6u64..100], by_member())
                .prop_map(|(by, votes, a, wt, executor)| {
                    let mut g = vec![Op::Propose { by, msgs: vec![], latest: Latest::None, pay: Pay::Exact }];
                    for k in votes {
                        g.push(Op::Vote { by: By::Fresh(k), prop: Target::Any(u16::MAX), vote: 0 });
                    }
                    g.push(Op::GroupUpdate { add: vec![(a, wt)], remove: vec![] });
                    g.push(Op::ToExpiry { prop: u16::MAX, delta: 0 });
                    g.push(Op::Execute { by: executor, prop: Target::Any(u16::MAX) });
                    g
                })
                .boxed();
            // C05: a heavy member is removed in the very block a proposal is opened in; the others vote it down; the
            // removed member (still a voter by the proposal's snapshot) then votes Yes; somebody tries to execute.
            // Once reported Rejected a proposal stays Rejected, whatever arrives later
            let shrunk = (actor(), by_member(), any::<u16>(), any::<u16>(), by_member())
                .prop_map(|(a, by, k1, k2, executor)| {
                    vec![
                        Op::GroupUpdate { add: vec![(a, 12)], remove: vec![] },
                        Op::Advance { blocks: 1, secs: 5 },
                        Op::GroupUpdate { add: vec![], remove: vec![a] },
                        Op::Propose { by, msgs: vec![], latest: Latest::None, pay: Pay::Exact },
                        Op::Vote { by: By::Fresh(k1), prop: Target::Any(u16::MAX), vote: 1 },
                        Op::Vote { by: By::Fresh(k2), prop: Target::Any(u16::MAX), vote: 1 },
                        Op::Vote { by: By::Actor(a), prop: Target::Any(u16::MAX), vote: 0 },
                        Op::Execute { by: executor, prop: Target::Any(u16::MAX) },
                    ]
                })
                .boxed();
            // C06: a member joins after a proposal was opened, the group's admin then renounces (the group is frozen
            // from now on), and the newcomer tries to vote on the old proposal
            let frozen = (by_member(), actor(), prop_oneof![Just(3u64), Just(9u64), 1u64..6], any::<u16>())
                .prop_map(|(by, a, wt, k)| {
                    vec![
                        Op::Propose { by, msgs: vec![], latest: Latest::None, pay: Pay::Exact },
                        Op::Advance { blocks: 1, secs: 5 },
                        Op::GroupUpdate { add: vec![(a, wt)], remove: vec![] },
                        Op::GroupRenounce,
                        Op::Vote { by: By::Actor(a), prop: Target::Any(u16::MAX), vote: 0 },
                        Op::Vote { by: By::Fresh(k), prop: Target::Any(u16::MAX), vote: 0 },
                    ]
                })
                .boxed();
            let groups = if prop_s == "C05" {
                prop_oneof![24 => single, 6 => campaign, 4 => retry, 2 => twice, 1 => shrunk].boxed()
            } else if prop_s == "C06" {
                prop_oneof![24 => single, 6 => campaign, 2 => long_haul, 2 => leaver, 2 => grown, 1 => frozen].boxed()
            } else {
                // (C15 too: the very same message-less proposal submitted twice in a row is two proposals, two deposits)
                prop_oneof![24 => single, 6 => campaign, 1 => twice].boxed()
            };
            let silent = prop_oneof![5 => Just(vec![]), 1 => proptest::collection::vec(weight(), 1..4), 2 => proptest::collection::vec(weight(), 4..12)];
            (Just(fl), voters(&prop_s, fixed), silent, thr_spec(), dur_for(&prop_s), proptest::collection::vec(groups, 0..max_ops).prop_map(|g| g.into_iter().flatten().collect::<Vec<_>>()))
        })
        .prop_flat_map(|c| (Just(c), proptest::bool::weighted(0.15), proptest::bool::weighted(0.2)))
        .prop_map(|((flavour, voters, silent, thr, period, ops), self_member, contract_actor)| MCase { flavour, silent, voters, thr, period, ops, self_member, contract_actor })
        .boxed()
}

// ------------------------------------------------------------------ helpers

fn resolve_p(p: PSpec, lo9: u128, total: u64, weights: &[u64]) -> u128 {
    if let PSpec::Share18 { mask, hair } = p {
        let s: u128 = weights.iter().enumerate().filter(|(i, _)| mask & (1 << (i % 8)) != 0).map(|(_, w)| *w as u128).sum();
        let t = (total as u128).max(1);
        let p18 = cosmwasm_std::Uint256::from(s.min(t)) * cosmwasm_std::Uint256::from(1_000_000_000_000_000_000u128) / cosmwasm_std::Uint256::from(t);
        let p18: u128 = p18.to_string().parse().unwrap_or(1_000_000_000_000_000_000);
        let p18 = if hair >= 0 { p18.saturating_add(hair as u128) } else { p18.saturating_sub(1) };
        return p18.clamp(lo9.max(1) * 1_000_000_000, 1_000_000_000_000_000_000);
    }
    let nine = match p {
        PSpec::Nine(k) => k as u128,
        PSpec::Near { j, sub, delta } => {
            let base = (total as u128).saturating_sub(sub as u128).max(1);
            let jj = pick(j, (base.min(u64::MAX as u128 - 1) + 1).min(1 << 40) as usize) as u128;
            let jj = if base > (1 << 40) { jj * (base >> 40) } else { jj };
            jj.min(base) * 1_000_000_000 / base + delta as u128
        }
        PSpec::Share18 { .. } => unreachable!(),
    };
    nine.clamp(lo9.max(1), 1_000_000_000) * 1_000_000_000
}

fn resolve_thr(t: ThrSpec, total: u64, weights: &[u64]) -> Thr {
    match t {
        ThrSpec::Count(sel) => {
            if total == 0 {
                Thr::Count(1)
            } else {
                Thr::Count(1 + (((sel as u128) * (total as u128)) >> 16) as u64)
            }
        }
        ThrSpec::Pct(p) => Thr::Pct(resolve_p(p, 500_000_000, total, weights)),
        ThrSpec::Quorum(t, q) => Thr::Quorum { threshold: resolve_p(t, 500_000_000, total, weights), quorum: resolve_p(q, 1, total, weights) },
    }
}

fn thr_from_response(r: &ThresholdResponse) -> (Thr, u64) {
    let at = |d: &Decimal| d.atomics().u128();
    match r {
        ThresholdResponse::AbsoluteCount { weight, total_weight } => (Thr::Count(*weight), *total_weight),
        ThresholdResponse::AbsolutePercentage { percentage, total_weight } => (Thr::Pct(at(percentage)), *total_weight),
        ThresholdResponse::ThresholdQuorum { threshold, quorum, total_weight } => (Thr::Quorum { threshold: at(threshold), quorum: at(quorum) }, *total_weight),
    }
}

fn to_vote(v: u8) -> Vote {
    match v % 4 {
        0 => Vote::Yes,
        1 => Vote::No,
        2 => Vote::Abstain,
        _ => Vote::Veto,
    }
}

#[derive(Clone, Debug, PartialEq)]
pub struct PObs {
    pub id: u64,
    pub status: Status,
    pub expires: Expiration,
    pub thr: Thr,
    pub total: u64,
    pub proposer: String,
    pub title: String,
    pub description: String,
    pub msgs: Vec<CosmosMsg>,
    pub has_deposit: bool,
    pub ballots: BTreeMap<String, (Vote, u64)>,
}

impl PObs {
    fn tally(&self) -> Option<Tally> {
        let mut t = Tally::default();
        for (v, w) in self.ballots.values() {
            let slot = match v {
                Vote::Yes => &mut t.yes,
                Vote::No => &mut t.no,
                Vote::Abstain => &mut t.abstain,
                Vote::Veto => &mut t.veto,
            };
            *slot = slot.checked_add(*w)?;
        }
        Some(t)
    }
}

#[derive(Clone, Debug, PartialEq)]
struct Obs {
    props: Vec<PObs>,
    /// per address (actors then multisig): [dep denom, spend denom, cw20]
    bal: Vec<[u128; 3]>,
    log: Vec<(u64, u32)>,
    /// current group members (flex) / voters (fixed)
    members: BTreeMap<String, u64>,
}

struct World {
    app: App,
    actors: Vec<Addr>,
    faucet: Addr,
    multisig: Addr,
    group: Option<Addr>,
    recorder: Addr,
    cw20: Option<Addr>,
    fixed: bool,
    executor: ExecSpec,
    deposit: Option<DepSpec>,
    /// the actor that is a contract, if any
    relay: Option<Addr>,
    silent: Vec<Addr>,
}

/// recipient and amount of a `SpendDeposit` message: recipient 255 is the proposer itself, amount u32::MAX exactly
/// the configured deposit (a proposal that pays its proposer the very sum its deposit refund pays)
fn spend_target(to: u8, amt: u32, proposer: usize, deposit: u128) -> (usize, u128) {
    (if to == 255 { proposer } else { to as usize % N_ACTORS }, if amt == u32::MAX { deposit } else { amt as u128 })
}

/// the address an `ExecSpec::Only` index stands for (100, 101: strings that are nobody's address)
fn only_addr(actors: &[Addr], i: u8) -> Addr {
    match i {
        100 => Addr::unchecked(actors[0].to_string().to_uppercase()),
        101 => Addr::unchecked("executor"),
        _ => actors[i as usize % N_ACTORS].clone(),
    }
}

fn v(prop: &str, sig: &str, msg: String) -> Violation {
    Violation::new(prop, &format!("{prop}/{sig}"), msg)
}

/// model record of one proposal
#[derive(Clone, Debug)]
struct PModel {
    id: u64,
    tag: u64,
    proposer: usize,
    msgs: Vec<PMsg>,
    created_height: u64,
    created_time: u64,
    /// membership snapshot the proposal was opened against (flex: start of its block; fixed: the voter list)
    snap: BTreeMap<String, u64>,
    /// a successful group change happened earlier in the proposal's own block (F5 precondition)
    same_block_change: bool,
    /// group's current membership at propose time (post-change value; F5 signature)
    current_at_propose: BTreeMap<String, u64>,
    f5_adopted: bool,
    executed: bool,
    closed: bool,
    last_status: Status,
    seen: BTreeSet<u8>,
    rejected_before_expiry: bool,
    /// it was reported Rejected before expiry although it was not voted down: with its No weight alone
    /// (Veto ballots set aside) a pass was still possible
    early_rejection_unjustified: bool,
    /// first observation (content is fixed at creation)
    first: PObs,
    deposit_held: bool,
    deposit_returned: bool,
    failed_execute_seen: bool,
    retried_ok: bool,
    /// an Execute call targeting this proposal has returned success (whatever the status says afterwards)
    execute_succeeded: bool,
    /// per message: the proposal id a re-entrant message (ReExecute / ReVote / ReClose) names
    ref_ids: Vec<Option<u64>>,
}

impl World {
    fn q<T: serde::de::DeserializeOwned, Q: Serialize>(&self, c: &Addr, m: &Q) -> Result<T, String> {
        try_query(&self.app, c, m)
    }

    fn height(&self) -> u64 {
        self.app.block_info().height
    }
    fn time(&self) -> u64 {
        self.app.block_info().time.nanos()
    }

    fn native(&self, a: &Addr, denom: &str) -> u128 {
        self.app.wrap().query_balance(a.to_string(), denom).map(|c| c.amount.u128()).unwrap_or(0)
    }

    fn observe(&self) -> Result<Obs, String> {
        use cw3_fixed_multisig::msg::QueryMsg as Q;
        // ids are 1..; page through ListProposals
        let mut props = vec![];
        let mut cursor: Option<u64> = None;
        loop {
            let page: ProposalListResponse = self.q(&self.multisig, &Q::ListProposals { start_after: cursor, limit: Some(30) })?;
            if page.proposals.is_empty() {
                break;
            }
            cursor = page.proposals.last().map(|p| p.id);
            for p in page.proposals {
                let single: ProposalResponse = self.q(&self.multisig, &Q::Proposal { proposal_id: p.id })?;
                if single != p {
                    return Err(format!("LIST-MISMATCH: ListProposals and Proposal{{{}}} disagree: {:?} vs {:?}", p.id, p.status, single.status));
                }
                let mut ballots = BTreeMap::new();
                let mut vc: Option<String> = None;
                loop {
                    let vp: VoteListResponse = self.q(&self.multisig, &Q::ListVotes { proposal_id: p.id, start_after: vc.clone(), limit: Some(30) })?;
                    if vp.votes.is_empty() {
                        break;
                    }
                    vc = vp.votes.last().map(|x| x.voter.clone());
                    for b in vp.votes {
                        if ballots.insert(b.voter.clone(), (b.vote, b.weight)).is_some() {
                            return Err(format!("DUP-BALLOT: ListVotes lists {} twice on proposal {}", b.voter, p.id));
                        }
                    }
                }
                let (thr, total) = thr_from_response(&p.threshold);
                props.push(PObs { id: p.id, status: p.status, expires: p.expires, thr, total, proposer: p.proposer.to_string(), title: p.title, description: p.description, msgs: p.msgs, has_deposit: p.deposit.is_some(), ballots });
            }
            if props.len() > 10_000 {
                return Err("ListProposals does not terminate".into());
            }
        }
        let mut bal = vec![];
        for a in self.actors.iter().chain(std::iter::once(&self.multisig)) {
            let c = match &self.cw20 {
                Some(t) => self.q::<BalanceResponse, _>(t, &Cw20QueryMsg::Balance { address: a.to_string() })?.balance.u128(),
                None => 0,
            };
            bal.push([self.native(a, DEP_DENOM), self.native(a, SPEND_DENOM), c]);
        }
        let log: Vec<(u64, u32)> = self.q(&self.recorder, &RecQuery::Log {})?;
        let mut members = BTreeMap::new();
        if self.fixed {
            let mut c: Option<String> = None;
            loop {
                let page: VoterListResponse = self.q(&self.multisig, &Q::ListVoters { start_after: c.clone(), limit: Some(30) })?;
                if page.voters.is_empty() {
                    break;
                }
                c = page.voters.last().map(|x| x.addr.clone());
                for m in page.voters {
                    members.insert(m.addr, m.weight);
                }
            }
        } else if let Some(g) = &self.group {
            let mut c: Option<String> = None;
            loop {
                let page: MemberListResponse = self.q(g, &cw4_group::msg::QueryMsg::ListMembers { start_after: c.clone(), limit: Some(30) })?;
                if page.members.is_empty() {
                    break;
                }
                c = page.members.last().map(|x| x.addr.clone());
                for m in page.members {
                    members.insert(m.addr, m.weight);
                }
            }
        }
        Ok(Obs { props, bal, log, members })
    }

    fn authorised(&self, who: &Addr, members: &BTreeMap<String, u64>) -> bool {
        if self.fixed {
            return true;
        }
        match self.executor {
            ExecSpec::Anyone => true,
            ExecSpec::Member => members.contains_key(who.as_str()),
            ExecSpec::Only(i) => only_addr(&self.actors, i) == *who,
        }
    }
}

fn status_rank_ok(from: Status, to: Status) -> bool {
    use Status::*;
    if from == to {
        return true;
    }
    matches!((from, to), (Open, Passed) | (Open, Rejected) | (Open, Executed) | (Passed, Executed))
}

fn status_code(s: Status) -> u8 {
    s as u8
}

// ------------------------------------------------------------------ interpreter

pub fn run_mcase(prop: &str, case: &MCase, ctx: &mut CaseCtx) -> Result<(), Violation> {
    let mut app = App::default();
    // block time keeps its sub-second part; the interpreter reasons in nanoseconds
    let mut actors: Vec<Addr> = (0..N_ACTORS).map(|i| app.api().addr_make(&format!("actor{i}"))).collect();
    let faucet = app.api().addr_make("faucet");
    // C15: the last actor may be a contract its operator (the faucet) acts through; it pays, votes, executes and
    // closes like any member, and holds its tokens like any account
    let relay: Option<Addr> = if case.contract_actor && prop == "C15" && matches!(case.flavour, Flavour::Flex { .. }) {
        let code = app.store_code(relay_contract());
        let a = try_instantiate(&mut app, code, &faucet, &Empty {}, "relay").expect("relay");
        actors[N_ACTORS - 1] = a.clone();
        ctx.count("contract_actor");
        Some(a)
    } else {
        None
    };
    let admin = app.api().addr_make("group-admin");
    let fixed = matches!(case.flavour, Flavour::Fixed);
    let (executor, deposit, hook, settle_blocks) = match &case.flavour {
        Flavour::Fixed => (ExecSpec::Anyone, None, false, 1u8),
        Flavour::Flex { executor, deposit, hook, settle_blocks } => (*executor, *deposit, *hook, *settle_blocks),
    };
    let qerr = |e: String| -> Violation {
        if e.starts_with("DUP-BALLOT") {
            v(prop, "ballot-listed-twice", e)
        } else if e.starts_with("LIST-MISMATCH") {
            v(prop, "list-vs-point-query", e)
        } else {
            v(prop, "query-failed", format!("a query failed or panicked: {e}"))
        }
    };

    // ---- funding
    let mint = |app: &mut App, to: &Addr, denom: &str, amt: u128| {
        app.sudo(SudoMsg::Bank(BankSudo::Mint { to_address: to.to_string(), amount: coins(amt, denom) })).expect("mint");
    };
    let dep_amount = deposit.map(|d| d.amount).unwrap_or(10);
    for a in &actors {
        mint(&mut app, a, DEP_DENOM, dep_amount * 3 + 2);
        mint(&mut app, a, &DEP_DENOM.to_uppercase(), dep_amount * 3 + 2);
        mint(&mut app, a, SPEND_DENOM, 5);
    }
    mint(&mut app, &faucet, SPEND_DENOM, 1_000_000);
    mint(&mut app, &faucet, DEP_DENOM, 1_000_000_000_000);

    let rec_code = app.store_code(recorder_contract());
    let recorder = try_instantiate(&mut app, rec_code, &faucet, &Empty {}, "recorder").expect("recorder");
    let cw20 = if deposit.map(|d| d.cw20).unwrap_or(false) {
        let code = app.store_code(cw20_contract());
        let msg = cw20_base::msg::InstantiateMsg {
            name: "Deposit Token".into(),
            symbol: "DEP".into(),
            decimals: 6,
            initial_balances: actors.iter().map(|a| Cw20Coin { address: a.to_string(), amount: Uint128::new(dep_amount * 3 + 2) }).chain(std::iter::once(Cw20Coin { address: faucet.to_string(), amount: Uint128::new(1_000_000_000_000) })).collect(),
            mint: None,
            marketing: None,
        };
        Some(try_instantiate(&mut app, code, &faucet, &msg, "cw20").expect("cw20"))
    } else {
        None
    };

    // ---- voters / group
    let silent_addrs: Vec<Addr> = (0..case.silent.len()).map(|i| app.api().addr_make(&format!("silent{i}"))).collect();
    let total_hint: Option<u64> = if fixed {
        case.voters.iter().map(|(_, w)| *w).chain(case.silent.iter().cloned()).try_fold(0u64, |s, w| s.checked_add(w))
    } else {
        let mut m = BTreeMap::new();
        for (i, w) in &case.voters {
            m.insert(*i as usize % N_ACTORS, *w);
        }
        m.values().cloned().chain(case.silent.iter().cloned()).try_fold(0u64, |s, w| s.checked_add(w))
    };
    let voter_weights: Vec<u64> = case.voters.iter().map(|(_, w)| *w).collect();
    let thr = resolve_thr(case.thr, total_hint.unwrap_or(u64::MAX), &voter_weights);
    let period = match case.period {
        Dur::Height(h) => Duration::Height(h as u64),
        Dur::Time(t) => Duration::Time(t as u64),
    };
    let mut group: Option<Addr> = None;
    let group_created_height = app.block_info().height;
    let multisig = if fixed {
        let code = app.store_code(fixed_contract());
        let msg = cw3_fixed_multisig::msg::InstantiateMsg {
            voters: case.voters.iter().map(|(i, w)| cw3_fixed_multisig::msg::Voter { addr: actors[*i as usize % N_ACTORS].to_string(), weight: *w }).chain(silent_addrs.iter().zip(case.silent.iter()).map(|(a, w)| cw3_fixed_multisig::msg::Voter { addr: a.to_string(), weight: *w })).collect(),
            threshold: thr.to_threshold(),
            max_voting_period: period,
        };
        match try_instantiate(&mut app, code, &faucet, &msg, "fixed") {
            Ok(a) => a,
            Err(_) => {
                ctx.count("init_rejected");
                return Ok(());
            }
        }
    } else {
        let gcode = app.store_code(group_contract());
        let mut m = BTreeMap::new();
        for (i, w) in &case.voters {
            m.insert(*i as usize % N_ACTORS, *w);
        }
        // (the list goes out as generated: C06 lists may name an address twice, which the group has to refuse)
        let _ = &m;
        // (a repeat of an address is either verbatim or - at even positions of the list - spelled in upper case, which
        // is not a normalised address: refused either way)
        let mut seen_ix: BTreeSet<usize> = BTreeSet::new();
        let spelled: Vec<String> = case.voters.iter().enumerate().map(|(pos, (i, _))| {
            let ix = *i as usize % N_ACTORS;
            let repeat = !seen_ix.insert(ix);
            if repeat && pos % 2 == 0 { actors[ix].to_string().to_uppercase() } else { actors[ix].to_string() }
        }).collect();
        let gmsg = cw4_group::msg::InstantiateMsg { admin: Some(admin.to_string()), members: case.voters.iter().zip(spelled.iter()).map(|((_, w), a)| Member { addr: a.clone(), weight: *w }).chain(silent_addrs.iter().zip(case.silent.iter()).map(|(a, w)| Member { addr: a.to_string(), weight: *w })).collect() };
        let g = match try_instantiate(&mut app, gcode, &faucet, &gmsg, "group") {
            Ok(a) => a,
            Err(_) => {
                ctx.count("init_rejected");
                return Ok(());
            }
        };
        let code = app.store_code(flex_contract());
        let msg = cw3_flex_multisig::msg::InstantiateMsg {
            group_addr: g.to_string(),
            threshold: thr.to_threshold(),
            max_voting_period: period,
            executor: match executor {
                ExecSpec::Anyone => None,
                ExecSpec::Member => Some(cw3_flex_multisig::state::Executor::Member),
                ExecSpec::Only(i) => Some(cw3_flex_multisig::state::Executor::Only(only_addr(&actors, i))),
            },
            proposal_deposit: deposit.map(|d| UncheckedDepositInfo {
                amount: Uint128::new(d.amount),
                denom: if d.cw20 { UncheckedDenom::Cw20(cw20.as_ref().unwrap().to_string()) } else { UncheckedDenom::Native(DEP_DENOM.into()) },
                refund_failed_proposals: d.refund_failed,
            }),
        };
        let ms = match try_instantiate(&mut app, code, &faucet, &msg, "flex") {
            Ok(a) => a,
            Err(_) => {
                ctx.count("init_rejected");
                return Ok(());
            }
        };
        if hook {
            try_exec(&mut app, &admin, &g, &cw4_group::msg::ExecuteMsg::AddHook { addr: ms.to_string() }, &[]).expect("add hook");
        }
        // (C15 only: the re-entrancy model of C05 relies on the multisig not being a voter)
        if case.self_member && prop == "C15" {
            // (refused when the group's total is already at the top of the u64 range)
            if try_exec(&mut app, &admin, &g, &cw4_group::msg::ExecuteMsg::UpdateMembers { add: vec![Member { addr: ms.to_string(), weight: 1 }], remove: vec![] }, &[]).is_ok() {
                ctx.count("multisig_is_member_of_its_group");
            }
        }
        group = Some(g);
        ms
    };
    ctx.count("init_accepted");
    mint(&mut app, &multisig, SPEND_DENOM, 40);
    if settle_blocks > 0 {
        app.update_block(|b| {
            b.height += settle_blocks as u64;
            b.time = b.time.plus_seconds(5 * settle_blocks as u64);
        });
    }

    let mut w = World { app, actors, faucet, multisig, group, recorder, cw20, fixed, executor, deposit, relay, silent: silent_addrs.clone() };
    let n_addr = N_ACTORS; // index of the multisig in Obs.bal

    let mut pre = w.observe().map_err(qerr)?;
    // membership at the start of the current block (flex model); the group's creation block starts empty
    let mut block_start: BTreeMap<String, u64> = if settle_blocks > 0 || fixed { pre.members.clone() } else { BTreeMap::new() };
    let mut changed_this_block: bool = !fixed && settle_blocks == 0 && w.height() == group_created_height;
    let mut models: Vec<PModel> = vec![];
    let mut fault_on = false;
    let mut alive_max = 0usize;
    let mut last_refs: Vec<Option<u64>> = vec![];

    // C06 fixed: total == sum of listed voters (F4)
    if prop == "C06" && fixed {
        use cw3_fixed_multisig::msg::QueryMsg as Q;
        let t: ThresholdResponse = w.q(&w.multisig, &Q::Threshold {}).map_err(qerr)?;
        let (_, total) = thr_from_response(&t);
        let sum: u128 = pre.members.values().map(|x| *x as u128).sum();
        if total as u128 != sum {
            if !ctx.tolerate("C06/fixed-total-ne-voter-sum") {
                return Err(v(prop, "fixed-total-ne-voter-sum", format!("after instantiate with voters {:?}: threshold total_weight {} != sum of ListVoters weights {}", case.voters, total, sum)));
            }
            return Ok(());
        }
        let mut seen = BTreeSet::new();
        if case.voters.iter().any(|(i, _)| !seen.insert(*i as usize % N_ACTORS)) || case.voters.iter().any(|(_, wt)| *wt == 0) {
            ctx.flag("irregular_voter_list");
        }
    }

    let ops: Vec<Op> = case.ops.clone();
    let total_ops = ops.len();
    let mut step_no = 0usize;
    let mut sweep: Vec<Op> = vec![];
    let mut in_sweep = false;
    let mut idx = 0usize;
    loop {
        let op = if idx < total_ops {
            ops[idx].clone()
        } else {
            if !in_sweep {
                in_sweep = true;
                if prop == "C15" {
                    // recovery sweep: go past every expiry, then try to recover every deposit
                    sweep.push(Op::FundDeposit { amt: 1_000_000_000 });
                    sweep.push(Op::Advance { blocks: 200, secs: 20_000 });
                    if matches!(case.period, Dur::Height(n) if n > 150) {
                        for _ in 0..3 {
                            sweep.push(Op::Advance { blocks: 255, secs: 0 });
                        }
                    }
                    for k in 0..models.len() {
                        sweep.push(Op::Close { by: By::Actor(0), prop: Target::Any(k as u16) });
                        sweep.push(Op::Execute { by: By::Actor(255), prop: Target::Any(k as u16) });
                    }
                }
                sweep.reverse();
            }
            match sweep.pop() {
                Some(o) => o,
                None => break,
            }
        };
        idx += 1;
        step_no += 1;
        let sel = |k: u16, n: usize| -> Option<usize> {
            if n == 0 {
                None
            } else if in_sweep {
                Some((k as usize).min(n - 1))
            } else {
                Some(pick(k, n))
            }
        };
        let height = w.height();
        let time = w.time();
        // state-relative resolution of targets and senders (pure functions of `pre` and the models)
        let pick_target = |tg: &Target, what: u8| -> Option<usize> {
            match tg {
                Target::Any(k) => sel(*k, models.len()),
                Target::Apt(k) => {
                    let apt: Vec<usize> = models
                        .iter()
                        .enumerate()
                        .filter(|(_, m)| {
                            let Some(o) = pre.props.iter().find(|p| p.id == m.id) else { return false };
                            let expired = is_expired(&o.expires, height, time);
                            match what {
                                0 => !expired && o.status != Status::Executed,
                                1 => o.status == Status::Passed,
                                _ => expired && !matches!(o.status, Status::Passed | Status::Executed),
                            }
                        })
                        .map(|(i, _)| i)
                        .collect();
                    if apt.is_empty() {
                        sel(*k, models.len())
                    } else {
                        Some(apt[pick(*k, apt.len())])
                    }
                }
            }
        };
        let member_list: Vec<usize> = (0..N_ACTORS).filter(|i| pre.members.contains_key(w.actors[*i].as_str())).collect();
        let pick_by = |by: &By, target: Option<usize>| -> usize {
            match by {
                By::Actor(i) => *i as usize % N_ACTORS,
                By::Member(k) => {
                    if member_list.is_empty() {
                        0
                    } else {
                        member_list[pick(*k, member_list.len())]
                    }
                }
                By::Fresh(k) => {
                    let fresh: Vec<usize> = match target {
                        Some(t) => {
                            let m = &models[t];
                            let ballots = pre.props.iter().find(|p| p.id == m.id).map(|p| p.ballots.clone()).unwrap_or_default();
                            (0..N_ACTORS).filter(|i| m.snap.get(w.actors[*i].as_str()).copied().unwrap_or(0) >= 1 && !ballots.contains_key(w.actors[*i].as_str())).collect()
                        }
                        None => vec![],
                    };
                    if fresh.is_empty() {
                        pick(*k, N_ACTORS)
                    } else {
                        fresh[pick(*k, fresh.len())]
                    }
                }
            }
        };

        // ---------------- perform
        let done: Done = match &op {
            Op::Advance { blocks, secs } => {
                // blocks == 255 stands for a very long pause (1 000 001 blocks)
                let (b, s) = (if *blocks == 255 { 1_000_001 } else { *blocks as u64 }, *secs as u64);
                w.app.update_block(|bl| {
                    bl.height += b;
                    bl.time = bl.time.plus_seconds(s);
                });
                Done::Time
            }
            Op::ToExpiry { prop: k, delta } => {
                let live: Vec<usize> = models.iter().enumerate().filter(|(_, m)| pre.props.iter().any(|p| p.id == m.id && !is_expired(&p.expires, height, time))).map(|(i, _)| i).collect();
                let choice = if live.is_empty() { sel(*k, models.len()) } else { Some(live[pick(*k, live.len())]) };
                if let Some(i) = choice {
                    let e = pre.props.iter().find(|p| p.id == models[i].id).map(|p| p.expires);
                    match e {
                        Some(Expiration::AtHeight(h)) => {
                            let target = (h as i128 - *delta as i128).max(height as i128) as u64;
                            let d = target - height;
                            if d > 0 {
                                w.app.update_block(|bl| {
                                    bl.height += d;
                                    bl.time = bl.time.plus_seconds(d);
                                });
                            }
                        }
                        Some(Expiration::AtTime(t)) => {
                            // delta counts in seconds for |delta| = 2, in single nanoseconds for |delta| = 1
                            let off: i128 = match *delta {
                                2 => 1_000_000_000,
                                -2 => -1_000_000_000,
                                d => d as i128,
                            };
                            let target = (t.nanos() as i128 - off).max(time as i128) as u64;
                            let d = target - time;
                            if d > 0 {
                                w.app.update_block(|bl| {
                                    bl.height += 1;
                                    bl.time = bl.time.plus_nanos(d);
                                });
                            }
                        }
                        _ => {}
                    }
                }
                Done::Time
            }
            Op::Fault { on } => {
                try_exec(&mut w.app, &w.faucet.clone(), &w.recorder.clone(), &RecExec::SetFault { on: *on }, &[]).expect("set fault");
                fault_on = *on;
                Done::Other
            }
            Op::Fund { amt } => {
                if *amt > 0 {
                    let _ = catch(|| w.app.send_tokens(w.faucet.clone(), w.multisig.clone(), &coins(*amt as u128, SPEND_DENOM)));
                }
                Done::Other
            }
            Op::FundDeposit { amt } => {
                let mut moved = 0u128;
                if *amt > 0 {
                    match (&w.cw20.clone(), w.deposit.map(|d| d.cw20).unwrap_or(false)) {
                        (Some(tok), true) => {
                            if try_exec(&mut w.app, &w.faucet.clone(), tok, &Cw20ExecuteMsg::Transfer { recipient: w.multisig.to_string(), amount: Uint128::new(*amt as u128) }, &[]).is_ok() {
                                moved = *amt as u128;
                            }
                        }
                        _ => {
                            if let Some(Ok(_)) = catch(|| w.app.send_tokens(w.faucet.clone(), w.multisig.clone(), &coins(*amt as u128, DEP_DENOM))) {
                                moved = *amt as u128;
                            }
                        }
                    }
                }
                Done::FundDep { amt: moved }
            }
            Op::GroupUpdate { add, remove } => {
                if let Some(g) = w.group.clone() {
                    let msg = cw4_group::msg::ExecuteMsg::UpdateMembers {
                        remove: remove.iter().map(|i| w.actors[*i as usize % N_ACTORS].to_string()).collect(),
                        add: add.iter().map(|(i, wt)| Member { addr: w.actors[*i as usize % N_ACTORS].to_string(), weight: *wt }).collect(),
                    };
                    let ok = try_exec(&mut w.app, &admin, &g, &msg, &[]).is_ok();
                    Done::Group { ok }
                } else {
                    Done::Other
                }
            }
            Op::Propose { by, msgs, latest, pay } => {
                let by = pick_by(by, None);
                let tag = step_no as u64;
                let next_id = models.len() as u64 + 1;
                let resolve_ref = |r: &PRef| -> u64 {
                    match r {
                        PRef::Own => next_id,
                        PRef::Other(k) => {
                            if models.is_empty() {
                                next_id + 1
                            } else {
                                models[pick(*k, models.len())].id
                            }
                        }
                    }
                };
                last_refs = msgs.iter().map(|m| match m { PMsg::ReExecute(r) | PMsg::ReVote(r) | PMsg::ReClose(r) => Some(resolve_ref(r)), _ => None }).collect();
                let cmsgs: Vec<CosmosMsg> = msgs
                    .iter()
                    .enumerate()
                    .map(|(i, m)| match m {
                        PMsg::Record => WasmMsg::Execute { contract_addr: w.recorder.to_string(), msg: to_json_binary(&RecExec::Record { tag, idx: i as u32 }).unwrap(), funds: vec![] }.into(),
                                // (recipient indices from 100: the actor's address spelled in upper case; from 200: with blanks
                        // around it - other strings than the actor's address: whatever the bank makes of them, the payment
                        // is dispatched as written and the actor's own account gets nothing)
                        PMsg::BankSend { to, amt } => BankMsg::Send { to_address: match *to { 200..=u8::MAX => format!(" {} ", w.actors[*to as usize % N_ACTORS]), 100..=199 => w.actors[*to as usize % N_ACTORS].to_string().to_uppercase(), _ => w.actors[*to as usize % N_ACTORS].to_string() }, amount: coins(*amt as u128, SPEND_DENOM) }.into(),
                        PMsg::SpendDeposit { to, amt } => {
                            let (to, amt) = spend_target(*to, *amt, by, w.deposit.map(|d| d.amount).unwrap_or(1));
                            match (&w.cw20, w.deposit.map(|d| d.cw20).unwrap_or(false)) {
                                (Some(tok), true) => WasmMsg::Execute { contract_addr: tok.to_string(), msg: to_json_binary(&Cw20ExecuteMsg::Transfer { recipient: w.actors[to].to_string(), amount: Uint128::new(amt) }).unwrap(), funds: vec![] }.into(),
                                _ => BankMsg::Send { to_address: w.actors[to].to_string(), amount: coins(amt, DEP_DENOM) }.into(),
                            }
                        }
                        PMsg::RePropose if !w.fixed && w.deposit.map(|d| d.cw20).unwrap_or(false) => WasmMsg::Execute {
                            contract_addr: w.multisig.to_string(),
                            msg: to_json_binary(&cw3_fixed_multisig::msg::ExecuteMsg::Propose { title: "nested".into(), description: "proposed by the multisig itself".into(), msgs: vec![], latest: None }).unwrap(),
                            funds: vec![],
                        }
                        .into(),
                        PMsg::RePropose => WasmMsg::Execute { contract_addr: w.recorder.to_string(), msg: to_json_binary(&RecExec::Record { tag, idx: i as u32 }).unwrap(), funds: vec![] }.into(),
                        PMsg::ReExecute(r) => WasmMsg::Execute { contract_addr: w.multisig.to_string(), msg: to_json_binary(&cw3_fixed_multisig::msg::ExecuteMsg::Execute { proposal_id: resolve_ref(r) }).unwrap(), funds: vec![] }.into(),
                        PMsg::ReVote(r) => WasmMsg::Execute { contract_addr: w.multisig.to_string(), msg: to_json_binary(&cw3_fixed_multisig::msg::ExecuteMsg::Vote { proposal_id: resolve_ref(r), vote: Vote::Yes }).unwrap(), funds: vec![] }.into(),
                        PMsg::ReClose(r) => WasmMsg::Execute { contract_addr: w.multisig.to_string(), msg: to_json_binary(&cw3_fixed_multisig::msg::ExecuteMsg::Close { proposal_id: resolve_ref(r) }).unwrap(), funds: vec![] }.into(),
                    })
                    .collect();
                let latest_e = match latest {
                    Latest::None => None,
                    Latest::Spec(e) => Some(e.resolve_ns(height, time)),
                    // the end of the maximum voting period, +k blocks resp. +k nanoseconds
                    Latest::AtMax(k) => Some(match case.period {
                        Dur::Height(n) => Expiration::AtHeight((height as i128 + n as i128 + *k as i128).max(0) as u64),
                        Dur::Time(secs) => Expiration::AtTime(cosmwasm_std::Timestamp::from_nanos((time as i128 + secs as i128 * 1_000_000_000 + *k as i128).max(0) as u64)),
                    }),
                };
                let mut funds: Vec<Coin> = vec![];
                if let Some(d) = w.deposit {
                    if d.cw20 {
                        let allow = match pay {
                            Pay::Exact | Pay::Twice => Some(d.amount),
                            Pay::Short => Some(d.amount - 1),
                            Pay::Excess => Some(d.amount + 5),
                            _ => None,
                        };
                        if let (Some(a), Some(tok)) = (allow, w.cw20.clone()) {
                            if a > 0 {
                                let _ = exec_as(&mut w.app, w.relay.clone().as_ref(), &w.faucet.clone(), &w.actors[by].clone(), &tok, &Cw20ExecuteMsg::IncreaseAllowance { spender: w.multisig.to_string(), amount: Uint128::new(a), expires: None }, &[]);
                            }
                        }
                    } else {
                        match pay {
                            Pay::None => {}
                            Pay::Exact => funds = coins(d.amount, DEP_DENOM),
                            Pay::Short => {
                                if d.amount > 1 {
                                    funds = coins(d.amount - 1, DEP_DENOM)
                                }
                            }
                            Pay::Excess => funds = coins(d.amount + 1, DEP_DENOM),
                            Pay::WrongDenom => funds = coins(d.amount.min(5), SPEND_DENOM),
                            Pay::ExtraCoin => funds = vec![Coin::new(d.amount, DEP_DENOM), Coin::new(1u128, SPEND_DENOM)],
                            Pay::Twice => funds = vec![Coin::new(d.amount, DEP_DENOM), Coin::new(d.amount, DEP_DENOM)],
                            Pay::CaseDenom => funds = coins(d.amount, DEP_DENOM.to_uppercase()),
                        }
                    }
                }
                // the allowance step above is part of this op: re-observe so that `pre` is the state right before the propose
                if w.deposit.map(|d| d.cw20).unwrap_or(false) {
                    pre = w.observe().map_err(qerr)?;
                }
                // proposals without messages all read the same: the same member may well submit the very same
                // proposal twice in a row (each submission is a proposal of its own, with its own id)
                // (a description may well be left empty)
                let (title, description) = if msgs.is_empty() { ("plain".to_string(), if tag % 3 == 0 { String::new() } else { "no messages".to_string() }) } else { (format!("t{tag}"), if tag % 5 == 0 { String::new() } else { format!("d{tag}") }) };
                let msg = cw3_fixed_multisig::msg::ExecuteMsg::Propose { title, description, msgs: cmsgs, latest: latest_e };
                let r = exec_as(&mut w.app, w.relay.clone().as_ref(), &w.faucet.clone(), &w.actors[by].clone(), &w.multisig.clone(), &msg, &funds);
                let id = r.as_ref().ok().and_then(|resp| {
                    resp.events.iter().flat_map(|e| e.attributes.iter()).find(|a| a.key == "proposal_id").and_then(|a| a.value.parse::<u64>().ok())
                });
                Done::Propose { by, ok: r.is_ok(), pay: *pay, tag, msgs: msgs.clone(), id }
            }
            Op::Vote { by, prop: k, vote } => {
                let target = pick_target(k, 0);
                let by = pick_by(by, target);
                let id = target.map(|i| models[i].id).unwrap_or(999);
                let vv = to_vote(*vote);
                let r = exec_as(&mut w.app, w.relay.clone().as_ref(), &w.faucet.clone(), &w.actors[by].clone(), &w.multisig.clone(), &cw3_fixed_multisig::msg::ExecuteMsg::Vote { proposal_id: id, vote: vv }, &[]);
                Done::Vote { by, target, ok: r.is_ok(), vote: vv }
            }
            Op::GroupRenounce => {
                if let Some(g) = w.group.clone() {
                    let ok = try_exec(&mut w.app, &admin, &g, &cw4_group::msg::ExecuteMsg::UpdateAdmin { admin: None }, &[]).is_ok();
                    ctx.count(if ok { "group_admin_renounced" } else { "group_admin_renounce_refused" });
                }
                Done::Other
            }
            Op::SilentVotes { prop: k, vote } => {
                if let Some(t) = pick_target(k, 0) {
                    let id = models[t].id;
                    let vv = to_vote(*vote);
                    let mut accepted = 0u64;
                    for a in w.silent.clone() {
                        if try_exec(&mut w.app, &a, &w.multisig.clone(), &cw3_fixed_multisig::msg::ExecuteMsg::Vote { proposal_id: id, vote: vv }, &[]).is_ok() {
                            accepted += 1;
                        }
                    }
                    ctx.add("silent_votes_accepted", accepted);
                }
                Done::Other
            }
            Op::Execute { by, prop: k } => {
                let target = pick_target(k, 1);
                let id = target.map(|i| models[i].id).unwrap_or(999);
                // by == 255 (sweep): pick an authorised caller
                let who: Addr = if *by == By::Actor(255) {
                    match w.executor {
                        ExecSpec::Only(i) => w.actors[i as usize % N_ACTORS].clone(),
                        ExecSpec::Member => w.actors.iter().find(|a| pre.members.contains_key(a.as_str())).cloned().unwrap_or(w.actors[0].clone()),
                        ExecSpec::Anyone => w.actors[0].clone(),
                    }
                } else {
                    w.actors[pick_by(by, target)].clone()
                };
                let r = exec_as(&mut w.app, w.relay.clone().as_ref(), &w.faucet.clone(), &who, &w.multisig.clone(), &cw3_fixed_multisig::msg::ExecuteMsg::Execute { proposal_id: id }, &[]);
                Done::Execute { by: who, target, ok: r.is_ok() }
            }
            Op::Close { by, prop: k } => {
                let target = pick_target(k, 2);
                let id = target.map(|i| models[i].id).unwrap_or(999);
                let closer = w.actors[pick_by(by, target)].clone();
                let r = exec_as(&mut w.app, w.relay.clone().as_ref(), &w.faucet.clone(), &closer, &w.multisig.clone(), &cw3_fixed_multisig::msg::ExecuteMsg::Close { proposal_id: id }, &[]);
                Done::Close { target, ok: r.is_ok() }
            }
        };

        let post = w.observe().map_err(qerr)?;
        let now_h = w.height();
        let now_t = w.time();
        let at = format!("step {step_no} {:?} -> {:?} (height {now_h} time {now_t})", op, done);

        // ---------------- bookkeeping common to all oracles
        if let Done::Time = done {
            if now_h != height {
                block_start = post.members.clone();
                changed_this_block = false;
            }
        }
        if let Done::Group { ok: true } = done {
            changed_this_block = true;
            ctx.count("group_update_ok");
        }
        if let Done::Propose { by, ok, tag, ref msgs, id, .. } = done {
            ctx.count(if ok { "op_propose_ok" } else { "op_propose_fail" });
            if ok {
                let expect_id = models.len() as u64 + 1;
                let Some(obs) = post.props.iter().find(|p| !pre.props.iter().any(|q| q.id == p.id)).cloned() else {
                    return Err(v(prop, "proposal-not-listed", format!("{at}: propose succeeded but no new proposal is listed")));
                };
                if post.props.len() != pre.props.len() + 1 {
                    return Err(v(prop, "proposal-count", format!("{at}: one propose changed the number of proposals from {} to {}", pre.props.len(), post.props.len())));
                }
                let _ = expect_id;
                // ids are unique and increasing (the statement does not demand steps of one); if the
                // response names an id it must be the listed one
                let max_prev = pre.props.iter().map(|p| p.id).max().unwrap_or(0);
                if prop == "C05" && (obs.id <= max_prev || id.map(|x| x != obs.id).unwrap_or(false)) {
                    return Err(v(prop, "ids-not-increasing", format!("{at}: new proposal has id {} (response says {:?}), previous maximum {}", obs.id, id, max_prev)));
                }
                models.push(PModel {
                    id: obs.id,
                    tag,
                    proposer: by,
                    msgs: msgs.clone(),
                    created_height: height,
                    created_time: time,
                    snap: if w.fixed { post.members.clone() } else { block_start.clone() },
                    same_block_change: changed_this_block,
                    current_at_propose: pre.members.clone(),
                    f5_adopted: false,
                    executed: false,
                    closed: false,
                    last_status: obs.status,
                    seen: BTreeSet::new(),
                    // a Rejected status reported by the creating call itself is the stored status
                    rejected_before_expiry: obs.status == Status::Rejected,
                    early_rejection_unjustified: false,
                    first: obs.clone(),
                    deposit_held: false,
                    deposit_returned: false,
                    failed_execute_seen: false,
                    retried_ok: false,
                    execute_succeeded: false,
                    ref_ids: last_refs.clone(),
                });
            }
        }
        match &done {
            Done::Vote { ok, .. } => ctx.count(if *ok { "op_vote_ok" } else { "op_vote_fail" }),
            Done::Execute { ok, .. } => ctx.count(if *ok { "op_execute_ok" } else { "op_execute_fail" }),
            Done::Close { ok, .. } => ctx.count(if *ok { "op_close_ok" } else { "op_close_fail" }),
            _ => {}
        }
        // proposals come into being by the Propose calls of this history and in no other way
        if post.props.len() != models.len() {
            return Err(v(prop, "unexpected-proposal", format!("{at}: the multisig lists {} proposals, {} were created by successful Propose calls", post.props.len(), models.len())));
        }
        // newly executed proposals in this step (by observation)
        let mut newly_executed: Vec<usize> = vec![];
        for (i, m) in models.iter_mut().enumerate() {
            let Some(o) = post.props.iter().find(|p| p.id == m.id) else {
                return Err(v(prop, "proposal-disappeared", format!("{at}: proposal {} is no longer listed", m.id)));
            };
            m.seen.insert(status_code(o.status));
            if o.status == Status::Executed && !m.executed {
                newly_executed.push(i);
            }
            if o.status == Status::Rejected && !is_expired(&o.expires, now_h, now_t) {
                m.rejected_before_expiry = true;
                // "voted down": the No votes alone rule a pass out (the documented early-rejection rule looks
                // at No weight only; Veto ballots do not reject early on the pinned tree)
                if let Some(tl) = o.tally() {
                    let no_only = Tally { veto: 0, ..tl };
                    if tl.total() <= o.total as u128 && can_still_pass(o.thr, o.total, &no_only, 0) {
                        m.early_rejection_unjustified = true;
                    }
                }
            }
        }
        let alive = post.props.iter().filter(|p| matches!(p.status, Status::Open | Status::Passed)).count();
        alive_max = alive_max.max(alive);

        // ---------------- oracles
        match prop {
            "C03" => oracle_c03(&w, &pre, &post, &done, &models, &at, ctx, now_h, now_t)?,
            "C05" => oracle_c05(&w, &pre, &post, &done, &mut models, &newly_executed, &at, ctx, now_h, now_t, fault_on, height, time, period)?,
            "C06" => oracle_c06(&w, &pre, &post, &done, &mut models, &at, ctx, now_h, now_t)?,
            "C15" => oracle_c15(&w, &pre, &post, &done, &mut models, &newly_executed, &at, ctx, now_h, now_t, n_addr)?,
            _ => {}
        }

        // ---------------- model updates after the oracles
        for i in newly_executed {
            models[i].executed = true;
        }
        if let Done::Execute { target: Some(i), ok: true, .. } = done {
            models[i].execute_succeeded = true;
        }
        if let Done::Close { target: Some(i), ok: true } = done {
            models[i].closed = true;
        }
        for m in models.iter_mut() {
            if let Some(o) = post.props.iter().find(|p| p.id == m.id) {
                m.last_status = o.status;
            }
        }
        pre = post;
    }

    // ---------------- end of case: C15 recoverability
    if prop == "C15" {
        if let Some(d) = w.deposit {
            let (h, t) = (w.height(), w.time());
            for m in &models {
                let Some(o) = pre.props.iter().find(|p| p.id == m.id) else { continue };
                if !m.deposit_held || m.deposit_returned {
                    continue;
                }
                // still held after the sweep
                let expired = is_expired(&o.expires, h, t);
                let tally = o.tally();
                let passed = tally.map(|tl| if expired { passes_at_expiry(o.thr, o.total, &tl, 0) } else { certain_pass(o.thr, o.total, &tl, 0) }).unwrap_or(false);
                if o.status == Status::Rejected && !passed && d.refund_failed {
                    if m.rejected_before_expiry && !m.closed && !m.executed {
                        // the known finding covers proposals that really were voted down (or created expired);
                        // one that was stored Rejected while it could still pass is a different failure
                        if m.early_rejection_unjustified {
                            return Err(v(prop, "rejected-early-deposit-stuck", format!("proposal {} was stored Rejected before expiry although it was not voted down (its No weight alone did not rule a pass out); refund_failed_proposals is on, but Close is refused afterwards, so the deposit of {} is never returned to actor{}", m.id, d.amount, m.proposer)));
                        }
                        if ctx.tolerate("C15/close-refuses-stored-rejected") {
                            ctx.count("f6_hits");
                            continue;
                        }
                        return Err(v(prop, "close-refuses-stored-rejected", format!("proposal {} was rejected by votes before it expired (or at creation); refund_failed_proposals is on, but after expiry Close is refused, so the deposit of {} is never returned to actor{}", m.id, d.amount, m.proposer)));
                    }
                    return Err(v(prop, "failed-deposit-unrecoverable", format!("proposal {} failed, refund_failed_proposals is on, Close and Execute were attempted after expiry, but its deposit is still held (closed={} status={:?})", m.id, m.closed, o.status)));
                }
                if o.status == Status::Passed || o.status == Status::Executed {
                    ctx.count("deposit_still_held_on_passed");
                }
            }
        }
    }

    // ---------------- non-triviality
    let multi_status = models.iter().any(|m| m.seen.len() >= 2);
    ctx.nontrivial = match prop {
        "C03" => multi_status && (ctx.has("abstain_or_veto") || ctx.has("boundary")),
        "C05" => (ctx.has("failed_then_retried") || ctx.has("reentrant")) && alive_max >= 2,
        "C06" => {
            if fixed {
                ctx.has("irregular_voter_list") && !models.is_empty()
            } else {
                ctx.has("propose_in_changed_block") || ctx.has("vote_after_weight_change")
            }
        }
        "C15" => ctx.has("two_deposits_held") && (ctx.has("refund_by_execute") || ctx.has("refund_by_close")),
        _ => false,
    };
    Ok(())
}

#[derive(Debug, Clone)]
enum Done {
    Propose { by: usize, ok: bool, pay: Pay, tag: u64, msgs: Vec<PMsg>, id: Option<u64> },
    Vote { by: usize, target: Option<usize>, ok: bool, vote: Vote },
    Execute { by: Addr, target: Option<usize>, ok: bool },
    Close { target: Option<usize>, ok: bool },
    Time,
    Group { ok: bool },
    /// the multisig's pool of the deposit token was topped up by `amt`
    FundDep { amt: u128 },
    Other,
}

fn catch<T>(f: impl FnOnce() -> T) -> Option<T> {
    std::panic::catch_unwind(std::panic::AssertUnwindSafe(f)).ok()
}


/// Percentages that use more than 9 decimals are decided by the library "within one vote, never
/// stricter than exact" (the tolerance C04 states for them): `relaxed` lowers each rounded-up
/// requirement by one for such thresholds and is used wherever the code *admits* something (Passed,
/// Execute); the exact rule is used wherever it *refuses* (Rejected, Open, Close).
fn slack_of(thr: Thr, relaxed: bool) -> u128 {
    if relaxed && !thr.nine_decimals() {
        1
    } else {
        0
    }
}

fn model_passed(o: &PObs, h: u64, t: u64, relaxed: bool) -> Option<bool> {
    let tl = o.tally()?;
    if tl.total() > o.total as u128 {
        return None;
    }
    let s = slack_of(o.thr, relaxed);
    Some(if is_expired(&o.expires, h, t) { passes_at_expiry(o.thr, o.total, &tl, s) } else { certain_pass(o.thr, o.total, &tl, s) })
}

#[allow(clippy::too_many_arguments)]
fn oracle_c03(w: &World, pre: &Obs, post: &Obs, done: &Done, models: &[PModel], at: &str, ctx: &mut CaseCtx, h: u64, t: u64) -> Result<(), Violation> {
    let prop = "C03";
    // admission of Execute / Close against the model status right before the call (same block)
    match done {
        Done::Execute { by, target: Some(i), ok } => {
            let m = &models[*i];
            if let Some(o) = pre.props.iter().find(|p| p.id == m.id) {
                if let (Some(mp), Some(mp_relaxed)) = (model_passed(o, h, t, false), model_passed(o, h, t, true)) {
                    let passed = mp && !m.executed;
                    if *ok && !(mp_relaxed && !m.executed) {
                        return Err(v(prop, "execute-admitted-not-passed", format!("{at}: Execute succeeded on proposal {} whose ballots {:?} (total {}, {:?}, expired={}) do not imply Passed", m.id, o.ballots.values().collect::<Vec<_>>(), o.total, o.thr, is_expired(&o.expires, h, t))));
                    }
                    if !*ok && passed && w.authorised(by, &pre.members) && m.msgs.is_empty() {
                        return Err(v(prop, "execute-refused-on-passed", format!("{at}: Execute by an authorised caller failed on proposal {} whose ballots imply Passed (total {}, {:?})", m.id, o.total, o.thr)));
                    }
                }
            }
        }
        Done::Close { target: Some(i), ok: true } => {
            let m = &models[*i];
            if let Some(o) = pre.props.iter().find(|p| p.id == m.id) {
                let expired = is_expired(&o.expires, h, t);
                let mp = model_passed(o, h, t, false).unwrap_or(false);
                if !expired || mp || m.executed {
                    return Err(v(prop, "close-admitted-wrongly", format!("{at}: Close succeeded on proposal {} (expired={expired}, ballots imply passed={mp}, executed={})", m.id, m.executed)));
                }
            }
        }
        _ => {}
    }
    let exec_now: Option<usize> = match done {
        Done::Execute { target: Some(i), ok: true, .. } => Some(*i),
        _ => None,
    };
    for (i, m) in models.iter().enumerate() {
        let Some(o) = post.props.iter().find(|p| p.id == m.id) else { continue };
        let executed = m.executed || exec_now == Some(i);
        if (o.status == Status::Executed) != executed {
            return Err(v(prop, "executed-status-mismatch", format!("{at}: proposal {} reports {:?} but an Execute on it {} succeeded", m.id, o.status, if executed { "has" } else { "never" })));
        }
        if executed {
            continue;
        }
        let Some(tl) = o.tally() else { continue };
        if tl.total() > o.total as u128 {
            ctx.count("ballots_exceed_total");
            continue;
        }
        if tl.abstain > 0 || tl.veto > 0 {
            ctx.flag("abstain_or_veto");
        }
        let expired = is_expired(&o.expires, h, t);
        let pass_now = if expired { passes_at_expiry(o.thr, o.total, &tl, 0) } else { certain_pass(o.thr, o.total, &tl, 0) };
        let sl = slack_of(o.thr, true);
        let pass_relaxed = if expired { passes_at_expiry(o.thr, o.total, &tl, sl) } else { certain_pass(o.thr, o.total, &tl, sl) };
        if sl > 0 {
            ctx.count("judged_with_18_decimal_threshold");
        }
        let needed = match o.thr {
            Thr::Count(wt) => wt as u128,
            Thr::Pct(p) => ceil_mul(o.total as u128 - tl.abstain as u128, p),
            Thr::Quorum { threshold, .. } => {
                if expired {
                    ceil_mul(tl.total() - tl.abstain as u128, threshold)
                } else {
                    ceil_mul(o.total as u128 - tl.abstain as u128, threshold)
                }
            }
        };
        if tl.yes as u128 == needed || tl.yes as u128 + 1 == needed {
            ctx.flag("boundary");
        }
        let desc = format!("proposal {} status {:?}, ballots yes={} no={} abstain={} veto={} of total {}, rule {:?}, expired={}", m.id, o.status, tl.yes, tl.no, tl.abstain, tl.veto, o.total, o.thr, expired);
        match o.status {
            Status::Passed => {
                if tl.yes == 0 {
                    if ctx.tolerate("C03/passed-with-zero-yes") {
                        continue;
                    }
                    return Err(v(prop, "passed-with-zero-yes", format!("{at}: {desc}: Passed with zero Yes weight")));
                }
                if !pass_relaxed {
                    return Err(v(prop, "passed-not-implied", format!("{at}: {desc}: Passed although the threshold rule is not (certainly) satisfied")));
                }
            }
            Status::Rejected => {
                if pass_now {
                    return Err(v(prop, "rejected-but-passes", format!("{at}: {desc}: Rejected although the threshold rule is satisfied")));
                }
                let legit = expired || !can_still_pass(o.thr, o.total, &tl, 0);
                if !legit {
                    return Err(v(prop, "rejected-too-early", format!("{at}: {desc}: Rejected although it has not expired and could still pass")));
                }
            }
            Status::Open => {
                if expired {
                    return Err(v(prop, "open-after-expiry", format!("{at}: {desc}: still Open after expiry")));
                }
                if pass_now {
                    return Err(v(prop, "open-but-certain-pass", format!("{at}: {desc}: Open although the rule is certain to be satisfied")));
                }
            }
            other => {
                return Err(v(prop, "unexpected-status", format!("{at}: {desc}: unexpected status {:?}", other)));
            }
        }
        ctx.count(match o.status {
            Status::Passed => "obs_passed",
            Status::Rejected => "obs_rejected",
            _ => "obs_open",
        });
    }
    // ReverseProposals reports the same statuses
    use cw3_fixed_multisig::msg::QueryMsg as Q;
    let mut rev: Vec<(u64, Status)> = vec![];
    let mut cursor: Option<u64> = None;
    loop {
        let page: ProposalListResponse = w.q(&w.multisig, &Q::ReverseProposals { start_before: cursor, limit: Some(30) }).map_err(|e| v(prop, "query-failed", e))?;
        if page.proposals.is_empty() {
            break;
        }
        cursor = page.proposals.last().map(|p| p.id);
        rev.extend(page.proposals.iter().map(|p| (p.id, p.status)));
        if rev.len() > 10_000 {
            break;
        }
    }
    rev.reverse();
    let fwd: Vec<(u64, Status)> = post.props.iter().map(|p| (p.id, p.status)).collect();
    if rev != fwd {
        return Err(v(prop, "reverse-list-disagrees", format!("{at}: ReverseProposals reports {:?}, ListProposals {:?}", rev, fwd)));
    }
    Ok(())
}

#[allow(clippy::too_many_arguments)]
fn oracle_c05(w: &World, pre: &Obs, post: &Obs, done: &Done, models: &mut [PModel], newly: &[usize], at: &str, ctx: &mut CaseCtx, h: u64, t: u64, fault_on: bool, call_h: u64, call_t: u64, period: Duration) -> Result<(), Violation> {
    let prop = "C05";
    let _ = (h, t);
    // lifecycle + immutability
    for m in models.iter() {
        let Some(o) = post.props.iter().find(|p| p.id == m.id) else { continue };
        if !status_rank_ok(m.last_status, o.status) {
            return Err(v(prop, "lifecycle-backwards", format!("{at}: proposal {} went {:?} -> {:?}", m.id, m.last_status, o.status)));
        }
        let f = &m.first;
        if o.title != f.title || o.description != f.description || o.msgs != f.msgs || o.thr != f.thr || o.total != f.total || o.expires != f.expires || o.proposer != f.proposer || o.has_deposit != f.has_deposit {
            return Err(v(prop, "content-changed", format!("{at}: content/threshold/expiry of proposal {} changed after creation", m.id)));
        }
    }
    // creation: expiry bounded by the maximum voting period, content as proposed
    if let Done::Propose { ok: true, by, .. } = done {
        let m = models.last().unwrap();
        let o = &m.first;
        let max = match period {
            Duration::Height(n) => Expiration::AtHeight(call_h + n),
            Duration::Time(s) => Expiration::AtTime(cosmwasm_std::Timestamp::from_nanos(call_t + s * 1_000_000_000)),
        };
        let okk = match (&o.expires, &max) {
            (Expiration::AtHeight(a), Expiration::AtHeight(b)) => a <= b,
            (Expiration::AtTime(a), Expiration::AtTime(b)) => a <= b,
            _ => false,
        };
        if !okk {
            return Err(v(prop, "expiry-beyond-max", format!("{at}: new proposal {} expires {:?}, maximum voting period allows at most {:?}", m.id, o.expires, max)));
        }
        if o.proposer != w.actors[*by].as_str() || o.title != (if m.msgs.is_empty() { "plain".to_string() } else { format!("t{}", m.tag) }) || o.msgs.len() != m.msgs.len() {
            return Err(v(prop, "content-not-as-proposed", format!("{at}: stored proposal {} differs from what was proposed", m.id)));
        }
    }
    // recorder log is append-only
    if post.log.len() < pre.log.len() || post.log[..pre.log.len()] != pre.log[..] {
        return Err(v(prop, "log-rewritten", format!("{at}: recorder log is not an extension of the previous log")));
    }
    let new_entries = &post.log[pre.log.len()..];
    let exec_ok = matches!(done, Done::Execute { ok: true, .. });
    if !new_entries.is_empty() && !exec_ok {
        return Err(v(prop, "dispatch-outside-execute", format!("{at}: messages {:?} were dispatched by a call that is not a successful Execute", new_entries)));
    }
    if !newly.is_empty() && !exec_ok {
        return Err(v(prop, "executed-outside-execute", format!("{at}: proposals {:?} became Executed in a call that is not a successful Execute", newly.iter().map(|i| models[*i].id).collect::<Vec<_>>())));
    }
    // expected dispatch of this step
    let mut expect_log: BTreeMap<u64, Vec<u32>> = BTreeMap::new();
    let mut expect_bank: Vec<u128> = vec![0; N_ACTORS];
    for i in newly {
        let m = &models[*i];
        let Some(o) = pre.props.iter().find(|p| p.id == m.id) else { continue };
        if o.status != Status::Passed {
            return Err(v(prop, "executed-without-passed", format!("{at}: proposal {} was executed although its status right before the call was {:?}", m.id, o.status)));
        }
        for (k, pm) in m.msgs.iter().enumerate() {
            match pm {
                PMsg::Record => expect_log.entry(m.tag).or_default().push(k as u32),
                PMsg::BankSend { to, amt } if *to < 100 => expect_bank[*to as usize % N_ACTORS] += *amt as u128,
                _ => {}
            }
        }
    }
    let mut got_log: BTreeMap<u64, Vec<u32>> = BTreeMap::new();
    for (tag, idx) in new_entries {
        got_log.entry(*tag).or_default().push(*idx);
    }
    if got_log != expect_log {
        // was something dispatched again for an already executed proposal?
        for tag in got_log.keys() {
            if models.iter().any(|m| m.tag == *tag && m.executed) {
                return Err(v(prop, "dispatched-twice", format!("{at}: messages of an already executed proposal (tag {tag}) were dispatched again")));
            }
        }
        return Err(v(prop, "dispatch-mismatch", format!("{at}: dispatched recorder messages {:?}, expected exactly {:?} (per proposal tag, in proposed order)", got_log, expect_log)));
    }
    for a in 0..N_ACTORS {
        let delta = post.bal[a][1] as i128 - pre.bal[a][1] as i128;
        if delta != expect_bank[a] as i128 {
            return Err(v(prop, "bank-dispatch-mismatch", format!("{at}: actor{a} balance changed by {delta}, the executed proposals send it {}", expect_bank[a])));
        }
    }
    // a Close or a Vote is about one proposal: what is reported about every other proposal stays as it was
    if let Done::Close { target: Some(i), ok: true } | Done::Vote { target: Some(i), ok: true, .. } = done {
        for (j, m) in models.iter().enumerate() {
            if j == *i {
                continue;
            }
            let (a, b) = (pre.props.iter().find(|p| p.id == m.id).map(|p| p.status), post.props.iter().find(|p| p.id == m.id).map(|p| p.status));
            if a.is_some() && a != b {
                return Err(v(prop, "other-proposal-touched", format!("{at}: the call was about proposal {}, yet proposal {} went {:?} -> {:?}", models[*i].id, m.id, a, b)));
            }
        }
    }
    match done {
        Done::Execute { by, target: Some(i), ok } => {
            let m_executed = models[*i].executed;
            let pre_status = pre.props.iter().find(|p| p.id == models[*i].id).map(|p| p.status);
            let reentrant = models[*i].msgs.iter().any(|x| matches!(x, PMsg::ReExecute(_) | PMsg::ReVote(_) | PMsg::ReClose(_)));
            if pre_status == Some(Status::Passed) && reentrant {
                ctx.flag("reentrant");
            }
            if *ok {
                if m_executed {
                    return Err(v(prop, "repeated-execute-succeeded", format!("{at}: a second Execute of proposal {} succeeded", models[*i].id)));
                }
                if !newly.contains(i) {
                    return Err(v(prop, "execute-ok-not-executed", format!("{at}: Execute succeeded but proposal {} is not Executed", models[*i].id)));
                }
                if !w.authorised(by, &pre.members) {
                    return Err(v(prop, "unauthorised-execute", format!("{at}: Execute by a caller the executor setting {:?} does not authorise succeeded", w.executor)));
                }
                if newly.len() > 1 && !w.fixed && !matches!(w.executor, ExecSpec::Anyone) {
                    return Err(v(prop, "unauthorised-execute", format!("{at}: a nested Execute sent by the multisig itself succeeded although executor is {:?}", w.executor)));
                }
                if models[*i].msgs.iter().any(|x| matches!(x, PMsg::ReExecute(PRef::Own) | PMsg::ReVote(_))) {
                    return Err(v(prop, "reentrant-executed", format!("{at}: proposal {} re-enters its own Execute / votes as the multisig, yet its execution succeeded", models[*i].id)));
                }
                // "exactly as proposed": a payment of no coins at all is refused by the bank, and so is one beyond
                // what the multisig holds - a proposal carrying one cannot have been dispatched as proposed
                let sends: Vec<u32> = newly.iter().flat_map(|j| models[*j].msgs.iter()).filter_map(|x| if let PMsg::BankSend { amt, .. } = x { Some(*amt) } else { None }).collect();
                let need: u128 = sends.iter().map(|a| *a as u128).sum();
                if sends.iter().any(|a| *a == 0) || need > pre.bal[N_ACTORS][1] {
                    return Err(v(prop, "executed-with-undeliverable-message", format!("{at}: Execute of proposal {} succeeded although its payments {:?} (the multisig held {}) include one the bank refuses: the messages were not dispatched as proposed", models[*i].id, sends, pre.bal[N_ACTORS][1])));
                }
                if models[*i].failed_execute_seen {
                    models[*i].retried_ok = true;
                    ctx.flag("failed_then_retried");
                }
            } else if pre_status == Some(Status::Passed) && w.authorised(by, &pre.members) {
                // a failed dispatch leaves it Passed (atomicity) ...
                let post_status = post.props.iter().find(|p| p.id == models[*i].id).map(|p| p.status);
                if post_status != Some(Status::Passed) {
                    return Err(v(prop, "failed-execute-changed-status", format!("{at}: failed Execute left proposal {} in {:?}", models[*i].id, post_status)));
                }
                models[*i].failed_execute_seen = true;
                // ... and one whose messages are all deliverable must not fail
                let simple = models[*i].msgs.iter().all(|x| matches!(x, PMsg::Record | PMsg::BankSend { .. }));
                let has_record = models[*i].msgs.iter().any(|x| matches!(x, PMsg::Record));
                let zero_send = models[*i].msgs.iter().any(|x| matches!(x, PMsg::BankSend { amt: 0, .. }));
                let need: u128 = models[*i].msgs.iter().map(|x| if let PMsg::BankSend { amt, .. } = x { *amt as u128 } else { 0 }).sum();
                if simple && !(fault_on && has_record) && !zero_send && need <= pre.bal[N_ACTORS][1] {
                    return Err(v(prop, "passed-not-executable", format!("{at}: Execute by an authorised caller failed on Passed proposal {} although all its messages are deliverable", models[*i].id)));
                }
            }
        }
        Done::Close { target: Some(i), ok: true } => {
            let o = pre.props.iter().find(|p| p.id == models[*i].id);
            if let Some(o) = o {
                let expired = is_expired(&o.expires, call_h, call_t);
                if !expired || matches!(o.status, Status::Passed | Status::Executed) {
                    return Err(v(prop, "close-admitted-wrongly", format!("{at}: Close succeeded on proposal {} with status {:?}, expired={expired}", o.id, o.status)));
                }
            }
            // the refund of a proposal deposit (dep denom / cw20 columns) is C15's business; Close must not
            // move anything else (the spend denom is what proposal messages pay with)
            let other = |o: &Obs| o.bal.iter().map(|b| b[1]).collect::<Vec<_>>();
            if (w.deposit.is_none() && post.bal != pre.bal) || other(post) != other(pre) {
                return Err(v(prop, "close-dispatched", format!("{at}: Close moved funds")));
            }
        }
        _ => {}
    }
    Ok(())
}

#[allow(clippy::too_many_arguments)]
fn oracle_c06(w: &World, pre: &Obs, post: &Obs, done: &Done, models: &mut [PModel], at: &str, ctx: &mut CaseCtx, h: u64, t: u64) -> Result<(), Violation> {
    let prop = "C06";
    // group changes never alter existing proposals
    if let Done::Group { .. } = done {
        if post.props != pre.props {
            return Err(v(prop, "group-change-altered-proposal", format!("{at}: a group update changed ballots, total or status of an existing proposal")));
        }
    }
    // creation
    if let Done::Propose { ok: true, by, .. } = done {
        let actor_addr = w.actors[*by].to_string();
        let m = models.last_mut().unwrap();
        let o = m.first.clone();
        let snap_total: u128 = m.snap.values().map(|x| *x as u128).sum();
        let cur_total: u128 = m.current_at_propose.values().map(|x| *x as u128).sum();
        let snap_w = m.snap.get(&actor_addr).copied();
        let cur_w = m.current_at_propose.get(&actor_addr).copied();
        let ballot_w = o.ballots.get(&actor_addr).map(|b| b.1);
        if m.same_block_change && !w.fixed {
            ctx.flag("propose_in_changed_block");
        }
        let matches_snapshot = o.total as u128 == snap_total && snap_w.is_some() && ballot_w == snap_w;
        if !matches_snapshot {
            let f5 = !w.fixed && m.same_block_change && o.total as u128 == cur_total && cur_w.is_some() && ballot_w == cur_w;
            if f5 && ctx.tolerate("C06/flex-same-block-snapshot") {
                m.f5_adopted = true;
            } else if f5 {
                return Err(v(prop, "flex-same-block-snapshot", format!("{at}: proposal {} was opened in a block that already contained a group change: it records total_weight {} and proposer weight {:?} (the group's state after the change) while votes use the snapshot at the start of the block (total {}, proposer {:?})", m.id, o.total, ballot_w, snap_total, snap_w)));
            } else {
                return Err(v(prop, "total-or-proposer-ne-snapshot", format!("{at}: proposal {} records total_weight {} and proposer ballot {:?}; its snapshot has total {} and proposer weight {:?}", m.id, o.total, ballot_w, snap_total, snap_w)));
            }
        }
        if o.ballots.len() != 1 {
            return Err(v(prop, "creation-ballots", format!("{at}: new proposal {} has {} ballots, expected only the proposer's", m.id, o.ballots.len())));
        }
        if let Some((vote, _)) = o.ballots.get(&actor_addr) {
            if *vote != Vote::Yes {
                return Err(v(prop, "creation-ballots", format!("{at}: the proposer's implicit ballot is {:?}", vote)));
            }
        }
    }
    // ballots only appear through a successful vote of that voter (or creation), never change
    let vote_ok: Option<(usize, usize, Vote)> = match done {
        Done::Vote { by, target: Some(i), ok: true, vote } => Some((*by, *i, *vote)),
        _ => None,
    };
    for (i, m) in models.iter().enumerate() {
        let Some(o) = post.props.iter().find(|p| p.id == m.id) else { continue };
        let before: BTreeMap<String, (Vote, u64)> = pre.props.iter().find(|p| p.id == m.id).map(|p| p.ballots.clone()).unwrap_or_default();
        let is_new = !pre.props.iter().any(|p| p.id == m.id);
        for (k, b) in &before {
            if o.ballots.get(k) != Some(b) {
                return Err(v(prop, "ballot-changed", format!("{at}: ballot of {k} on proposal {} changed from {:?} to {:?}", m.id, b, o.ballots.get(k))));
            }
        }
        if !is_new {
            let added: Vec<&String> = o.ballots.keys().filter(|k| !before.contains_key(*k)).collect();
            match vote_ok {
                Some((by, ti, vote)) if ti == i => {
                    let voter = w.actors[by].to_string();
                    if added.len() != 1 || *added[0] != voter {
                        return Err(v(prop, "vote-ballot-mismatch", format!("{at}: a successful vote by {voter} added ballots {:?} to proposal {}", added, m.id)));
                    }
                    let pre_o = pre.props.iter().find(|p| p.id == m.id).unwrap();
                    if pre_o.status == Status::Executed || m.execute_succeeded {
                        return Err(v(prop, "vote-on-executed", format!("{at}: vote accepted on proposal {} although an Execute of it already succeeded (status reported before the vote: {:?})", m.id, pre_o.status)));
                    }
                    if is_expired(&pre_o.expires, h, t) {
                        return Err(v(prop, "vote-after-expiry", format!("{at}: vote accepted on proposal {} after it expired ({:?})", m.id, pre_o.expires)));
                    }
                    let sw = m.snap.get(&voter).copied().unwrap_or(0);
                    let (bv, bw) = o.ballots[&voter];
                    if sw < 1 {
                        return Err(v(prop, "ineligible-voter-voted", format!("{at}: {voter} has no voting weight in the snapshot of proposal {} but its vote was accepted with weight {bw}", m.id)));
                    }
                    if bw != sw {
                        return Err(v(prop, "ballot-weight-ne-snapshot", format!("{at}: ballot of {voter} on proposal {} has weight {bw}, the snapshot says {sw}", m.id)));
                    }
                    if bv != vote {
                        return Err(v(prop, "ballot-vote-mismatch", format!("{at}: ballot records {:?}, voter cast {:?}", bv, vote)));
                    }
                    let now_w = post.members.get(&voter).copied().unwrap_or(0);
                    if now_w != sw {
                        ctx.flag("vote_after_weight_change");
                    }
                }
                _ => {
                    if !added.is_empty() {
                        return Err(v(prop, "ballot-without-vote", format!("{at}: ballots {:?} appeared on proposal {} without a successful vote of those addresses", added, m.id)));
                    }
                }
            }
        }
        // threshold total is fixed and ballots never outweigh it
        if o.total != m.first.total {
            return Err(v(prop, "total-changed", format!("{at}: total_weight of proposal {} changed {} -> {}", m.id, m.first.total, o.total)));
        }
        if !m.f5_adopted {
            let sum: u128 = o.ballots.values().map(|b| b.1 as u128).sum();
            if sum > o.total as u128 {
                return Err(v(prop, "ballots-outweigh-total", format!("{at}: ballots on proposal {} sum to {sum}, more than its total_weight {}", m.id, o.total)));
            }
        }
    }
    // the outcome is for the snapshot's voters to decide until the proposal expires: whoever joined or left the
    // group since, nothing ends the voting early
    if let Done::Close { target: Some(i), ok: true } = done {
        if let Some(o) = pre.props.iter().find(|p| p.id == models[*i].id) {
            if !is_expired(&o.expires, h, t) {
                return Err(v(prop, "closed-before-expiry", format!("{at}: proposal {} (expires {:?}, status {:?} before the call) was closed while its snapshot's voters could still vote; members now {:?}, snapshot {:?}", o.id, o.expires, o.status, post.members, models[*i].snap)));
            }
            ctx.count("close_ok_after_expiry");
        }
    }
    // ... and what the ballots decided stands: a proposal reported Passed (C06 proposals carry no messages, so
    // nothing can go wrong on dispatch) is executable by an authorised caller, however the group has changed since
    if let Done::Execute { by, target: Some(i), ok: false } = done {
        let m = &models[*i];
        let pre_status = pre.props.iter().find(|p| p.id == m.id).map(|p| p.status);
        if pre_status == Some(Status::Passed) && m.msgs.is_empty() && !m.executed && w.authorised(by, &pre.members) {
            return Err(v(prop, "passed-not-executable", format!("{at}: proposal {} is reported Passed (total {} in its snapshot; the group now has {:?}) but an authorised Execute was refused", m.id, m.first.total, post.members)));
        }
    }
    if let Done::Vote { by, target: Some(i), ok: false, .. } = done {
        // measured: refusals of eligible voters (not asserted)
        let m = &models[*i];
        let voter = w.actors[*by].to_string();
        if m.snap.get(&voter).copied().unwrap_or(0) >= 1 {
            ctx.count("eligible_vote_refused");
        }
    }
    Ok(())
}

#[allow(clippy::too_many_arguments)]
fn oracle_c15(w: &World, pre: &Obs, post: &Obs, done: &Done, models: &mut [PModel], newly: &[usize], at: &str, ctx: &mut CaseCtx, _h: u64, _t: u64, ms: usize) -> Result<(), Violation> {
    let prop = "C15";
    let Some(d) = w.deposit else { return Ok(()) };
    let tok = if d.cw20 { 2 } else { 0 };
    let n = N_ACTORS;
    let mut expect: Vec<i128> = vec![0; n + 1]; // deposit-token deltas of actors and (last) the multisig
    match done {
        Done::Propose { by, ok: true, .. } => {
            expect[*by] -= d.amount as i128;
            expect[ms] += d.amount as i128;
            let m = models.last_mut().unwrap();
            m.deposit_held = true;
            if !m.first.has_deposit {
                return Err(v(prop, "deposit-not-recorded", format!("{at}: proposal {} was created on a deposit-requiring multisig but records no deposit", m.id)));
            }
        }
        Done::Propose { ok: false, pay, .. } => {
            if *pay != Pay::Exact {
                ctx.flag("refused_propose_wrong_payment");
            }
        }
        Done::Execute { ok: true, .. } => {
            for i in newly {
                let m = &mut models[*i];
                for pm in &m.msgs {
                    if let PMsg::SpendDeposit { to, amt } = pm {
                        let (to, amt) = spend_target(*to, *amt, m.proposer, d.amount);
                        expect[to] += amt as i128;
                        expect[ms] -= amt as i128;
                    }
                }
                if m.deposit_held {
                    if m.deposit_returned {
                        return Err(v(prop, "deposit-returned-twice", format!("{at}: proposal {} is executed after its deposit was already returned", m.id)));
                    }
                    expect[m.proposer] += d.amount as i128;
                    expect[ms] -= d.amount as i128;
                    m.deposit_returned = true;
                    ctx.flag("refund_by_execute");
                }
            }
            // a Close the multisig sent itself while executing is a Close like any other: the execution went
            // through, so every such Close succeeded - it can only have closed an expired proposal that neither
            // passed nor was closed or executed before, and it refunds like a Close by anybody else
            let nested: Vec<(u64, u64)> = newly.iter().flat_map(|i| models[*i].msgs.iter().zip(models[*i].ref_ids.iter()).filter_map(|(pm, r)| if let (PMsg::ReClose(_), Some(id)) = (pm, r) { Some((models[*i].id, *id)) } else { None }).collect::<Vec<_>>()).collect();
            for (outer, id) in nested {
                ctx.count("nested_close_went_through");
                let Some(j) = models.iter().position(|m| m.id == id) else {
                    return Err(v(prop, "nested-close-admitted-wrongly", format!("{at}: proposal {outer} closes proposal {id}, which does not exist, yet its execution succeeded")));
                };
                let a = &mut models[j];
                let pre_status = pre.props.iter().find(|p| p.id == id).map(|p| p.status);
                if a.closed || a.executed || newly.contains(&j) || matches!(pre_status, Some(Status::Passed) | Some(Status::Executed) | Some(Status::Open)) {
                    return Err(v(prop, "nested-close-admitted-wrongly", format!("{at}: while executing proposal {outer} the multisig closed proposal {id} (status before the call {:?}, closed before: {}, executed before: {}); a Close succeeds only on an expired proposal that did not pass and was not closed before", pre_status, a.closed, a.executed)));
                }
                a.closed = true;
                if d.refund_failed && a.deposit_held && !a.deposit_returned {
                    expect[a.proposer] += d.amount as i128;
                    expect[ms] -= d.amount as i128;
                    a.deposit_returned = true;
                    ctx.flag("refund_by_close");
                }
            }
        }
        Done::FundDep { amt } => {
            expect[ms] += *amt as i128;
        }
        Done::Close { target: Some(i), ok: true } => {
            // "returned only when the proposal is executed or ... when it fails": while ballots are still accepted
            // a proposal has not failed - a Close (the refund of a failed proposal) cannot go through yet
            if let Some(o) = pre.props.iter().find(|p| p.id == models[*i].id) {
                if !is_expired(&o.expires, _h, _t) && o.status == Status::Open {
                    return Err(v(prop, "closed-before-it-failed", format!("{at}: proposal {} (Open, expires {:?}) was closed, and its deposit handled as that of a failed proposal, before its voting period was over", o.id, o.expires)));
                }
            }
            let m = &mut models[*i];
            if d.refund_failed && m.deposit_held && !m.deposit_returned {
                expect[m.proposer] += d.amount as i128;
                expect[ms] -= d.amount as i128;
                m.deposit_returned = true;
                ctx.flag("refund_by_close");
            }
        }
        _ => {}
    }
    for a in 0..=n {
        let delta = post.bal[a][tok] as i128 - pre.bal[a][tok] as i128;
        if delta != expect[a] {
            let who = if a == n { "the multisig".to_string() } else { format!("actor{a}") };
            let sig = match done {
                Done::Propose { .. } => "propose-wrong-payment",
                Done::Execute { .. } => "execute-refund-mismatch",
                Done::Close { .. } => "close-refund-mismatch",
                _ => "deposit-moved-unexpectedly",
            };
            return Err(v(prop, sig, format!("{at}: deposit-token balance of {who} changed by {delta}, expected {} (deposit {} {}, refund_failed_proposals={})", expect[a], d.amount, if d.cw20 { "cw20" } else { "native" }, d.refund_failed)));
        }
        // with a native deposit nothing else may be taken from the proposer either
        if !d.cw20 && a < n {
            if let Done::Propose { by, ok: true, .. } = done {
                if a == *by && post.bal[a][1] != pre.bal[a][1] {
                    return Err(v(prop, "propose-wrong-payment", format!("{at}: propose accepted funds in another denom from actor{a}")));
                }
            }
        }
    }
    if models.iter().filter(|m| m.deposit_held && !m.deposit_returned).count() >= 2 {
        ctx.flag("two_deposits_held");
    }
    Ok(())
}

// ------------------------------------------------------------------ family

pub struct MultisigFamily;

const ASSUME: &[&str] = &[
    "cw-multi-test 2.0.0 (bank, wasm routing, atomic sub-message dispatch) stands for the chain; a contract panic aborts and reverts the transaction",
    "cw4-group is the group backend of cw3-flex-multisig; cw20-base is the deposit token",
    "cosmwasm-std / cw-utils / cw-storage-plus trusted; percentages generated with at most 9 decimals at contract level (18-decimal arithmetic is C04's domain)",
];

impl Family for MultisigFamily {
    type Case = MCase;
    fn name(&self) -> &'static str {
        "cw3"
    }
    fn props(&self) -> Vec<PropSpec> {
        vec![
            PropSpec { id: "C03", quick_cases: 8000, thorough_cases: 12_000, floor: 333, rule: "case = multisig flavour (fixed / flex over a static cw4-group), 1-7 voters with weights from {0,1,small,large}, a valid threshold of any kind (percentages incl. a hair above j/total), height- or time-based voting period, up to 30 (thorough 70) ops: propose (with latest absent/shorter/longer/past/other kind), vote (4 options) by members, zero-weight members and outsiders, execute, close, advance, jump to an expiry boundary; after every op every proposal's status (Proposal, ListProposals, ReverseProposals) is compared with the outcome computed from its paged ballots, reported total and expiry by the exact model, and Execute/Close admission with the model status. Non-trivial: some proposal observed in >= 2 statuses and (an abstain/veto ballot or yes within 1 of the needed weight).", assumptions: ASSUME },
            PropSpec { id: "C05", quick_cases: 7000, thorough_cases: 10_000, floor: 210, rule: "case as C03 plus proposal messages (Recorder{tag,idx} that fails while a fault switch is on, bank sends, re-entrant Execute/Vote/Close to the multisig itself), executor settings, fault toggles and funding; oracle: recorder log and bank balances show each executed proposal's messages exactly once, in order, only in a successful Execute whose pre-call status was Passed and whose caller is authorised; lifecycle only forward; ids sequential; content/threshold/expiry immutable and within the maximum voting period; deliverable Passed proposals execute. Non-trivial: (a failed-then-retried Execute or an Execute attempt on a Passed re-entrant proposal) and >= 2 proposals alive at once.", assumptions: ASSUME },
            PropSpec { id: "C06", quick_cases: 8000, thorough_cases: 12_000, floor: 333, rule: "fixed: voter lists with repeated addresses and zero weights; flex: group updates (add, re-weight, remove, re-add) interleaved with propose/vote across explicit block boundaries incl. changes in the proposal's own block; oracle: per-block membership model: ballot weight == snapshot weight, only snapshot members with weight >= 1 vote, once, before expiry, total == snapshot sum, ballots never outweigh it, group changes never alter existing proposals. Non-trivial: fixed: irregular voter list with >= 1 proposal; flex: a propose in a block with an earlier group change or a vote by an address whose weight changed after the snapshot.", assumptions: ASSUME },
            PropSpec { id: "C15", quick_cases: 5000, thorough_cases: 8_000, floor: 187, rule: "cw3-flex with native or cw20 deposit, refund_failed_proposals on/off: propose with exact/short/excess/no/wrong-denom/extra-coin payment (cw20: allowance exact/short/excess/none), votes, execute, close over concurrent proposals; oracle: real balances of all actors and the multisig before/after every call against a deposit ledger; at the end the chain is advanced past every expiry and Close/Execute are attempted on everything, after which every failed proposal's deposit must be back when refunds are enabled. Non-trivial: >= 2 deposits held at once and >= 1 refund by Execute or Close.", assumptions: ASSUME },
        ]
    }
    fn strategy(&self, prop: &str, tier: Tier) -> BoxedStrategy<MCase> {
        mcase_strategy(prop, tier)
    }
    fn run(&self, prop: &str, case: &MCase, ctx: &mut CaseCtx) -> Result<(), Violation> {
        run_mcase(prop, case, ctx)
    }
    fn decode(&self, prop: &str, u: &mut arbitrary::Unstructured) -> Option<MCase> {
        Some(decode_mcase(prop, u))
    }
}

// ------------------------------------------------------------------ byte decoder (fuzz front-end)

pub fn decode_mcase(prop: &str, u: &mut arbitrary::Unstructured) -> MCase {
    use vcore::amounts::{arb_below, arb_bool};
    let d_actor = |u: &mut arbitrary::Unstructured| arb_below(u, N_ACTORS) as u8;
    let d_weight = |u: &mut arbitrary::Unstructured| -> u64 {
        match arb_below(u, 12) {
            0 | 1 => 0,
            2..=4 => 1,
            5..=8 => 1 + arb_below(u, 5) as u64,
            9 => 6 + arb_below(u, 94) as u64,
            10 => [1u64 << 32, 1u64 << 60, 1u64 << 63, u64::MAX][arb_below(u, 4)],
            _ => ((1 + arb_below(u, 3) as u64) * 1_000_000_000_000).wrapping_add(arb_below(u, 6000) as u64).wrapping_sub(3000),
        }
    };
    let d_p = |u: &mut arbitrary::Unstructured| -> PSpec {
        match arb_below(u, 5) {
            4 => PSpec::Share18 { mask: 1 + arb_below(u, 31) as u8, hair: arb_below(u, 3) as i8 - 1 },
            0 => PSpec::Nine([500_000_000u32, 510_000_000, 666_666_667, 750_000_000, 1_000_000_000, 100_000_000, 333_333_334, 1][arb_below(u, 8)]),
            1 => PSpec::Nine(u.arbitrary::<u32>().unwrap_or(0) % 1_000_000_001),
            _ => PSpec::Near { j: u.arbitrary().unwrap_or(0), sub: arb_below(u, 3) as u8, delta: arb_below(u, 3) as u8 },
        }
    };
    let fixed = prop != "C15" && arb_bool(u, 1, 2);
    let flavour = if fixed {
        Flavour::Fixed
    } else {
        let executor = match arb_below(u, if prop == "C05" { 3 } else { 10 }) {
            1 => ExecSpec::Member,
            2 => ExecSpec::Only(if prop == "C05" && arb_bool(u, 1, 8) { 100 + arb_below(u, 2) as u8 } else { d_actor(u) }),
            _ => ExecSpec::Anyone,
        };
        let deposit = if prop == "C15" || arb_bool(u, 1, 4) { Some(DepSpec { cw20: arb_bool(u, 1, 2), amount: 1 + arb_below(u, 30) as u128, refund_failed: arb_bool(u, 1, 2) }) } else { None };
        Flavour::Flex { executor, deposit, hook: arb_bool(u, 1, 2), settle_blocks: if prop == "C06" && arb_bool(u, 1, 7) { 0 } else { 1 + arb_below(u, 2) as u8 } }
    };
    let n_v = 1 + arb_below(u, N_ACTORS);
    let mut voters: Vec<(u8, u64)> = vec![];
    let irregular = fixed && arb_bool(u, 1, if prop == "C06" { 2 } else { 10 });
    for i in 0..n_v {
        let who = if irregular { d_actor(u) } else { i as u8 };
        voters.push((who, d_weight(u)));
    }
    let thr = match arb_below(u, 3) {
        0 => ThrSpec::Count(u.arbitrary().unwrap_or(0)),
        1 => ThrSpec::Pct(d_p(u)),
        _ => ThrSpec::Quorum(d_p(u), d_p(u)),
    };
    let period = if arb_bool(u, if prop == "C06" { 3 } else { 1 }, 25) { Dur::Height(2_500_000) } else if arb_bool(u, 1, 2) { Dur::Height(if prop == "C05" { arb_below(u, 12) as u32 } else { 1 + arb_below(u, 11) as u32 }) } else { Dur::Time(if prop == "C05" { arb_below(u, 120) as u32 } else { 1 + arb_below(u, 119) as u32 }) };
    let d_by = |u: &mut arbitrary::Unstructured| -> By {
        match arb_below(u, 6) {
            0 => By::Actor(d_actor(u)),
            1 | 2 => By::Member(u.arbitrary().unwrap_or(0)),
            _ => By::Fresh(u.arbitrary().unwrap_or(0)),
        }
    };
    let d_target = |u: &mut arbitrary::Unstructured| -> Target {
        if arb_bool(u, 3, 4) {
            Target::Apt(u.arbitrary().unwrap_or(0))
        } else {
            Target::Any(u.arbitrary().unwrap_or(0))
        }
    };
    let d_ref = |u: &mut arbitrary::Unstructured| -> PRef {
        if arb_bool(u, 1, 3) {
            PRef::Own
        } else {
            PRef::Other(u.arbitrary().unwrap_or(0))
        }
    };
    let n_ops = arb_below(u, 40);
    let mut ops = vec![];
    for _ in 0..n_ops {
        let op = match arb_below(u, 16) {
            0..=2 => {
                let msgs = match prop {
                    "C05" => {
                        let n = arb_below(u, 4);
                        (0..n)
                            .map(|_| match arb_below(u, 8) {
                                0..=3 => PMsg::Record,
                                4 => PMsg::BankSend { to: d_actor(u) + [0u8, 0, 0, 0, 0, 0, 100, 200][arb_below(u, 8)], amt: arb_below(u, 60) as u32 },
                                5 => PMsg::ReExecute(d_ref(u)),
                                6 => PMsg::ReVote(d_ref(u)),
                                _ => PMsg::ReClose(d_ref(u)),
                            })
                            .collect::<Vec<_>>()
                            .into_iter()
                            .flat_map(|m| if matches!(m, PMsg::BankSend { .. }) { vec![m.clone(), m] } else { vec![m] })
                            .take(5)
                            .collect()
                    }
                    "C15" => (0..arb_below(u, 3)).map(|_| if arb_bool(u, 2, 5) { if arb_bool(u, 1, 6) { PMsg::SpendDeposit { to: 255, amt: u32::MAX } } else { PMsg::SpendDeposit { to: d_actor(u), amt: arb_below(u, 40) as u32 } } } else if arb_bool(u, 1, 6) { if arb_bool(u, 1, 3) { PMsg::RePropose } else { PMsg::ReClose(if arb_bool(u, 1, 3) { PRef::Own } else { PRef::Other(u.arbitrary().unwrap_or(0)) }) } } else { PMsg::Record }).collect(),
                    _ => vec![],
                };
                let latest = match arb_below(u, 8) {
                    0 => Latest::Spec(ExpSpec::Height(u.int_in_range(-2i32..=13).unwrap_or(0))),
                    1 => Latest::Spec(ExpSpec::Time(u.int_in_range(-10i64..=149).unwrap_or(0))),
                    2 => Latest::Spec(ExpSpec::Never),
                    3 => Latest::AtMax(arb_below(u, 5) as i8 - 2),
                    _ => Latest::None,
                };
                let pay = if prop == "C15" { [Pay::Exact, Pay::Exact, Pay::Exact, Pay::None, Pay::Short, Pay::Excess, Pay::WrongDenom, Pay::ExtraCoin, Pay::Twice, Pay::CaseDenom][arb_below(u, 10)] } else if arb_bool(u, 1, 9) { Pay::None } else { Pay::Exact };
                Op::Propose { by: d_by(u), msgs, latest, pay }
            }
            3..=7 => Op::Vote { by: d_by(u), prop: d_target(u), vote: [0u8, 0, 0, 1, 1, 2, 3][arb_below(u, 7)] },
            8 | 9 => Op::Execute { by: d_by(u), prop: d_target(u) },
            10 => Op::Close { by: d_by(u), prop: d_target(u) },
            11 => if arb_bool(u, 1, 25) { Op::Advance { blocks: 255, secs: 0 } } else { Op::Advance { blocks: arb_below(u, 4) as u8, secs: arb_below(u, 40) as u16 } },
            12 => Op::ToExpiry { prop: u.arbitrary().unwrap_or(0), delta: arb_below(u, 5) as i8 - 2 },
            13 => {
                if prop == "C06" || arb_bool(u, 1, 4) {
                    let na = arb_below(u, 4);
                    let nr = arb_below(u, 4);
                    let dup = arb_bool(u, 1, 4);
                    let first = d_actor(u);
                    Op::GroupUpdate { add: (0..na).map(|_| (d_actor(u), d_weight(u))).collect(), remove: (0..nr).map(|i| if dup || i == 0 { first } else { d_actor(u) }).collect() }
                } else {
                    Op::Advance { blocks: 1, secs: 5 }
                }
            }
            14 => if prop == "C06" && arb_bool(u, 1, 6) { Op::GroupRenounce } else if matches!(prop, "C03" | "C05") && arb_bool(u, 1, 6) { Op::SilentVotes { prop: d_target(u), vote: [0u8, 0, 0, 1, 2][arb_below(u, 5)] } } else { Op::Fault { on: arb_bool(u, 1, 2) } },
            _ => if prop == "C15" { Op::FundDeposit { amt: arb_below(u, 60) as u32 } } else { Op::Fund { amt: arb_below(u, 200) as u32 } },
        };
        ops.push(op);
    }
    let silent = if arb_bool(u, 1, 3) { (0..arb_below(u, 12)).map(|_| d_weight(u)).collect() } else { vec![] };
    let self_member = arb_bool(u, 1, 6);
    let contract_actor = arb_bool(u, 1, 5);
    MCase { flavour, silent, voters, thr, period, ops, self_member, contract_actor }
}
