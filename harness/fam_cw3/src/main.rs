fn main() {
    let args: Vec<String> = std::env::args().collect();
    let prop = if args.len() > 2 && (args[1] == "replay" || args[1] == "fuzzbytes") { args[2].clone() } else { args.get(1).cloned().unwrap_or_default() };
    if prop == "C04" {
        vcore::runner::main_for(fam_cw3::tally::TallyFamily)
    } else {
        vcore::runner::main_for(fam_cw3::multisig::MultisigFamily)
    }
}
