//! C04 — library level: cw3::Proposal::{is_passed, is_rejected, current_status} on
//! constructed proposals against the exact-arithmetic model and (for small totals)
//! an enumeration of every completion of the outstanding votes.
use crate::model::*;
use cosmwasm_std::{Addr, BlockInfo, Timestamp};
use cw3::{Proposal, Status, Votes};
use cw_utils::Expiration;
use proptest::prelude::*;
use serde::{Deserialize, Serialize};
use std::panic::{catch_unwind, AssertUnwindSafe};
use vcore::{CaseCtx, Family, PropSpec, Tier, Violation};

#[derive(Clone, Copy, Debug, Serialize, Deserialize, PartialEq, Eq)]
pub enum When {
    Before,
    /// block height == expiry height (AtHeight is expired when height >= h)
    AtExpiry,
    After,
    /// the proposal never expires (legal for users of the library): it is judged like an open one for ever
    Never,
    /// time-based expiry one nanosecond ahead of / exactly at / one nanosecond behind the block time
    TimeBefore,
    TimeAt,
    TimeAfter,
}

impl When {
    fn expired(self) -> bool {
        matches!(self, When::AtExpiry | When::After | When::TimeAt | When::TimeAfter)
    }
}

#[derive(Clone, Debug, Serialize, Deserialize, PartialEq)]
pub struct TCase {
    pub thr: Thr,
    pub total: u64,
    pub tally: Tally,
    pub when: When,
    /// completions tried for large totals: per-mille shares of the outstanding weight for yes/no/abstain/veto
    pub completions: Vec<[u16; 4]>,
}

#[derive(Clone, Copy, Debug)]
enum Mode {
    Fractions,
    AllAbstain,
    AllVeto,
    Nothing,
    AllYes,
    YesBoundaryOpen(i8),
    YesBoundaryExpired(i8),
    QuorumBoundary(i8),
    NoBoundary(i8),
}

fn share(total: u64, r: u8, sum: u32) -> u64 {
    if sum == 0 {
        0
    } else {
        ((total as u128) * (r as u128) / (sum as u128)) as u64
    }
}

fn clamp_add(base: u128, d: i8, max: u128) -> u64 {
    let x = if d >= 0 { base.saturating_add(d as u128) } else { base.saturating_sub((-(d as i16)) as u128) };
    x.min(max) as u64
}

fn make_tally(thr: Thr, total: u64, r: [u8; 5], mode: Mode) -> Tally {
    let sum: u32 = r.iter().map(|x| *x as u32).sum();
    let mut t = Tally { yes: share(total, r[0], sum), no: share(total, r[1], sum), abstain: share(total, r[2], sum), veto: share(total, r[3], sum) };
    match mode {
        Mode::Fractions => {}
        Mode::AllAbstain => t = Tally { abstain: total, ..Default::default() },
        Mode::AllVeto => t = Tally { veto: total, ..Default::default() },
        Mode::Nothing => t = Tally::default(),
        Mode::AllYes => t = Tally { yes: total, ..Default::default() },
        Mode::YesBoundaryOpen(d) => {
            let room = total as u128 - (t.no as u128 + t.abstain as u128 + t.veto as u128);
            let base = total as u128 - t.abstain as u128;
            let needed = match thr {
                Thr::Count(w) => w as u128,
                Thr::Pct(p) => ceil_mul(base, p),
                Thr::Quorum { threshold, .. } => ceil_mul(base, threshold),
            };
            t.yes = clamp_add(needed, d, room);
        }
        Mode::YesBoundaryExpired(d) => {
            let room = total as u128 - (t.no as u128 + t.abstain as u128 + t.veto as u128);
            let needed = match thr {
                Thr::Count(w) => w as u128,
                Thr::Pct(p) => ceil_mul(total as u128 - t.abstain as u128, p),
                Thr::Quorum { threshold, .. } => {
                    // smallest y with y >= ceil((y+n+v) * t): y >= t(n+v)/(1-t)
                    let nv = t.no as u128 + t.veto as u128;
                    if threshold >= ONE {
                        if nv == 0 { 1 } else { room + 1 }
                    } else {
                        (nv * threshold).div_ceil(ONE - threshold)
                    }
                }
            };
            t.yes = clamp_add(needed, d, room);
        }
        Mode::QuorumBoundary(d) => {
            if let Thr::Quorum { quorum, .. } = thr {
                let q = ceil_mul(total as u128, quorum);
                let others = t.yes as u128 + t.no as u128 + t.veto as u128;
                let want = clamp_add(q, d, total as u128) as u128;
                if want >= others {
                    t.abstain = (want - others) as u64;
                } else {
                    // shrink the others proportionally by dropping no and veto first
                    t.abstain = 0;
                    t.veto = 0;
                    t.no = 0;
                    t.yes = want.min(t.yes as u128) as u64;
                }
            }
        }
        Mode::NoBoundary(d) => {
            let room = total as u128 - (t.yes as u128 + t.abstain as u128 + t.veto as u128);
            let base = total as u128 - t.abstain as u128;
            let edge = match thr {
                Thr::Count(w) => (total as u128).saturating_sub(w as u128),
                Thr::Pct(p) => ceil_mul(base, ONE - p),
                Thr::Quorum { threshold, .. } => ceil_mul(base, ONE - threshold),
            };
            t.no = clamp_add(edge, d, room);
        }
    }
    debug_assert!(t.total() <= total as u128);
    t
}

fn total_strategy() -> BoxedStrategy<u64> {
    prop_oneof![
        8 => 0u64..=12,
        6 => 13u64..=10_000,
        2 => ((1u64 << 32) - 50)..=((1u64 << 32) + 50),
        2 => (u64::MAX - 100)..=u64::MAX,
        1 => Just(u64::MAX),
        2 => any::<u64>(),
    ]
    .boxed()
}

fn mode_strategy() -> BoxedStrategy<Mode> {
    prop_oneof![
        8 => Just(Mode::Fractions),
        2 => Just(Mode::AllAbstain),
        1 => Just(Mode::AllVeto),
        1 => Just(Mode::Nothing),
        1 => Just(Mode::AllYes),
        6 => (-2i8..=2).prop_map(Mode::YesBoundaryOpen),
        6 => (-2i8..=2).prop_map(Mode::YesBoundaryExpired),
        3 => (-2i8..=2).prop_map(Mode::QuorumBoundary),
        4 => (-2i8..=2).prop_map(Mode::NoBoundary),
    ]
    .boxed()
}

pub fn tcase_strategy(_tier: Tier) -> BoxedStrategy<TCase> {
    total_strategy()
        .prop_flat_map(|total| {
            // Count thresholds need total >= 1 to be valid
            let thr = if total == 0 { thr_strategy(1, 3).prop_filter("count invalid for empty group", |t| !matches!(t, Thr::Count(_))).boxed() } else { thr_strategy(total, 3) };
            (Just(total), thr, proptest::array::uniform5(0u8..=8), mode_strategy(), prop_oneof![9 => Just(When::Before), 3 => Just(When::AtExpiry), 6 => Just(When::After), 2 => Just(When::Never), 1 => Just(When::TimeBefore), 1 => Just(When::TimeAt), 1 => Just(When::TimeAfter)], proptest::collection::vec(proptest::array::uniform4(0u16..=400), 0..4))
        })
        .prop_map(|(total, thr, r, mode, when, completions)| {
            // 1 in 32 count thresholds is pushed above the total (unreachable count)
            let thr = match thr {
                Thr::Count(w) if r[4] == 8 && r[0] % 4 == 0 && total < u64::MAX - 10 => Thr::Count(total + 1 + (w % 10)),
                t => t,
            };
            TCase { thr, total, tally: make_tally(thr, total, r, mode), when, completions }
        })
        .boxed()
}

const EXPIRY_HEIGHT: u64 = 1000;

const BLOCK_NANOS: u64 = 1_600_000_000_123_456_789;

pub fn build_proposal(thr: Thr, total: u64, t: &Tally, status: Status) -> Proposal {
    build_proposal_at(thr, total, t, status, When::Before)
}

pub fn build_proposal_at(thr: Thr, total: u64, t: &Tally, status: Status, when: When) -> Proposal {
    let mut p = build_proposal_h(thr, total, t, status);
    p.expires = match when {
        When::Never => Expiration::Never {},
        When::TimeBefore => Expiration::AtTime(Timestamp::from_nanos(BLOCK_NANOS + 1)),
        When::TimeAt => Expiration::AtTime(Timestamp::from_nanos(BLOCK_NANOS)),
        When::TimeAfter => Expiration::AtTime(Timestamp::from_nanos(BLOCK_NANOS - 1)),
        _ => Expiration::AtHeight(EXPIRY_HEIGHT),
    };
    p
}

fn build_proposal_h(thr: Thr, total: u64, t: &Tally, status: Status) -> Proposal {
    Proposal {
        title: "t".into(),
        description: "d".into(),
        start_height: 900,
        expires: Expiration::AtHeight(EXPIRY_HEIGHT),
        msgs: vec![],
        status,
        threshold: thr.to_threshold(),
        total_weight: total,
        votes: Votes { yes: t.yes, no: t.no, abstain: t.abstain, veto: t.veto },
        proposer: Addr::unchecked("proposer"),
        deposit: None,
    }
}

fn block(when: When) -> BlockInfo {
    let height = match when {
        When::Before => EXPIRY_HEIGHT - 1,
        When::AtExpiry => EXPIRY_HEIGHT,
        When::After => EXPIRY_HEIGHT + 7,
        _ => EXPIRY_HEIGHT + 3,
    };
    BlockInfo { height, time: Timestamp::from_nanos(BLOCK_NANOS), chain_id: "verif".into() }
}

fn v(sig: &str, msg: String) -> Violation {
    Violation::new("C04", &format!("C04/{sig}"), msg)
}

pub fn run_tcase(c: &TCase, ctx: &mut CaseCtx) -> Result<(), Violation> {
    let TCase { thr, total, tally, when, .. } = c.clone();
    if tally.total() > total as u128 {
        ctx.count("out_of_domain");
        return Ok(());
    }
    let p = build_proposal_at(thr, total, &tally, Status::Open, when);
    let b = block(when);
    let expired = when.expired();
    let desc = format!("{:?} total={} tally={:?} {:?}", thr, total, tally, when);
    if let Thr::Count(w) = thr {
        if w == 0 {
            ctx.count("out_of_domain");
            return Ok(());
        }
        if w > total {
            // a count no tally can reach (Threshold::validate refuses it at instantiation, but a group can
            // shrink below it later): the formula still applies - it can never pass. is_rejected /
            // current_status subtract the count from the total and may abort here; only is_passed is judged.
            ctx.count("count_above_total");
            if let Ok(true) = catch_unwind(AssertUnwindSafe(|| p.is_passed(&b))) {
                return Err(v("unreachable-count-passed", format!("is_passed is true although the required count exceeds everything the tally can hold: {desc}")));
            }
            if let Ok(Status::Passed) = catch_unwind(AssertUnwindSafe(|| p.current_status(&b))) {
                return Err(v("unreachable-count-passed", format!("current_status is Passed although the required count exceeds the total weight: {desc}")));
            }
            return Ok(());
        }
    }

    let lib = catch_unwind(AssertUnwindSafe(|| (p.is_passed(&b), p.is_rejected(&b), p.current_status(&b))));
    let (lib_pass, lib_rej, cur) = match lib {
        Ok(x) => x,
        Err(_) => return Err(v("panic", format!("decision functions panicked inside the documented domain: {desc}"))),
    };
    let nine = thr.nine_decimals();
    let slack: u128 = if nine { 0 } else { 1 };
    ctx.count(if nine { "pct_le_9_decimals" } else { "pct_18_decimals" });
    ctx.count(match thr {
        Thr::Count(_) => "thr_count",
        Thr::Pct(_) => "thr_pct",
        Thr::Quorum { .. } => "thr_quorum",
    });

    if lib_pass && tally.yes == 0 {
        if ctx.tolerate("C04/passed-with-zero-yes") {
            return Ok(());
        }
        return Err(v("passed-with-zero-yes", format!("is_passed is true with zero Yes weight: {desc}")));
    }
    if cur == Status::Passed && tally.yes == 0 {
        return Err(v("passed-with-zero-yes", format!("current_status is Passed with zero Yes weight: {desc}")));
    }
    if lib_pass && lib_rej {
        return Err(v("both-passed-and-rejected", format!("is_passed and is_rejected are both true: {desc}")));
    }

    if expired {
        let exact = passes_at_expiry(thr, total, &tally, 0);
        let relaxed = passes_at_expiry(thr, total, &tally, slack);
        if exact && !lib_pass {
            return Err(v("expired-stricter-than-exact", format!("the exact formula passes but is_passed is false after expiry: {desc}")));
        }
        if lib_pass && !relaxed {
            return Err(v("expired-passes-below-threshold", format!("is_passed is true after expiry but the {} formula (required Yes rounded up) fails: {desc}", if nine { "exact" } else { "within-one-vote" })));
        }
        if exact && cur != Status::Passed {
            return Err(v("status-expired", format!("current_status is {:?} after expiry although the exact formula passes: {desc}", cur)));
        }
        if !relaxed && cur != Status::Rejected {
            return Err(v("status-expired", format!("current_status is {:?} after expiry although the formula fails (must be Rejected): {desc}", cur)));
        }
        if cur == Status::Open {
            return Err(v("status-expired", format!("current_status is Open after expiry: {desc}")));
        }
        if lib_rej && exact {
            return Err(v("rejected-but-passes", format!("is_rejected is true after expiry although the exact formula passes: {desc}")));
        }
        ctx.count(if lib_pass { "expired_pass" } else { "expired_fail" });
    } else {
        // soundness of early decisions
        let small = total <= 12;
        let (all_pass, none_exact) = if small {
            let (all_relaxed, _, n) = enumerate_completions(thr, total, &tally, slack);
            let (all_exact, none_exact, _) = enumerate_completions(thr, total, &tally, 0);
            ctx.add("completions_enumerated", n);
            // harness self-check: closed forms agree with the enumeration
            assert_eq!(certain_pass(thr, total, &tally, 0), all_exact, "closed form certain_pass disagrees with enumeration: {desc}");
            assert_eq!(certain_pass(thr, total, &tally, slack), all_relaxed, "closed form certain_pass(slack) disagrees with enumeration: {desc}");
            assert_eq!(!can_still_pass(thr, total, &tally, 0), none_exact, "closed form can_still_pass disagrees with enumeration: {desc}");
            ctx.flag("enumerated");
            (all_relaxed, none_exact)
        } else {
            (certain_pass(thr, total, &tally, slack), !can_still_pass(thr, total, &tally, 0))
        };
        if lib_pass && !all_pass {
            return Err(v("early-pass-unsound", format!("is_passed is true before expiry but some completion of the outstanding votes fails at expiry: {desc}")));
        }
        if lib_rej && !none_exact {
            return Err(v("early-reject-unsound", format!("is_rejected is true before expiry but some completion of the outstanding votes passes at expiry: {desc}")));
        }
        if cur == Status::Passed && !all_pass {
            return Err(v("early-pass-unsound", format!("current_status is Passed before expiry but some completion fails: {desc}")));
        }
        if cur == Status::Rejected && !none_exact {
            return Err(v("early-reject-unsound", format!("current_status is Rejected before expiry but some completion passes: {desc}")));
        }
        // explicit completions for large totals (redundant with the closed form, guards the closed form)
        if !small && (lib_pass || lib_rej) {
            let u = total as u128 - tally.total();
            for sh in &c.completions {
                let s: u128 = sh.iter().map(|x| *x as u128).sum();
                if s > 1000 {
                    continue;
                }
                let part = |k: u16| -> u64 { (u * k as u128 / 1000) as u64 };
                let f = Tally { yes: tally.yes + part(sh[0]), no: tally.no + part(sh[1]), abstain: tally.abstain + part(sh[2]), veto: tally.veto + part(sh[3]) };
                ctx.count("explicit_completions");
                if lib_pass && !passes_at_expiry(thr, total, &f, slack) {
                    return Err(v("early-pass-unsound", format!("is_passed is true before expiry but completion {:?} fails at expiry: {desc}", f)));
                }
                if lib_rej && passes_at_expiry(thr, total, &f, 0) {
                    return Err(v("early-reject-unsound", format!("is_rejected is true before expiry but completion {:?} passes at expiry: {desc}", f)));
                }
            }
        }
        // measured, not asserted: completeness of the early decisions
        if certain_pass(thr, total, &tally, 0) {
            ctx.count("certain_pass_cases");
            if lib_pass {
                ctx.count("certain_pass_reported");
            }
        }
        if !can_still_pass(thr, total, &tally, 0) {
            ctx.count("cannot_pass_cases");
            if lib_rej {
                ctx.count("cannot_pass_reported");
            }
        }
        ctx.count(if lib_pass { "early_pass" } else if lib_rej { "early_reject" } else { "open" });
    }

    // non-triviality: within +-1 of a decision boundary, or huge total, or abstain with tiny base
    let base = total as u128 - tally.abstain as u128;
    let y = tally.yes as u128;
    let near = |needed: u128| -> bool { y + 1 >= needed && y <= needed + 1 };
    let boundary = match thr {
        Thr::Count(w) => near(w as u128),
        Thr::Pct(p) => near(ceil_mul(base, p)),
        Thr::Quorum { threshold, quorum } => {
            let opinions = tally.total() - tally.abstain as u128;
            let q = ceil_mul(total as u128, quorum);
            near(ceil_mul(base, threshold)) || near(ceil_mul(opinions, threshold)) || (tally.total() + 1 >= q && tally.total() <= q + 1)
        }
    };
    if boundary {
        ctx.flag("boundary");
    }
    if total >= (1 << 32) {
        ctx.flag("huge_total");
    }
    if tally.abstain > 0 && base <= 2 {
        ctx.flag("abstain_tiny_base");
    }
    ctx.nontrivial = boundary || total >= (1 << 32) || (tally.abstain > 0 && base <= 2);
    Ok(())
}

pub struct TallyFamily;

impl Family for TallyFamily {
    type Case = TCase;
    fn name(&self) -> &'static str {
        "cw3lib"
    }
    fn props(&self) -> Vec<PropSpec> {
        vec![PropSpec {
            id: "C04", quick_cases: 3000000, thorough_cases: 8_000_000, floor: 300000,
            rule: "case = (threshold of one of the three kinds valid for the total, total weight from {0..12, 13..1e4, near 2^32, near 2^64-1, uniform u64}, a split into yes/no/abstain/veto/unvoted built from fractions or placed at a yes / no / quorum decision boundary +-2, block before / exactly at / after expiry); percentages with <= 9 decimals are compared exactly, 18-decimal ones within one vote and never stricter; for totals <= 12 every completion of the outstanding votes is enumerated (and the closed forms used for large totals are cross-checked against the enumeration). Non-trivial: tally within +-1 of a decision boundary, or total >= 2^32, or an abstain with base <= 2; distinct = distinct canonical JSON.",
            assumptions: &["Decimal / Uint128 arithmetic of cosmwasm-std is trusted", "Threshold::validate bounds (percentage in [0.5,1], quorum in (0,1], 1 <= count <= total) define the domain"],
        }]
    }
    fn strategy(&self, _prop: &str, tier: Tier) -> BoxedStrategy<TCase> {
        tcase_strategy(tier)
    }
    fn run(&self, _prop: &str, case: &TCase, ctx: &mut CaseCtx) -> Result<(), Violation> {
        run_tcase(case, ctx)
    }
    fn decode(&self, _prop: &str, u: &mut arbitrary::Unstructured) -> Option<TCase> {
        Some(decode_tcase(u))
    }
}

/// byte decoder (fuzz front-end)
pub fn decode_tcase(u: &mut arbitrary::Unstructured) -> TCase {
    use vcore::amounts::{arb_below, arb_u64};
    let total: u64 = match arb_below(u, 6) {
        0 | 1 => arb_below(u, 13) as u64,
        2 => 13 + u.arbitrary::<u16>().unwrap_or(0) as u64 % 10_000,
        _ => arb_u64(u),
    };
    let pct = |u: &mut arbitrary::Unstructured, lo: u128| -> u128 {
        let v = match arb_below(u, 5) {
            0 => lo.max(1),
            1 => ONE,
            2 => (u.arbitrary::<u32>().unwrap_or(0) as u128 % 1_000_000_001) * 1_000_000_000,
            3 => {
                // a hair above j/base
                let base = (total as u128).saturating_sub(arb_below(u, 3) as u128).max(1);
                let j = (u.arbitrary::<u64>().unwrap_or(0) as u128) % (base + 1);
                let d = arb_below(u, 4) as u128;
                if arb_below(u, 2) == 0 {
                    (j * 1_000_000_000 / base + d) * 1_000_000_000
                } else {
                    j * ONE / base + d
                }
            }
            _ => u.arbitrary::<u64>().unwrap_or(0) as u128 % (ONE + 1),
        };
        v.clamp(lo.max(1), ONE)
    };
    let thr = match arb_below(u, if total == 0 { 2 } else { 3 }) {
        0 => Thr::Pct(pct(u, ONE / 2)),
        1 => Thr::Quorum { threshold: pct(u, ONE / 2), quorum: pct(u, 0) },
        _ => {
            if arb_below(u, 16) == 0 && total < u64::MAX - 10 {
                Thr::Count(total + 1 + arb_below(u, 10) as u64)
            } else {
                Thr::Count(1 + (u.arbitrary::<u64>().unwrap_or(0) % total))
            }
        }
    };
    let mut r = [0u8; 5];
    for x in r.iter_mut() {
        *x = arb_below(u, 9) as u8;
    }
    let d = |u: &mut arbitrary::Unstructured| arb_below(u, 5) as i8 - 2;
    let mode = match arb_below(u, 12) {
        0..=2 => Mode::Fractions,
        3 => Mode::AllAbstain,
        4 => Mode::AllVeto,
        5 => Mode::Nothing,
        6 => Mode::AllYes,
        7 => Mode::YesBoundaryOpen(d(u)),
        8 | 9 => Mode::YesBoundaryExpired(d(u)),
        10 => Mode::QuorumBoundary(d(u)),
        _ => Mode::NoBoundary(d(u)),
    };
    let when = match arb_below(u, 12) {
        0..=3 => When::Before,
        4 | 5 => When::AtExpiry,
        6..=8 => When::After,
        9 => When::Never,
        10 => [When::TimeBefore, When::TimeAt][arb_below(u, 2)],
        _ => When::TimeAfter,
    };
    let n = arb_below(u, 4);
    let completions = (0..n).map(|_| [arb_below(u, 401) as u16, arb_below(u, 401) as u16, arb_below(u, 401) as u16, arb_below(u, 401) as u16]).collect();
    TCase { thr, total, tally: make_tally(thr, total, r, mode), when, completions }
}
