//! Exact-arithmetic reference model of the cw3 threshold rules, written from the
//! cw3 spec text (cw-utils `ThresholdResponse` docs) and the property statements,
//! not from packages/cw3/src/proposal.rs.
use cosmwasm_std::Decimal;
use cw_utils::Threshold;
use proptest::prelude::*;
use serde::{Deserialize, Serialize};

pub const ONE: u128 = 1_000_000_000_000_000_000; // Decimal atomics of 1.0

/// Threshold as plain numbers (Decimal atomics, 18 decimals)
#[derive(Clone, Copy, Debug, Serialize, Deserialize, PartialEq, Eq)]
pub enum Thr {
    Count(u64),
    Pct(u128),
    Quorum { threshold: u128, quorum: u128 },
}

impl Thr {
    pub fn to_threshold(self) -> Threshold {
        match self {
            Thr::Count(w) => Threshold::AbsoluteCount { weight: w },
            Thr::Pct(p) => Threshold::AbsolutePercentage { percentage: Decimal::from_atomics(p, 18).unwrap() },
            Thr::Quorum { threshold, quorum } => Threshold::ThresholdQuorum {
                threshold: Decimal::from_atomics(threshold, 18).unwrap(),
                quorum: Decimal::from_atomics(quorum, 18).unwrap(),
            },
        }
    }
    /// every percentage involved has at most 9 decimal places
    pub fn nine_decimals(self) -> bool {
        let ok = |a: u128| a % 1_000_000_000 == 0;
        match self {
            Thr::Count(_) => true,
            Thr::Pct(p) => ok(p),
            Thr::Quorum { threshold, quorum } => ok(threshold) && ok(quorum),
        }
    }
}

#[derive(Clone, Copy, Debug, Serialize, Deserialize, PartialEq, Eq, Default)]
pub struct Tally {
    pub yes: u64,
    pub no: u64,
    pub abstain: u64,
    pub veto: u64,
}

impl Tally {
    pub fn total(&self) -> u128 {
        self.yes as u128 + self.no as u128 + self.abstain as u128 + self.veto as u128
    }
}

/// ceil(w * p) for p given in 18-decimal atomics, exact (w < 2^64, p <= 10^18)
pub fn ceil_mul(w: u128, p_atomics: u128) -> u128 {
    let prod = w * p_atomics; // < 2^64 * 10^18 < 2^124
    prod.div_ceil(ONE)
}

/// Outcome at expiry of a final tally, exact. `slack` = 0 for the exact rule; 1 gives the
/// "within one vote" relaxation (each rounded-up requirement lowered by one) used for
/// percentages with more than 9 decimals.
pub fn passes_at_expiry(thr: Thr, total: u64, t: &Tally, slack: u128) -> bool {
    if t.yes == 0 {
        return false;
    }
    let y = t.yes as u128;
    match thr {
        Thr::Count(w) => y >= w as u128,
        Thr::Pct(p) => {
            let base = (total as u128).saturating_sub(t.abstain as u128);
            y >= ceil_mul(base, p).saturating_sub(slack)
        }
        Thr::Quorum { threshold, quorum } => {
            let voted = t.total();
            let opinions = voted - t.abstain as u128;
            voted >= ceil_mul(total as u128, quorum).saturating_sub(slack) && y >= ceil_mul(opinions, threshold).saturating_sub(slack)
        }
    }
}

/// "certain to pass": the rule is satisfied by every completion of the outstanding votes
/// (closed form: the worst completion is "nobody else votes" for count / percentage, and
/// "everybody outstanding votes No" for the threshold part of a quorum rule, with the quorum
/// required on the votes cast so far).
pub fn certain_pass(thr: Thr, total: u64, t: &Tally, slack: u128) -> bool {
    if t.yes == 0 {
        return false;
    }
    let y = t.yes as u128;
    match thr {
        Thr::Count(w) => y >= w as u128,
        Thr::Pct(p) => y >= ceil_mul((total as u128).saturating_sub(t.abstain as u128), p).saturating_sub(slack),
        Thr::Quorum { threshold, quorum } => {
            t.total() >= ceil_mul(total as u128, quorum).saturating_sub(slack)
                && y >= ceil_mul((total as u128).saturating_sub(t.abstain as u128), threshold).saturating_sub(slack)
        }
    }
}

/// Can some completion of the outstanding votes still pass at expiry? (closed form:
/// the best completion is "everybody outstanding votes Yes")
pub fn can_still_pass(thr: Thr, total: u64, t: &Tally, slack: u128) -> bool {
    let outstanding = (total as u128).saturating_sub(t.total());
    let best = Tally { yes: (t.yes as u128 + outstanding).min(u64::MAX as u128) as u64, ..*t };
    passes_at_expiry(thr, total, &best, slack)
}

/// Enumerate every completion (outstanding weight split over yes/no/abstain/veto/unvoted)
/// and report (all pass, none passes). Only for small totals.
pub fn enumerate_completions(thr: Thr, total: u64, t: &Tally, slack: u128) -> (bool, bool, u64) {
    let u = (total as u128).saturating_sub(t.total()) as u64;
    let mut all = true;
    let mut none = true;
    let mut n = 0u64;
    for dy in 0..=u {
        for dn in 0..=(u - dy) {
            for da in 0..=(u - dy - dn) {
                for dv in 0..=(u - dy - dn - da) {
                    let f = Tally { yes: t.yes + dy, no: t.no + dn, abstain: t.abstain + da, veto: t.veto + dv };
                    n += 1;
                    if passes_at_expiry(thr, total, &f, slack) {
                        none = false;
                    } else {
                        all = false;
                    }
                }
            }
        }
    }
    (all, none, n)
}

// ------------------------------------------------------------------ strategies

/// a percentage in [lo, 1] (atomics) with d <= 9 decimals, or arbitrary 18 decimals
fn pct_in(lo: u128, fine_weight: u32) -> BoxedStrategy<u128> {
    let lo9 = lo.div_ceil(1_000_000_000); // in units of 1e-9
    let mut arms: Vec<(u32, BoxedStrategy<u128>)> = vec![
        (4, Just(lo.max(1)).boxed()),
        (4, Just(ONE).boxed()),
        (
            6,
            (0u32..=9)
                .prop_flat_map(move |d| {
                    let unit = 10u128.pow(18 - d);
                    let lo_k = lo.div_ceil(unit).max(if lo == 0 { 1 } else { 0 });
                    let hi_k = ONE / unit;
                    (lo_k..=hi_k).prop_map(move |k| k * unit)
                })
                .boxed(),
        ),
        (
            6,
            prop_oneof![
                Just(ONE / 2),
                Just(ONE * 51 / 100),
                Just(ONE * 2 / 3 / 1_000_000_000 * 1_000_000_000),
                Just(ONE * 3 / 4),
                Just(ONE / 3 / 1_000_000_000 * 1_000_000_000),
                Just(ONE / 10),
                Just(ONE / 100),
                Just(1_000_000_000u128)
            ]
            .prop_map(move |v| v.max(lo.max(1)))
            .boxed(),
        ),
        (4, (lo9.max(1)..=1_000_000_000u128).prop_map(|k| k * 1_000_000_000).boxed()),
        (fine_weight, (lo.max(1)..=ONE).boxed()),
    ];
    arms.retain(|(w, _)| *w > 0);
    proptest::strategy::Union::new_weighted(arms).boxed()
}

/// Valid thresholds for a group of weight `total` (as `Threshold::validate` accepts them).
/// `fine` = weight of percentages with more than 9 decimals.
pub fn thr_strategy(total: u64, fine: u32) -> BoxedStrategy<Thr> {
    let count = if total == 0 {
        Just(Thr::Count(1)).boxed()
    } else {
        prop_oneof![
            3 => (1u64..=total).prop_map(Thr::Count),
            1 => Just(Thr::Count(total)),
            1 => Just(Thr::Count(1)),
            1 => Just(Thr::Count(total / 2 + 1)),
        ]
        .boxed()
    };
    // percentages a hair above (or exactly at) a rational j/base: there w*p is an integer plus a
    // tiny fraction, which is where rounding mistakes show
    let near = move |lo: u128| -> BoxedStrategy<u128> {
        let t = total.max(1) as u128;
        (0u128..=t, 0u128..=3, 0u128..=2, any::<bool>())
            .prop_map(move |(j, delta, sub, nine)| {
                let base = t.saturating_sub(sub).max(1);
                let j = j.min(base);
                let p = if nine { (j * 1_000_000_000 / base + delta) * 1_000_000_000 } else { j * ONE / base + delta };
                p.clamp(lo.max(1), ONE)
            })
            .boxed()
    };
    prop_oneof![
        3 => count,
        4 => pct_in(ONE / 2, fine).prop_map(Thr::Pct),
        2 => near(ONE / 2).prop_map(Thr::Pct),
        5 => (pct_in(ONE / 2, fine), pct_in(0, fine)).prop_map(|(threshold, quorum)| Thr::Quorum { threshold, quorum }),
        2 => (near(ONE / 2), pct_in(0, fine)).prop_map(|(threshold, quorum)| Thr::Quorum { threshold, quorum }),
        1 => (pct_in(ONE / 2, fine), near(0)).prop_map(|(threshold, quorum)| Thr::Quorum { threshold, quorum }),
    ]
    .boxed()
}
