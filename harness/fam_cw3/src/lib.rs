//! cw3 family: C04 (library-level threshold arithmetic, module `tally`) and the
//! contract-level properties C03, C05, C06, C15 (module `multisig`).
pub mod chain;
pub mod model;
pub mod multisig;
pub mod tally;
