//! cw20-base: AllAccounts, AllAllowances{owner}, AllSpenderAllowances{spender} (direct driver).
use crate::{creation_order, must, removal_plan, sorted_addrs, to_value, Built, Case, Item, Key, Listing, Target};
use cosmwasm_std::{Addr, Uint128};
use cw20::{
    AllAccountsResponse, AllAllowancesResponse, AllSpenderAllowancesResponse, AllowanceResponse, BalanceResponse,
    Cw20Coin, Cw20ExecuteMsg,
};
use cw20_base::msg::{InstantiateMsg, QueryMsg};
use cw_utils::Expiration;
use serde_json::{json, Value};
use std::collections::BTreeSet;
use vcore::direct::Direct;
use vcore::CaseCtx;

struct Cw20Target {
    d: Direct,
    listing: Listing,
    /// the owner (AllAllowances) or spender (AllSpenderAllowances)
    pivot: String,
}

impl Cw20Target {
    fn q<T: serde::de::DeserializeOwned>(&self, msg: QueryMsg) -> Result<T, String> {
        self.d.query(|deps, env| cw20_base::contract::query(deps, env, msg))
    }
}

fn cursor_str(c: Option<&Key>) -> Option<String> {
    c.map(|k| match k {
        Key::Addr(a) => a.clone(),
        Key::Id(i) => i.to_string(),
    })
}

impl Target for Cw20Target {
    fn page(&self, cursor: Option<&Key>, limit: Option<u32>) -> Result<Vec<Item>, String> {
        let start_after = cursor_str(cursor);
        match self.listing {
            Listing::Cw20Accounts => {
                let r: AllAccountsResponse = self.q(QueryMsg::AllAccounts { start_after, limit })?;
                Ok(r.accounts.into_iter().map(|a| Item { key: Key::Addr(a), value: Value::Null }).collect())
            }
            Listing::Cw20OwnerAllowances => {
                let r: AllAllowancesResponse = self.q(QueryMsg::AllAllowances { owner: self.pivot.clone(), start_after, limit })?;
                Ok(r.allowances
                    .into_iter()
                    .map(|a| Item { key: Key::Addr(a.spender), value: json!({"allowance": a.allowance, "expires": to_value(&a.expires)}) })
                    .collect())
            }
            _ => {
                let r: AllSpenderAllowancesResponse =
                    self.q(QueryMsg::AllSpenderAllowances { spender: self.pivot.clone(), start_after, limit })?;
                Ok(r.allowances
                    .into_iter()
                    .map(|a| Item { key: Key::Addr(a.owner), value: json!({"allowance": a.allowance, "expires": to_value(&a.expires)}) })
                    .collect())
            }
        }
    }

    fn point(&self, key: &Key) -> Result<Option<Value>, String> {
        let Key::Addr(a) = key else { return Err("id key on an address listing".into()) };
        match self.listing {
            Listing::Cw20Accounts => {
                // Balance answers for every address; an account "exists" for the point query
                // when it has a balance. The list entry carries no payload.
                let _r: BalanceResponse = self.q(QueryMsg::Balance { address: a.clone() })?;
                Ok(Some(Value::Null))
            }
            Listing::Cw20OwnerAllowances => {
                let r: AllowanceResponse = self.q(QueryMsg::Allowance { owner: self.pivot.clone(), spender: a.clone() })?;
                Ok(Some(json!({"allowance": r.allowance, "expires": to_value(&r.expires)})))
            }
            _ => {
                let r: AllowanceResponse = self.q(QueryMsg::Allowance { owner: a.clone(), spender: self.pivot.clone() })?;
                Ok(Some(json!({"allowance": r.allowance, "expires": to_value(&r.expires)})))
            }
        }
    }
}

fn exec(d: &mut Direct, sender: &Addr, msg: Cw20ExecuteMsg) -> Result<(), String> {
    let info = Direct::info(sender, &[]);
    d.tx(|deps, env| cw20_base::contract::execute(deps, env, info, msg)).map(|_| ())
}

fn balance(d: &Direct, a: &Addr) -> u128 {
    let r: BalanceResponse = must(
        d.query(|deps, env| cw20_base::contract::query(deps, env, QueryMsg::Balance { address: a.to_string() })),
        "balance query",
    );
    r.balance.u128()
}

pub fn build(case: &Case, ctx: &mut CaseCtx) -> Built {
    let mut d = Direct::new();
    let n = case.n as usize;
    let cands = sorted_addrs(&d.api, "acct", n);
    let plan = removal_plan(n, &case.deletions);
    let order = creation_order(n, case.variant);
    let bank = d.api.addr_make("bank");
    let pivot = d.api.addr_make("pivot");
    let other = d.api.addr_make("other-pivot");

    let mut required: BTreeSet<Key> = BTreeSet::new();
    let mut optional: BTreeSet<Key> = BTreeSet::new();

    match case.listing {
        Listing::Cw20Accounts => {
            // half of the candidates get their balance at instantiation, the rest by transfer
            let amount = |s: usize| -> u128 {
                if (s + case.variant as usize) % 13 == 5 {
                    0
                } else {
                    1 + (s as u128 * 7) % 50
                }
            };
            let mut initial = vec![Cw20Coin { address: bank.to_string(), amount: Uint128::new(1_000_000) }];
            let (first, second) = order.split_at(n / 2);
            for &s in first {
                initial.push(Cw20Coin { address: cands[s].to_string(), amount: Uint128::new(amount(s)) });
            }
            let msg = InstantiateMsg { name: "Paged".into(), symbol: "PAGE".into(), decimals: 6, initial_balances: initial, mint: None, marketing: None };
            let info = Direct::info(&bank, &[]);
            must(d.tx(|deps, env| cw20_base::contract::instantiate(deps, env, info, msg)).map(|_| ()), "cw20 instantiate");
            for &s in second {
                must(
                    exec(&mut d, &bank, Cw20ExecuteMsg::Transfer { recipient: cands[s].to_string(), amount: Uint128::new(amount(s)) }),
                    "transfer to candidate",
                );
                if s % 9 == 0 {
                    d.advance(1, 5);
                }
            }
            // "deletions": the holder burns or sends away everything (the entry stays in storage)
            for (s, r) in plan.iter().enumerate() {
                if r.is_some() {
                    let bal = balance(&d, &cands[s]);
                    if bal > 0 {
                        let msg = if s % 2 == 0 {
                            Cw20ExecuteMsg::Burn { amount: Uint128::new(bal) }
                        } else {
                            Cw20ExecuteMsg::Transfer { recipient: bank.to_string(), amount: Uint128::new(bal) }
                        };
                        must(exec(&mut d, &cands[s], msg), "empty an account");
                        ctx.count("cw20_account_emptied");
                    }
                }
            }
            for c in cands.iter().chain(std::iter::once(&bank)) {
                if balance(&d, c) > 0 {
                    required.insert(Key::Addr(c.to_string()));
                } else {
                    optional.insert(Key::Addr(c.to_string()));
                }
            }
        }
        Listing::Cw20OwnerAllowances | Listing::Cw20SpenderAllowances => {
            let by_owner = case.listing == Listing::Cw20OwnerAllowances;
            // everybody holds tokens so that allowances can be drawn on
            // in a quarter of the cases the pivot never holds any tokens (granting needs no balance;
            // receiving allowances neither): the listings must not depend on an account record
            let unfunded_pivot = case.variant % 4 == 3;
            if unfunded_pivot {
                ctx.count("cw20_allowances_unfunded_pivot");
            }
            let mut initial = vec![Cw20Coin { address: other.to_string(), amount: Uint128::new(1_000_000) }];
            if !unfunded_pivot {
                initial.push(Cw20Coin { address: pivot.to_string(), amount: Uint128::new(1_000_000) });
            }
            for c in &cands {
                initial.push(Cw20Coin { address: c.to_string(), amount: Uint128::new(1000) });
            }
            let msg = InstantiateMsg { name: "Paged".into(), symbol: "PAGE".into(), decimals: 6, initial_balances: initial, mint: None, marketing: None };
            let info = Direct::info(&bank, &[]);
            must(d.tx(|deps, env| cw20_base::contract::instantiate(deps, env, info, msg)).map(|_| ()), "cw20 instantiate");
            let h0 = d.height;
            let t0 = d.time;
            for &s in &order {
                let (owner, spender) = if by_owner { (&pivot, &cands[s]) } else { (&cands[s], &pivot) };
                // some grants are short-lived: they lapse before the listing is read (and stay listed, lapsed)
                let short_lived = s % 10 == 6;
                let expires = match (s + case.variant as usize) % 4 {
                    _ if short_lived => Some(if s % 20 == 6 { Expiration::AtHeight(d.height + 50) } else { Expiration::AtTime(cosmwasm_std::Timestamp::from_seconds(d.time + 250)) }),
                    0 => None,
                    1 => Some(Expiration::Never {}),
                    2 => Some(Expiration::AtHeight(h0 + 100_000 + s as u64)),
                    _ => Some(Expiration::AtTime(cosmwasm_std::Timestamp::from_seconds(t0 + 10_000_000 + s as u64))),
                };
                // some grants carry no amount at all (they only register a deadline): entries like any other
                let granted = if s % 9 == 4 { 0 } else { 10 + s as u128 };
                must(
                    exec(&mut d, owner, Cw20ExecuteMsg::IncreaseAllowance { spender: spender.to_string(), amount: Uint128::new(granted), expires }),
                    "increase allowance",
                );
                // the same counterparties under a different prefix must not leak into this listing (cases that go
                // through an upgrade hold many more of them: the old allowance table has owners with one, two and
                // three spenders, more than a hundred entries in all)
                let upgrading = !by_owner && case.variant % 5 == 2;
                if upgrading && s % 3 == 0 {
                    let other2 = d.api.addr_make("spender-c");
                    must(
                        exec(&mut d, &cands[s], Cw20ExecuteMsg::IncreaseAllowance { spender: other2.to_string(), amount: Uint128::new(6), expires: None }),
                        "increase allowance (a spender that sorts before the pivot)",
                    );
                }
                if s % 6 == 1 || (upgrading && s % 2 == 0) {
                    let (o2, s2) = if by_owner { (&other, &cands[s]) } else { (&cands[s], &other) };
                    must(
                        exec(&mut d, o2, Cw20ExecuteMsg::IncreaseAllowance { spender: s2.to_string(), amount: Uint128::new(5), expires: None }),
                        "increase allowance (other prefix)",
                    );
                }
                if s % 11 == 0 {
                    d.advance(1, 5);
                }
            }
            for (s, r) in plan.iter().enumerate() {
                let (owner, spender) = if by_owner { (&pivot, &cands[s]) } else { (&cands[s], &pivot) };
                if r.is_some() {
                    // decrease to zero (exactly, or by more than granted): removes the entry
                    let amt = if s % 2 == 0 { 10 + s as u128 } else { u128::MAX };
                    must(
                        exec(&mut d, owner, Cw20ExecuteMsg::DecreaseAllowance { spender: spender.to_string(), amount: Uint128::new(amt), expires: None }),
                        "decrease allowance to zero",
                    );
                    ctx.count("cw20_allowance_removed");
                } else {
                    // value changes on surviving entries (not on the grants without an amount: any decrease
                    // removes those, and nothing can be drawn on them)
                    let empty_grant = s % 9 == 4;
                    if s % 5 == 0 && !empty_grant {
                        must(
                            exec(&mut d, owner, Cw20ExecuteMsg::DecreaseAllowance { spender: spender.to_string(), amount: Uint128::new(3), expires: None }),
                            "partial decrease",
                        );
                    }
                    if s % 7 == 0 && !empty_grant && !(unfunded_pivot && by_owner) {
                        must(
                            exec(&mut d, spender, Cw20ExecuteMsg::TransferFrom { owner: owner.to_string(), recipient: bank.to_string(), amount: Uint128::new(2) }),
                            "partial draw",
                        );
                    }
                    // the mirrored allowance (the two addresses swap roles) is granted and drawn down to exactly
                    // zero: the listed entry is untouched by that
                    if s % 8 == 3 && !(unfunded_pivot && !by_owner) {
                        must(
                            exec(&mut d, spender, Cw20ExecuteMsg::IncreaseAllowance { spender: owner.to_string(), amount: Uint128::new(7), expires: None }),
                            "mirrored allowance",
                        );
                        must(
                            exec(&mut d, owner, Cw20ExecuteMsg::TransferFrom { owner: spender.to_string(), recipient: bank.to_string(), amount: Uint128::new(7) }),
                            "mirrored allowance drawn to zero",
                        );
                        ctx.count("cw20_mirrored_allowance_used_up");
                    }
                    required.insert(Key::Addr(cands[s].to_string()));
                }
            }
            // the short-lived grants lapse; their owners still trim some of them afterwards (a lapsed grant is
            // an entry like any other: it stays in both listings with what is left of it)
            d.advance(80, 400);
            for (s, r) in plan.iter().enumerate() {
                if r.is_none() && s % 10 == 6 && s % 9 != 4 {
                    let (owner, spender) = if by_owner { (&pivot, &cands[s]) } else { (&cands[s], &pivot) };
                    must(
                        exec(&mut d, owner, Cw20ExecuteMsg::DecreaseAllowance { spender: spender.to_string(), amount: Uint128::new(1), expires: None }),
                        "partial decrease of a lapsed grant",
                    );
                    ctx.count("cw20_lapsed_grant_trimmed");
                }
            }
        }
        _ => unreachable!(),
    }
    // a fifth of the spender listings go through an upgrade first: the state is turned back into a pre-0.14
    // image (no spender map, an old cw2 version string) and migrated; the listing must be complete afterwards
    if case.listing == Listing::Cw20SpenderAllowances && case.variant % 5 == 2 {
        let mut prefix = vec![0u8, "allowance_spender".len() as u8];
        prefix.extend_from_slice(b"allowance_spender");
        let doomed: Vec<Vec<u8>> = d.store.data.keys().filter(|k| k.starts_with(&prefix)).cloned().collect();
        for k in doomed {
            d.store.data.remove(&k);
        }
        let version = ["0.13.4", "0.9.1", "0.2.0", "0.10.3", "0.12.0-alpha1"][(case.variant as usize / 5) % 5];
        d.store.data.insert(b"contract_info".to_vec(), format!(r#"{{"contract":"crates.io:cw20-base","version":"{version}"}}"#).into_bytes());
        must(d.tx(|deps, env| cw20_base::contract::migrate(deps, env, cw20_base::msg::MigrateMsg {})).map(|_| ()), "migrate from a pre-0.14 image");
        ctx.count("cw20_spender_listing_after_migration");
    }
    d.advance(2, 11);
    Built {
        target: Box::new(Cw20Target { d, listing: case.listing, pivot: pivot.to_string() }),
        required,
        optional,
        descending: false,
        hidden_expired: 0,
    }
}
