//! cw3-flex-multisig backed by a cw4-group: ListProposals, ReverseProposals, ListVotes,
//! ListVoters. The multisig queries its group through the querier, so the state is
//! built on a cw-multi-test `App`; every call runs under `catch_unwind` (the App commits
//! only on success, so a panic is a failed call).
use crate::fixed::{proposal_msgs, vote_of};
use crate::{creation_order, must, removal_plan, sorted_addrs, to_value, Built, Case, Item, Key, Listing, Target};
use cosmwasm_std::{Addr, Empty};
use cw3::{ProposalListResponse, ProposalResponse, Vote, VoteListResponse, VoteResponse, VoterListResponse, VoterResponse};
use cw3_flex_multisig::msg::{ExecuteMsg, InstantiateMsg, QueryMsg};
use cw4::Member;
use cw_multi_test::{App, Contract, ContractWrapper, Executor};
use cw_utils::{Duration, Expiration, Threshold};
use serde::Serialize;
use serde_json::{json, Value};
use std::collections::BTreeSet;
use std::fmt::Debug;
use std::panic::{catch_unwind, AssertUnwindSafe};
use vcore::direct::panic_text;
use vcore::CaseCtx;

fn contract_flex() -> Box<dyn Contract<Empty>> {
    Box::new(ContractWrapper::new(
        cw3_flex_multisig::contract::execute,
        cw3_flex_multisig::contract::instantiate,
        cw3_flex_multisig::contract::query,
    ))
}

fn contract_group() -> Box<dyn Contract<Empty>> {
    Box::new(ContractWrapper::new(cw4_group::contract::execute, cw4_group::contract::instantiate, cw4_group::contract::query))
}

struct FlexTarget {
    app: App,
    flex: Addr,
    listing: Listing,
    proposal: u64,
}

impl FlexTarget {
    fn q<T: serde::de::DeserializeOwned>(&self, msg: QueryMsg) -> Result<T, String> {
        let r = catch_unwind(AssertUnwindSafe(|| self.app.wrap().query_wasm_smart::<T>(self.flex.clone(), &msg)));
        match r {
            Ok(Ok(t)) => Ok(t),
            Ok(Err(e)) => Err(e.to_string()),
            Err(p) => Err(format!("panic: {}", panic_text(p))),
        }
    }
}

impl Target for FlexTarget {
    fn page(&self, cursor: Option<&Key>, limit: Option<u32>) -> Result<Vec<Item>, String> {
        match self.listing {
            Listing::FlexProposals | Listing::FlexReverse => {
                let c = match cursor {
                    None => None,
                    Some(Key::Id(i)) => Some(*i),
                    Some(_) => return Err("address key on an id listing".into()),
                };
                let r: ProposalListResponse = if self.listing == Listing::FlexProposals {
                    self.q(QueryMsg::ListProposals { start_after: c, limit })?
                } else {
                    self.q(QueryMsg::ReverseProposals { start_before: c, limit })?
                };
                Ok(r.proposals.iter().map(|p| Item { key: Key::Id(p.id), value: to_value(p) }).collect())
            }
            Listing::FlexVotes => {
                let r: VoteListResponse = self.q(QueryMsg::ListVotes { proposal_id: self.proposal, start_after: cursor.map(|k| k.to_string()), limit })?;
                Ok(r.votes
                    .into_iter()
                    .map(|v| Item { key: Key::Addr(v.voter.clone()), value: json!({"proposal_id": v.proposal_id, "vote": to_value(&v.vote), "weight": v.weight}) })
                    .collect())
            }
            _ => {
                let r: VoterListResponse = self.q(QueryMsg::ListVoters { start_after: cursor.map(|k| k.to_string()), limit })?;
                Ok(r.voters.into_iter().map(|v| Item { key: Key::Addr(v.addr), value: json!({"weight": v.weight}) }).collect())
            }
        }
    }

    fn point(&self, key: &Key) -> Result<Option<Value>, String> {
        match (self.listing, key) {
            (Listing::FlexProposals | Listing::FlexReverse, Key::Id(i)) => {
                let r: ProposalResponse = self.q(QueryMsg::Proposal { proposal_id: *i })?;
                Ok(Some(to_value(&r)))
            }
            (Listing::FlexVotes, Key::Addr(a)) => {
                let r: VoteResponse = self.q(QueryMsg::Vote { proposal_id: self.proposal, voter: a.clone() })?;
                Ok(r.vote.map(|v| json!({"proposal_id": v.proposal_id, "vote": to_value(&v.vote), "weight": v.weight})))
            }
            (Listing::FlexVoters, Key::Addr(a)) => {
                let r: VoterResponse = self.q(QueryMsg::Voter { address: a.clone() })?;
                Ok(r.weight.map(|w| json!({"weight": w})))
            }
            _ => Err("key kind does not fit the listing".into()),
        }
    }
}

fn exec<T: Serialize + Debug>(app: &mut App, sender: &Addr, contract: &Addr, msg: &T) -> Result<(), String> {
    let r = catch_unwind(AssertUnwindSafe(|| app.execute_contract(sender.clone(), contract.clone(), msg, &[])));
    match r {
        Ok(Ok(_)) => Ok(()),
        Ok(Err(e)) => Err(format!("{:#}", e)),
        Err(p) => Err(format!("panic: {}", panic_text(p))),
    }
}

fn advance(app: &mut App, blocks: u64, secs: u64) {
    app.update_block(|b| {
        b.height += blocks;
        b.time = b.time.plus_seconds(secs);
    });
}

fn instantiate<T: Serialize>(app: &mut App, code: u64, sender: &Addr, msg: &T, label: &str) -> Addr {
    let r = catch_unwind(AssertUnwindSafe(|| app.instantiate_contract(code, sender.clone(), msg, &[], label, None)));
    match r {
        Ok(Ok(a)) => a,
        Ok(Err(e)) => panic!("setup step failed: instantiate {label}: {:#}", e),
        Err(p) => panic!("setup step failed: instantiate {label} panicked: {}", panic_text(p)),
    }
}

pub fn build(case: &Case, ctx: &mut CaseCtx) -> Built {
    let mut app = App::default();
    let api = *app.api();
    let n = case.n as usize;
    let plan = removal_plan(n, &case.deletions);
    let owner = api.addr_make("group-owner");
    let group_code = app.store_code(contract_group());
    let flex_code = app.store_code(contract_flex());
    let mut required: BTreeSet<Key> = BTreeSet::new();
    let mut proposal = 1u64;
    let mut descending = false;

    let flex: Addr;
    match case.listing {
        Listing::FlexVoters => {
            // the voters of the multisig are the members of its group
            let cands = sorted_addrs(&api, "member", n);
            let order = creation_order(n, case.variant);
            let weight = |s: usize| -> u64 {
                if (s + case.variant as usize) % 7 == 3 {
                    0
                } else {
                    1 + (s as u64 % 4)
                }
            };
            let anchor = api.addr_make("anchor-member");
            let (first, second) = order.split_at(n / 2);
            let mut members: Vec<Member> = first.iter().map(|&s| Member { addr: cands[s].to_string(), weight: weight(s) }).collect();
            // one member outside the candidate pool keeps the total weight positive
            members.push(Member { addr: anchor.to_string(), weight: 3 });
            let group = instantiate(&mut app, group_code, &owner, &cw4_group::msg::InstantiateMsg { admin: Some(owner.to_string()), members }, "group");
            advance(&mut app, 1, 5);
            flex = instantiate(
                &mut app,
                flex_code,
                &owner,
                &InstantiateMsg { group_addr: group.to_string(), threshold: Threshold::AbsoluteCount { weight: 1 }, max_voting_period: Duration::Height(1000), executor: None, proposal_deposit: None },
                "flex",
            );
            // the rest joins later, in chunks; removals in between
            let removed: Vec<usize> = (0..n).filter(|s| plan[*s].is_some()).collect();
            let mut early_removed: BTreeSet<usize> = BTreeSet::new();
            for chunk in second.chunks(17) {
                let add: Vec<Member> = chunk.iter().map(|&s| Member { addr: cands[s].to_string(), weight: weight(s) }).collect();
                // remove those planned removals that already are members (every second one now)
                let remove: Vec<String> = removed
                    .iter()
                    .filter(|s| first.contains(s) && *s % 2 == 0 && !early_removed.contains(s))
                    .map(|s| cands[*s].to_string())
                    .collect();
                for s in removed.iter().filter(|s| first.contains(s) && *s % 2 == 0) {
                    early_removed.insert(*s);
                }
                must(exec(&mut app, &owner, &group, &cw4_group::msg::ExecuteMsg::UpdateMembers { remove, add }), "group update (add chunk)");
                advance(&mut app, 1, 5);
            }
            let remove: Vec<String> = removed.iter().filter(|s| !early_removed.contains(s)).map(|s| cands[*s].to_string()).collect();
            if !remove.is_empty() {
                must(exec(&mut app, &owner, &group, &cw4_group::msg::ExecuteMsg::UpdateMembers { remove, add: vec![] }), "group update (remove)");
            }
            ctx.add("group_member_removed", removed.len() as u64);
            // weight change on some survivors
            let bump: Vec<Member> = (0..n).filter(|s| plan[*s].is_none() && s % 9 == 4).map(|s| Member { addr: cands[s].to_string(), weight: 50 + s as u64 }).collect();
            let bumped: BTreeSet<usize> = (0..n).filter(|s| plan[*s].is_none() && s % 9 == 4).collect();
            if !bump.is_empty() {
                must(exec(&mut app, &owner, &group, &cw4_group::msg::ExecuteMsg::UpdateMembers { remove: vec![], add: bump }), "group update (weights)");
            }
            let _ = bumped;
            advance(&mut app, 2, 11);
            for s in 0..n {
                if plan[s].is_none() {
                    required.insert(Key::Addr(cands[s].to_string()));
                }
            }
            required.insert(Key::Addr(anchor.to_string()));
            // in a third of the cases the multisig holds a seat in its own group: a voter like any other
            if case.variant % 3 == 1 {
                must(exec(&mut app, &owner, &group, &cw4_group::msg::ExecuteMsg::UpdateMembers { remove: vec![], add: vec![Member { addr: flex.to_string(), weight: 4 }] }), "group update (the multisig joins)");
                advance(&mut app, 1, 5);
                required.insert(Key::Addr(flex.to_string()));
                ctx.count("flex_voters_with_the_multisig_itself");
            }
        }
        Listing::FlexVotes => {
            let cands = sorted_addrs(&api, "member", n + 1);
            let proposer_ix = (case.variant as usize) % (n + 1);
            let zero1 = api.addr_make("weightless-one");
            let zero2 = api.addr_make("weightless-two");
            let late = api.addr_make("late-joiner");
            let mut members: Vec<Member> = cands.iter().enumerate().map(|(s, c)| Member { addr: c.to_string(), weight: 1 + (s as u64 % 5) }).collect();
            members.push(Member { addr: zero1.to_string(), weight: 0 });
            members.push(Member { addr: zero2.to_string(), weight: 0 });
            let total: u64 = members.iter().map(|m| m.weight).sum();
            let threshold = match case.variant % 3 {
                0 => Threshold::AbsoluteCount { weight: total },
                1 => Threshold::AbsoluteCount { weight: 1 },
                _ => Threshold::AbsolutePercentage { percentage: cosmwasm_std::Decimal::percent(51) },
            };
            let group = instantiate(&mut app, group_code, &owner, &cw4_group::msg::InstantiateMsg { admin: Some(owner.to_string()), members }, "group");
            advance(&mut app, 1, 5);
            flex = instantiate(
                &mut app,
                flex_code,
                &owner,
                &InstantiateMsg { group_addr: group.to_string(), threshold, max_voting_period: Duration::Height(1000), executor: None, proposal_deposit: None },
                "flex",
            );
            advance(&mut app, 1, 5);
            if case.variant % 2 == 1 {
                must(
                    exec(&mut app, &cands[n - n / 2], &flex, &ExecuteMsg::Propose { title: "other".into(), description: "d".into(), msgs: vec![], latest: None }),
                    "propose other",
                );
                proposal = 2;
            }
            must(
                exec(&mut app, &cands[proposer_ix], &flex, &ExecuteMsg::Propose { title: "listed".into(), description: "d".into(), msgs: vec![], latest: None }),
                "propose listed",
            );
            required.insert(Key::Addr(cands[proposer_ix].to_string()));
            let other_proposal = if proposal == 2 {
                1
            } else {
                must(
                    exec(&mut app, &cands[n / 2], &flex, &ExecuteMsg::Propose { title: "other".into(), description: "d".into(), msgs: vec![], latest: None }),
                    "propose other",
                );
                2
            };
            advance(&mut app, 1, 5);
            // somebody who joins the group after the proposal was made has no vote on it
            must(
                exec(&mut app, &owner, &group, &cw4_group::msg::ExecuteMsg::UpdateMembers { remove: vec![], add: vec![Member { addr: late.to_string(), weight: 4 }] }),
                "group update (late joiner)",
            );
            advance(&mut app, 1, 5);
            let others: Vec<usize> = (0..=n).filter(|s| *s != proposer_ix).collect();
            let order = creation_order(n, case.variant);
            for &j in &order {
                let s = others[j];
                if j % 3 == 0 {
                    advance(&mut app, 1, 5);
                }
                if plan[j].is_none() {
                    match exec(&mut app, &cands[s], &flex, &ExecuteMsg::Vote { proposal_id: proposal, vote: vote_of(s) }) {
                        Ok(()) => {
                            required.insert(Key::Addr(cands[s].to_string()));
                            ctx.count("vote_ok");
                        }
                        Err(e) => panic!("setup step failed: vote by a member with weight >= 1 on an unexpired proposal: {e}"),
                    }
                } else {
                    ctx.count("vote_left_out");
                }
                if s % 4 == 2 {
                    let _ = exec(&mut app, &cands[s], &flex, &ExecuteMsg::Vote { proposal_id: other_proposal, vote: vote_of(s + 1) });
                }
            }
            for z in [&zero1, &zero2, &late] {
                match exec(&mut app, z, &flex, &ExecuteMsg::Vote { proposal_id: proposal, vote: Vote::Yes }) {
                    Ok(()) => {
                        required.insert(Key::Addr(z.to_string()));
                        ctx.count("vote_weightless_ok");
                    }
                    Err(_) => ctx.count("vote_weightless_refused"),
                }
            }
            advance(&mut app, 1, 5);
            // some of those who voted leave the group afterwards: their ballots stay on the proposal
            let leavers: Vec<String> = (0..=n).filter(|s| s % 3 == 1).map(|s| cands[s].to_string()).collect();
            if !leavers.is_empty() {
                must(exec(&mut app, &owner, &group, &cw4_group::msg::ExecuteMsg::UpdateMembers { remove: leavers, add: vec![] }), "group update (voters leave)");
                ctx.count("flex_votes_voters_left_the_group");
            }
            advance(&mut app, 1, 5);
        }
        Listing::FlexProposals | Listing::FlexReverse => {
            descending = case.listing == Listing::FlexReverse;
            if plan.iter().any(|r| r.is_some()) {
                ctx.count("deletions_not_applicable");
            }
            let ms = sorted_addrs(&api, "member", 5);
            let members: Vec<Member> = ms.iter().enumerate().map(|(s, c)| Member { addr: c.to_string(), weight: 1 + s as u64 }).collect();
            let threshold = match case.variant % 3 {
                0 => Threshold::AbsoluteCount { weight: 6 },
                1 => Threshold::AbsolutePercentage { percentage: cosmwasm_std::Decimal::percent(60) },
                _ => Threshold::ThresholdQuorum { threshold: cosmwasm_std::Decimal::percent(50), quorum: cosmwasm_std::Decimal::percent(40) },
            };
            let group = instantiate(&mut app, group_code, &owner, &cw4_group::msg::InstantiateMsg { admin: Some(owner.to_string()), members }, "group");
            advance(&mut app, 1, 5);
            flex = instantiate(
                &mut app,
                flex_code,
                &owner,
                &InstantiateMsg { group_addr: group.to_string(), threshold, max_voting_period: Duration::Height(40), executor: None, proposal_deposit: None },
                "flex",
            );
            advance(&mut app, 1, 5);
            for i in 0..n {
                let proposer = &ms[(i + case.variant as usize) % 5];
                let h = app.block_info().height;
                let latest = match i % 4 {
                    0 => None,
                    1 => Some(Expiration::AtHeight(h + 1 + (i as u64 % 30))),
                    2 => Some(Expiration::AtHeight(h + 35)),
                    _ => None,
                };
                let (title, description) = crate::fixed::proposal_texts(i);
                must(exec(&mut app, proposer, &flex, &ExecuteMsg::Propose { title, description, msgs: proposal_msgs(i, &ms[0]), latest }), "propose");
                let id = i as u64 + 1;
                required.insert(Key::Id(id));
                if i % 3 == 1 {
                    let _ = exec(&mut app, &ms[4], &flex, &ExecuteMsg::Vote { proposal_id: id, vote: Vote::Yes });
                    let _ = exec(&mut app, &ms[3], &flex, &ExecuteMsg::Vote { proposal_id: id, vote: Vote::Yes });
                }
                if i % 5 == 2 {
                    let _ = exec(&mut app, &ms[4], &flex, &ExecuteMsg::Vote { proposal_id: id, vote: Vote::Veto });
                    let _ = exec(&mut app, &ms[3], &flex, &ExecuteMsg::Vote { proposal_id: id, vote: Vote::No });
                    let _ = exec(&mut app, &ms[2], &flex, &ExecuteMsg::Vote { proposal_id: id, vote: Vote::No });
                }
                if i % 7 == 4 && i >= 3 {
                    // close an older one (Execute would dispatch bank messages the multisig cannot pay)
                    let _ = exec(&mut app, &ms[1], &flex, &ExecuteMsg::Close { proposal_id: id - 2 });
                    let _ = exec(&mut app, &ms[1], &flex, &ExecuteMsg::Execute { proposal_id: id - 3 });
                }
                advance(&mut app, (i % 2) as u64, 6);
            }
            advance(&mut app, 3, 20);
        }
        _ => unreachable!(),
    }
    Built { target: Box::new(FlexTarget { app, flex, listing: case.listing, proposal }), required, optional: BTreeSet::new(), descending, hidden_expired: 0 }
}
