//! cw1-subkeys: AllAllowances (expired entries are hidden) and AllPermissions (direct driver).
use crate::{creation_order, must, removal_plan, sorted_addrs, to_value, Built, Case, Item, Key, Listing, Target};
use cosmwasm_std::{coin, Addr, BankMsg, CosmosMsg, Empty, Timestamp};
use cw1_subkeys::msg::{AllAllowancesResponse, AllPermissionsResponse, ExecuteMsg, QueryMsg};
use cw1_subkeys::state::{Allowance, Permissions};
use cw1_whitelist::msg::InstantiateMsg;
use cw_utils::Expiration;
use serde_json::{json, Value};
use std::collections::BTreeSet;
use vcore::direct::Direct;
use vcore::exp::is_expired;
use vcore::CaseCtx;

struct SubkeysTarget {
    d: Direct,
    listing: Listing,
}

impl SubkeysTarget {
    fn q<T: serde::de::DeserializeOwned>(&self, msg: QueryMsg) -> Result<T, String> {
        self.d.query(|deps, env| cw1_subkeys::contract::query(deps, env, msg))
    }
}

impl Target for SubkeysTarget {
    fn page(&self, cursor: Option<&Key>, limit: Option<u32>) -> Result<Vec<Item>, String> {
        let start_after = cursor.map(|k| k.to_string());
        match self.listing {
            Listing::SubkeysAllowances => {
                let r: AllAllowancesResponse = self.q(QueryMsg::AllAllowances { start_after, limit })?;
                Ok(r.allowances
                    .into_iter()
                    .map(|a| Item { key: Key::Addr(a.spender), value: json!({"balance": to_value(&a.balance), "expires": to_value(&a.expires)}) })
                    .collect())
            }
            _ => {
                let r: AllPermissionsResponse = self.q(QueryMsg::AllPermissions { start_after, limit })?;
                Ok(r.permissions.into_iter().map(|p| Item { key: Key::Addr(p.spender), value: to_value(&p.permissions) }).collect())
            }
        }
    }

    fn point(&self, key: &Key) -> Result<Option<Value>, String> {
        let Key::Addr(a) = key else { return Err("id key on an address listing".into()) };
        match self.listing {
            Listing::SubkeysAllowances => {
                let r: Allowance = self.q(QueryMsg::Allowance { spender: a.clone() })?;
                Ok(Some(json!({"balance": to_value(&r.balance), "expires": to_value(&r.expires)})))
            }
            _ => {
                let r: Permissions = self.q(QueryMsg::Permissions { spender: a.clone() })?;
                Ok(Some(to_value(&r)))
            }
        }
    }
}

fn exec(d: &mut Direct, sender: &Addr, msg: ExecuteMsg) -> Result<(), String> {
    let info = Direct::info(sender, &[]);
    d.tx(|deps, env| cw1_subkeys::contract::execute(deps, env, info, msg)).map(|_| ())
}

pub fn build(case: &Case, ctx: &mut CaseCtx) -> Built {
    let mut d = Direct::new();
    let n = case.n as usize;
    let cands = sorted_addrs(&d.api, "subkey", n);
    let plan = removal_plan(n, &case.deletions);
    let order = creation_order(n, case.variant);
    let admin = d.api.addr_make("admin");
    let admin2 = d.api.addr_make("admin-two");
    let sink = d.api.addr_make("sink");

    let info = Direct::info(&admin, &[]);
    let msg = InstantiateMsg { admins: vec![admin.to_string(), admin2.to_string()], mutable: true };
    must(d.tx(|deps, env| cw1_subkeys::contract::instantiate(deps, env, info, msg)).map(|_| ()), "subkeys instantiate");

    let mut required: BTreeSet<Key> = BTreeSet::new();
    let mut hidden_expired = 0usize;

    match case.listing {
        Listing::SubkeysAllowances => {
            // the listing is read ADV_BLOCKS / ADV_SECS after the grants were made
            const ADV_BLOCKS: u64 = 6;
            const ADV_SECS: u64 = 40;
            let h0 = d.height;
            let t0 = d.time;
            let (hq, tq) = (h0 + ADV_BLOCKS, t0 + ADV_SECS);
            let mut expiries: Vec<Option<Expiration>> = vec![None; n];
            for &s in &order {
                let v = s + case.variant as usize;
                let expires: Option<Expiration> = match plan[s] {
                    // expires before or exactly at the block of the query
                    Some(true) => Some(match v % 4 {
                        0 => Expiration::AtHeight(hq),
                        1 => Expiration::AtHeight(h0 + 1 + (s as u64 % (ADV_BLOCKS - 1))),
                        2 => Expiration::AtTime(Timestamp::from_seconds(tq)),
                        _ => Expiration::AtTime(Timestamp::from_seconds(t0 + 1 + (s as u64 % (ADV_SECS - 1)))),
                    }),
                    // stays live: no expiry, or one that ends just after / long after the query block
                    _ => match v % 6 {
                        0 => None,
                        1 => Some(Expiration::Never {}),
                        2 => Some(Expiration::AtHeight(hq + 1)),
                        3 => Some(Expiration::AtTime(Timestamp::from_seconds(tq + 1))),
                        4 => Some(Expiration::AtHeight(hq + 1000 + s as u64)),
                        _ => Some(Expiration::AtTime(Timestamp::from_seconds(tq + 100_000))),
                    },
                };
                expiries[s] = expires;
                let granter = if s % 4 == 3 { &admin2 } else { &admin };
                must(
                    exec(&mut d, granter, ExecuteMsg::IncreaseAllowance { spender: cands[s].to_string(), amount: coin(10 + s as u128, "ucosm"), expires }),
                    "subkeys increase allowance",
                );
                if s % 3 == 0 {
                    // a second denom on the same entry
                    must(
                        exec(&mut d, granter, ExecuteMsg::IncreaseAllowance { spender: cands[s].to_string(), amount: coin(1 + s as u128, "uatom"), expires: None }),
                        "subkeys increase allowance (second denom)",
                    );
                }
            }
            for (s, r) in plan.iter().enumerate() {
                match r {
                    Some(false) => {
                        // decrease to nothing: removes the entry
                        must(
                            exec(&mut d, &admin, ExecuteMsg::DecreaseAllowance { spender: cands[s].to_string(), amount: coin(u128::MAX, "ucosm"), expires: None }),
                            "subkeys decrease to zero",
                        );
                        if s % 3 == 0 {
                            must(
                                exec(&mut d, &admin, ExecuteMsg::DecreaseAllowance { spender: cands[s].to_string(), amount: coin(1 + s as u128, "uatom"), expires: None }),
                                "subkeys decrease second denom to zero",
                            );
                        }
                        ctx.count("subkeys_allowance_removed");
                    }
                    Some(true) => {}
                    None => {
                        if s % 5 == 0 {
                            must(
                                exec(&mut d, &admin, ExecuteMsg::DecreaseAllowance { spender: cands[s].to_string(), amount: coin(3, "ucosm"), expires: None }),
                                "subkeys partial decrease",
                            );
                        }
                        if s % 7 == 0 {
                            let m: CosmosMsg<Empty> = BankMsg::Send { to_address: sink.to_string(), amount: vec![coin(2, "ucosm")] }.into();
                            must(exec(&mut d, &cands[s], ExecuteMsg::Execute { msgs: vec![m] }), "subkeys partial spend");
                        }
                        // some subkeys use their allowance up to the last coin: the emptied entry stays an entry
                        if s % 11 == 8 && s % 3 != 0 && s % 5 != 0 && s % 7 != 0 {
                            let m: CosmosMsg<Empty> = BankMsg::Send { to_address: sink.to_string(), amount: vec![coin(10 + s as u128, "ucosm")] }.into();
                            must(exec(&mut d, &cands[s], ExecuteMsg::Execute { msgs: vec![m] }), "subkeys spend everything");
                            ctx.count("subkeys_allowance_used_up");
                        }
                    }
                }
            }
            d.advance(ADV_BLOCKS, ADV_SECS);
            assert_eq!((d.height, d.time), (hq, tq));
            for s in 0..n {
                match plan[s] {
                    Some(false) => {}
                    _ => {
                        let e = expiries[s].unwrap_or(Expiration::Never {});
                        if is_expired(&e, d.height, d.time) {
                            assert_eq!(plan[s], Some(true), "generator: live entry expired");
                            hidden_expired += 1;
                            ctx.count("subkeys_allowance_expired");
                        } else {
                            assert_eq!(plan[s], None, "generator: entry meant to expire is still live");
                            required.insert(Key::Addr(cands[s].to_string()));
                        }
                    }
                }
            }
            // longest run of hidden entries directly followed by a live one (in key order)
            let mut run = 0usize;
            let mut longest = 0usize;
            for s in 0..n {
                match plan[s] {
                    Some(true) => run += 1,
                    Some(false) => {}
                    None => {
                        longest = longest.max(run);
                        run = 0;
                    }
                }
            }
            if longest > 10 {
                ctx.flag("subkeys_expired_run_gt10_before_live_item");
            }
            if longest > 30 {
                ctx.flag("subkeys_expired_run_gt30_before_live_item");
            }
        }
        Listing::SubkeysPermissions => {
            // permissions cannot be deleted; the runs are ignored (counted)
            if plan.iter().any(|r| r.is_some()) {
                ctx.count("deletions_not_applicable");
            }
            for &s in &order {
                let bits = s + case.variant as usize;
                let permissions = Permissions { delegate: bits & 1 != 0, redelegate: bits & 2 != 0, undelegate: bits & 4 != 0, withdraw: bits & 8 != 0 };
                must(exec(&mut d, &admin, ExecuteMsg::SetPermissions { spender: cands[s].to_string(), permissions }), "set permissions");
                if s % 6 == 0 {
                    // overwrite
                    let permissions = Permissions { delegate: bits & 8 != 0, redelegate: bits & 4 != 0, undelegate: bits & 2 != 0, withdraw: bits & 1 != 0 };
                    must(exec(&mut d, &admin2, ExecuteMsg::SetPermissions { spender: cands[s].to_string(), permissions }), "set permissions again");
                }
                required.insert(Key::Addr(cands[s].to_string()));
            }
            // an address in two roles: the second admin also holds permissions (granted by the first) - a
            // stored entry like any other
            if case.variant % 3 == 1 {
                let permissions = Permissions { delegate: true, redelegate: false, undelegate: true, withdraw: false };
                must(exec(&mut d, &admin, ExecuteMsg::SetPermissions { spender: admin2.to_string(), permissions }), "set permissions for the other admin");
                required.insert(Key::Addr(admin2.to_string()));
                ctx.count("subkeys_permissions_for_an_admin");
            }
            // allowances live in another map and must not leak into this listing
            let stranger = d.api.addr_make("only-allowance");
            must(
                exec(&mut d, &admin, ExecuteMsg::IncreaseAllowance { spender: stranger.to_string(), amount: coin(5, "ucosm"), expires: None }),
                "allowance for a stranger",
            );
            d.advance(3, 17);
        }
        _ => unreachable!(),
    }
    Built { target: Box::new(SubkeysTarget { d, listing: case.listing }), required, optional: BTreeSet::new(), descending: false, hidden_expired }
}
