//! cw3-fixed-multisig: ListProposals, ReverseProposals, ListVotes, ListVoters (direct driver).
use crate::{creation_order, must, removal_plan, sorted_addrs, to_value, Built, Case, Item, Key, Listing, Target};
use cosmwasm_std::{Addr, BankMsg, CosmosMsg, Empty};
use cw3::{ProposalListResponse, ProposalResponse, Vote, VoteListResponse, VoteResponse, VoterListResponse, VoterResponse};
use cw3_fixed_multisig::msg::{ExecuteMsg, InstantiateMsg, QueryMsg, Voter};
use cw_utils::{Duration, Expiration, Threshold};
use serde_json::{json, Value};
use std::collections::BTreeSet;
use vcore::direct::Direct;
use vcore::CaseCtx;

struct FixedTarget {
    d: Direct,
    listing: Listing,
    /// the proposal whose votes are listed
    proposal: u64,
}

impl FixedTarget {
    fn q<T: serde::de::DeserializeOwned>(&self, msg: QueryMsg) -> Result<T, String> {
        self.d.query(|deps, env| cw3_fixed_multisig::contract::query(deps, env, msg))
    }
}

pub fn proposal_value(p: &ProposalResponse) -> Value {
    to_value(p)
}

impl Target for FixedTarget {
    fn page(&self, cursor: Option<&Key>, limit: Option<u32>) -> Result<Vec<Item>, String> {
        match self.listing {
            Listing::FixedProposals | Listing::FixedReverse => {
                let c = match cursor {
                    None => None,
                    Some(Key::Id(i)) => Some(*i),
                    Some(_) => return Err("address key on an id listing".into()),
                };
                let r: ProposalListResponse = if self.listing == Listing::FixedProposals {
                    self.q(QueryMsg::ListProposals { start_after: c, limit })?
                } else {
                    self.q(QueryMsg::ReverseProposals { start_before: c, limit })?
                };
                Ok(r.proposals.iter().map(|p| Item { key: Key::Id(p.id), value: proposal_value(p) }).collect())
            }
            Listing::FixedVotes => {
                let r: VoteListResponse = self.q(QueryMsg::ListVotes { proposal_id: self.proposal, start_after: cursor.map(|k| k.to_string()), limit })?;
                Ok(r.votes
                    .into_iter()
                    .map(|v| Item { key: Key::Addr(v.voter.clone()), value: json!({"proposal_id": v.proposal_id, "vote": to_value(&v.vote), "weight": v.weight}) })
                    .collect())
            }
            _ => {
                let r: VoterListResponse = self.q(QueryMsg::ListVoters { start_after: cursor.map(|k| k.to_string()), limit })?;
                Ok(r.voters.into_iter().map(|v| Item { key: Key::Addr(v.addr), value: json!({"weight": v.weight}) }).collect())
            }
        }
    }

    fn point(&self, key: &Key) -> Result<Option<Value>, String> {
        match (self.listing, key) {
            (Listing::FixedProposals | Listing::FixedReverse, Key::Id(i)) => {
                let r: ProposalResponse = self.q(QueryMsg::Proposal { proposal_id: *i })?;
                Ok(Some(proposal_value(&r)))
            }
            (Listing::FixedVotes, Key::Addr(a)) => {
                let r: VoteResponse = self.q(QueryMsg::Vote { proposal_id: self.proposal, voter: a.clone() })?;
                Ok(r.vote.map(|v| json!({"proposal_id": v.proposal_id, "vote": to_value(&v.vote), "weight": v.weight})))
            }
            (Listing::FixedVoters, Key::Addr(a)) => {
                let r: VoterResponse = self.q(QueryMsg::Voter { address: a.clone() })?;
                Ok(r.weight.map(|w| json!({"weight": w})))
            }
            _ => Err("key kind does not fit the listing".into()),
        }
    }
}

fn exec(d: &mut Direct, sender: &Addr, msg: ExecuteMsg) -> Result<(), String> {
    let info = Direct::info(sender, &[]);
    d.tx(|deps, env| cw3_fixed_multisig::contract::execute(deps, env, info, msg)).map(|_| ())
}

pub fn vote_of(s: usize) -> Vote {
    match s % 4 {
        0 => Vote::Yes,
        1 => Vote::No,
        2 => Vote::Abstain,
        _ => Vote::Veto,
    }
}

pub fn proposal_msgs(i: usize, to: &Addr) -> Vec<CosmosMsg<Empty>> {
    // (now and then a batch proposal: 150 payments in one proposal - an entry like any other)
    let count = if i % 9 == 4 { 150 } else { i % 3 };
    (0..count)
        .map(|k| BankMsg::Send { to_address: to.to_string(), amount: cosmwasm_std::coins(1 + k as u128 + i as u128, "ucosm") }.into())
        .collect()
}

/// title and description of the i-th listed proposal: mostly short; some are long texts in which multi-byte
/// characters sit at and around every round byte offset (256, 512, 1024)
pub fn proposal_texts(i: usize) -> (String, String) {
    let long = |base: usize| -> String { format!("{}{}", "x".repeat(base - 1 - i % 3), "\u{e9}\u{20ac}\u{fc}".repeat(8 + (1024 - base) / 7)) };
    let title = if i % 8 == 5 { long(256) } else { format!("proposal {i}") };
    let description = match i % 6 {
        3 => long(512),
        4 if i % 12 == 4 => long(1024),
        _ => format!("description {}", i * 31),
    };
    (title, description)
}

pub fn build(case: &Case, ctx: &mut CaseCtx) -> Built {
    let mut d = Direct::new();
    let n = case.n as usize;
    let plan = removal_plan(n, &case.deletions);
    let mut required: BTreeSet<Key> = BTreeSet::new();
    let mut proposal = 1u64;
    let mut descending = false;

    match case.listing {
        Listing::FixedVoters => {
            // the voter set is fixed at instantiation and cannot be empty; nothing can be removed
            let n = n.max(1);
            if plan.iter().any(|r| r.is_some()) {
                ctx.count("deletions_not_applicable");
            }
            let cands = sorted_addrs(&d.api, "voter", n);
            let order = creation_order(n, case.variant);
            let weight = |s: usize| -> u64 {
                if s == 0 {
                    2
                } else if (s + case.variant as usize) % 7 == 3 {
                    0
                } else {
                    1 + (s as u64 % 4)
                }
            };
            let voters: Vec<Voter> = order.iter().map(|&s| Voter { addr: cands[s].to_string(), weight: weight(s) }).collect();
            let msg = InstantiateMsg { voters, threshold: Threshold::AbsoluteCount { weight: 1 }, max_voting_period: Duration::Height(1000) };
            let info = Direct::info(&cands[0], &[]);
            must(d.tx(|deps, env| cw3_fixed_multisig::contract::instantiate(deps, env, info, msg)).map(|_| ()), "fixed instantiate");
            for c in &cands {
                required.insert(Key::Addr(c.to_string()));
            }
            // proposals and ballots live in other maps and must not leak into this listing
            must(
                exec(&mut d, &cands[0], ExecuteMsg::Propose { title: "t".into(), description: "d".into(), msgs: vec![], latest: None }),
                "propose",
            );
        }
        Listing::FixedVotes => {
            // n voters of weight >= 1; those in a run do not vote. Two more voters of weight 0
            // try to vote and are refused. A second proposal holds other ballots.
            let cands = sorted_addrs(&d.api, "voter", n + 1);
            // the proposer always has a ballot: take the candidate selected by the variant
            let proposer_ix = (case.variant as usize) % (n + 1);
            let zero1 = d.api.addr_make("weightless-one");
            let zero2 = d.api.addr_make("weightless-two");
            let mut voters: Vec<Voter> = cands.iter().enumerate().map(|(s, c)| Voter { addr: c.to_string(), weight: 1 + (s as u64 % 5) }).collect();
            voters.push(Voter { addr: zero1.to_string(), weight: 0 });
            voters.push(Voter { addr: zero2.to_string(), weight: 0 });
            let total: u64 = voters.iter().map(|v| v.weight).sum();
            let threshold = match case.variant % 3 {
                0 => Threshold::AbsoluteCount { weight: total },
                1 => Threshold::AbsoluteCount { weight: 1 },
                _ => Threshold::AbsolutePercentage { percentage: cosmwasm_std::Decimal::percent(51) },
            };
            let msg = InstantiateMsg { voters, threshold, max_voting_period: Duration::Height(1000) };
            let info = Direct::info(&cands[0], &[]);
            must(d.tx(|deps, env| cw3_fixed_multisig::contract::instantiate(deps, env, info, msg)).map(|_| ()), "fixed instantiate");
            // proposal 1 by somebody else first when variant is odd, so that the listed proposal is #2
            if case.variant % 2 == 1 {
                must(
                    exec(&mut d, &cands[n - n / 2], ExecuteMsg::Propose { title: "other".into(), description: "d".into(), msgs: vec![], latest: None }),
                    "propose other",
                );
                proposal = 2;
            }
            // now and then the listed proposal is opened by a voter of weight 0 (allowed): its implicit Yes
            // ballot of weight 0 is a ballot like any other
            let proposer: Addr = if case.variant % 7 == 3 {
                ctx.count("fixed_votes_weightless_proposer");
                zero1.clone()
            } else {
                cands[proposer_ix].clone()
            };
            must(exec(&mut d, &proposer, ExecuteMsg::Propose { title: "listed".into(), description: "d".into(), msgs: vec![], latest: None }), "propose listed");
            required.insert(Key::Addr(proposer.to_string()));
            let other_proposal = if proposal == 2 {
                1
            } else {
                must(
                    exec(&mut d, &cands[n / 2], ExecuteMsg::Propose { title: "other".into(), description: "d".into(), msgs: vec![], latest: None }),
                    "propose other",
                );
                2
            };
            // the n candidates other than the proposer, in key order, are the plan's candidates
            let others: Vec<usize> = (0..=n).filter(|s| *s != proposer_ix).collect();
            let order = creation_order(n, case.variant);
            for &j in &order {
                let s = others[j];
                d.advance((j % 3 == 0) as u64, 5);
                if plan[j].is_none() {
                    match exec(&mut d, &cands[s], ExecuteMsg::Vote { proposal_id: proposal, vote: vote_of(s) }) {
                        Ok(()) => {
                            required.insert(Key::Addr(cands[s].to_string()));
                            ctx.count("vote_ok");
                        }
                        Err(e) => panic!("setup step failed: vote by a voter with weight >= 1 on an unexpired proposal: {e}"),
                    }
                } else {
                    ctx.count("vote_left_out");
                }
                if s % 4 == 2 {
                    // ballots on the other proposal (AlreadyVoted for its proposer: ignored)
                    let _ = exec(&mut d, &cands[s], ExecuteMsg::Vote { proposal_id: other_proposal, vote: vote_of(s + 1) });
                }
            }
            for z in [&zero1, &zero2] {
                match exec(&mut d, z, ExecuteMsg::Vote { proposal_id: proposal, vote: Vote::Yes }) {
                    Ok(()) => {
                        required.insert(Key::Addr(z.to_string()));
                        ctx.count("vote_weightless_ok");
                    }
                    Err(_) => ctx.count("vote_weightless_refused"),
                }
            }
        }
        Listing::FixedProposals | Listing::FixedReverse => {
            descending = case.listing == Listing::FixedReverse;
            if plan.iter().any(|r| r.is_some()) {
                ctx.count("deletions_not_applicable");
            }
            let members = sorted_addrs(&d.api, "voter", 5);
            let voters: Vec<Voter> = members.iter().enumerate().map(|(s, c)| Voter { addr: c.to_string(), weight: 1 + s as u64 }).collect();
            let threshold = match case.variant % 3 {
                0 => Threshold::AbsoluteCount { weight: 6 },
                1 => Threshold::AbsolutePercentage { percentage: cosmwasm_std::Decimal::percent(60) },
                _ => Threshold::ThresholdQuorum { threshold: cosmwasm_std::Decimal::percent(50), quorum: cosmwasm_std::Decimal::percent(40) },
            };
            let msg = InstantiateMsg { voters, threshold, max_voting_period: Duration::Height(40) };
            let info = Direct::info(&members[0], &[]);
            must(d.tx(|deps, env| cw3_fixed_multisig::contract::instantiate(deps, env, info, msg)).map(|_| ()), "fixed instantiate");
            for i in 0..n {
                let proposer = &members[(i + case.variant as usize) % 5];
                let latest = match i % 4 {
                    0 => None,
                    1 => Some(Expiration::AtHeight(d.height + 1 + (i as u64 % 30))),
                    2 => Some(Expiration::AtHeight(d.height + 35)),
                    _ => None,
                };
                let (title, description) = proposal_texts(i);
                must(exec(&mut d, proposer, ExecuteMsg::Propose { title, description, msgs: proposal_msgs(i, &members[0]), latest }), "propose");
                let id = i as u64 + 1;
                required.insert(Key::Id(id));
                // some ballots so that statuses differ (failures: already voted / expired; ignored)
                if i % 3 == 1 {
                    let _ = exec(&mut d, &members[4], ExecuteMsg::Vote { proposal_id: id, vote: Vote::Yes });
                    let _ = exec(&mut d, &members[3], ExecuteMsg::Vote { proposal_id: id, vote: Vote::Yes });
                }
                if i % 5 == 2 {
                    let _ = exec(&mut d, &members[4], ExecuteMsg::Vote { proposal_id: id, vote: Vote::Veto });
                    let _ = exec(&mut d, &members[3], ExecuteMsg::Vote { proposal_id: id, vote: Vote::No });
                    let _ = exec(&mut d, &members[2], ExecuteMsg::Vote { proposal_id: id, vote: Vote::No });
                }
                if i % 7 == 4 && i >= 3 {
                    // execute or close an older one
                    let _ = exec(&mut d, &members[1], ExecuteMsg::Execute { proposal_id: id - 3 });
                    let _ = exec(&mut d, &members[1], ExecuteMsg::Close { proposal_id: id - 2 });
                }
                d.advance((i % 2) as u64, 6);
            }
            d.advance(3, 20);
        }
        _ => unreachable!(),
    }
    Built { target: Box::new(FixedTarget { d, listing: case.listing, proposal }), required, optional: BTreeSet::new(), descending, hidden_expired: 0 }
}
