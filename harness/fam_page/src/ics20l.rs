//! cw20-ics20: ListAllowed (direct driver; the allow list needs no cross-contract query).
use crate::{creation_order, must, removal_plan, sorted_addrs, Built, Case, Item, Key, Target};
use cosmwasm_std::Addr;
use cw20_ics20::msg::{AllowMsg, AllowedResponse, ExecuteMsg, InitMsg, ListAllowedResponse, QueryMsg};
use serde_json::{json, Value};
use std::collections::BTreeSet;
use vcore::direct::Direct;
use vcore::CaseCtx;

struct Ics20Target {
    d: Direct,
}

impl Target for Ics20Target {
    fn page(&self, cursor: Option<&Key>, limit: Option<u32>) -> Result<Vec<Item>, String> {
        let start_after = cursor.map(|k| k.to_string());
        let r: ListAllowedResponse = self.d.query(|deps, _env| cw20_ics20::contract::query(deps, _env, QueryMsg::ListAllowed { start_after, limit }))?;
        Ok(r.allow.into_iter().map(|a| Item { key: Key::Addr(a.contract), value: json!({"gas_limit": a.gas_limit}) }).collect())
    }

    fn point(&self, key: &Key) -> Result<Option<Value>, String> {
        let Key::Addr(a) = key else { return Err("id key on an address listing".into()) };
        let r: AllowedResponse = self.d.query(|deps, env| cw20_ics20::contract::query(deps, env, QueryMsg::Allowed { contract: a.clone() }))?;
        Ok(if r.is_allowed { Some(json!({"gas_limit": r.gas_limit})) } else { None })
    }
}

fn exec(d: &mut Direct, sender: &Addr, msg: ExecuteMsg) -> Result<(), String> {
    let info = Direct::info(sender, &[]);
    d.tx(|deps, env| cw20_ics20::contract::execute(deps, env, info, msg)).map(|_| ())
}

pub fn build(case: &Case, ctx: &mut CaseCtx) -> Built {
    let mut d = Direct::new();
    let n = case.n as usize;
    let cands = sorted_addrs(&d.api, "token", n);
    let plan = removal_plan(n, &case.deletions);
    // the allow list only grows; the runs are ignored (counted)
    if plan.iter().any(|r| r.is_some()) {
        ctx.count("deletions_not_applicable");
    }
    let order = creation_order(n, case.variant);
    let gov = d.api.addr_make("gov");
    let gas = |s: usize| -> Option<u64> {
        if (s + case.variant as usize) % 3 == 0 {
            None
        } else if s % 5 == 4 {
            // exactly the contract-wide default (when one is configured): an entry like any other
            Some(500_000)
        } else {
            Some(100_000 + s as u64)
        }
    };
    let (first, second) = order.split_at(n / 3);
    let allowlist: Vec<AllowMsg> = first.iter().map(|&s| AllowMsg { contract: cands[s].to_string(), gas_limit: gas(s) }).collect();
    let info = Direct::info(&gov, &[]);
    let msg = InitMsg { default_timeout: 1000, gov_contract: gov.to_string(), allowlist, default_gas_limit: if case.variant % 2 == 0 { None } else { Some(500_000) } };
    must(d.tx(|deps, env| cw20_ics20::contract::instantiate(deps, env, info, msg)).map(|_| ()), "ics20 instantiate");
    for &s in second {
        if s % 6 == 1 {
            // the upper-case spelling of the address is not an address: refused, nothing is listed for it
            let r = exec(&mut d, &gov, ExecuteMsg::Allow(AllowMsg { contract: cands[s].to_string().to_uppercase(), gas_limit: gas(s) }));
            ctx.count(if r.is_ok() { "ics20_allow_upper_case_accepted" } else { "ics20_allow_upper_case_refused" });
        }
        must(exec(&mut d, &gov, ExecuteMsg::Allow(AllowMsg { contract: cands[s].to_string(), gas_limit: gas(s) })), "allow");
        if s % 7 == 0 {
            d.advance(1, 5);
        }
    }
    // raise the gas limit of some entries (the only change the list accepts)
    for s in 0..n {
        if s % 5 == 2 {
            if let Some(g) = gas(s) {
                must(exec(&mut d, &gov, ExecuteMsg::Allow(AllowMsg { contract: cands[s].to_string(), gas_limit: Some(g + 1000) })), "allow (raise gas)");
            } else {
                // None -> Some is refused ("cannot lower gas"); the entry stays
                let r = exec(&mut d, &gov, ExecuteMsg::Allow(AllowMsg { contract: cands[s].to_string(), gas_limit: Some(7) }));
                ctx.count(if r.is_ok() { "allow_limit_on_unlimited_ok" } else { "allow_limit_on_unlimited_refused" });
            }
        }
    }
    d.advance(2, 11);
    let required: BTreeSet<Key> = cands.iter().map(|c| Key::Addr(c.to_string())).collect();
    Built { target: Box::new(Ics20Target { d }), required, optional: BTreeSet::new(), descending: false, hidden_expired: 0 }
}
