//! Family `page`: C20 — every paginated list query of every contract returns every
//! current item exactly once, in key order, whatever the page size; no page exceeds
//! the requested limit or the maximum of 30; the default page size is 10.
//!
//! A case names one listing, a number of candidate items, runs of candidates (in key
//! order) that are deleted / left out / expired, a page limit and a mid-list cursor.
//! The state is built with real calls (direct driver; cw3-flex through cw-multi-test),
//! then the listing is walked page by page and compared with the model key set and
//! with the contract's point queries.
use proptest::prelude::*;
use serde::{Deserialize, Serialize};
use serde_json::Value;
use std::collections::BTreeSet;
use vcore::amounts::pick;
use vcore::{CaseCtx, Family, PropSpec, Tier, Violation};

pub mod cw20l;
pub mod cw4l;
pub mod fixed;
pub mod flex;
pub mod ics20l;
pub mod subkeys;

pub const PROP: &str = "C20";
pub const MAX_LIMIT: usize = 30;
pub const DEFAULT_LIMIT: usize = 10;

#[derive(Clone, Copy, Debug, Serialize, Deserialize, PartialEq, Eq, PartialOrd, Ord)]
pub enum Listing {
    Cw20Accounts,
    Cw20OwnerAllowances,
    Cw20SpenderAllowances,
    SubkeysAllowances,
    SubkeysPermissions,
    FixedProposals,
    FixedReverse,
    FixedVotes,
    FixedVoters,
    FlexProposals,
    FlexReverse,
    FlexVotes,
    FlexVoters,
    GroupMembers,
    StakeMembers,
    Ics20Allowed,
}

pub const LISTINGS: [Listing; 16] = [
    Listing::Cw20Accounts,
    Listing::Cw20OwnerAllowances,
    Listing::Cw20SpenderAllowances,
    Listing::SubkeysAllowances,
    Listing::SubkeysPermissions,
    Listing::FixedProposals,
    Listing::FixedReverse,
    Listing::FixedVotes,
    Listing::FixedVoters,
    Listing::FlexProposals,
    Listing::FlexReverse,
    Listing::FlexVotes,
    Listing::FlexVoters,
    Listing::GroupMembers,
    Listing::StakeMembers,
    Listing::Ics20Allowed,
];

impl Listing {
    pub fn name(&self) -> &'static str {
        match self {
            Listing::Cw20Accounts => "cw20_all_accounts",
            Listing::Cw20OwnerAllowances => "cw20_all_allowances",
            Listing::Cw20SpenderAllowances => "cw20_all_spender_allowances",
            Listing::SubkeysAllowances => "subkeys_all_allowances",
            Listing::SubkeysPermissions => "subkeys_all_permissions",
            Listing::FixedProposals => "fixed_list_proposals",
            Listing::FixedReverse => "fixed_reverse_proposals",
            Listing::FixedVotes => "fixed_list_votes",
            Listing::FixedVoters => "fixed_list_voters",
            Listing::FlexProposals => "flex_list_proposals",
            Listing::FlexReverse => "flex_reverse_proposals",
            Listing::FlexVotes => "flex_list_votes",
            Listing::FlexVoters => "flex_list_voters",
            Listing::GroupMembers => "group_list_members",
            Listing::StakeMembers => "stake_list_members",
            Listing::Ics20Allowed => "ics20_list_allowed",
        }
    }
    /// flag: walked with more than 30 current items
    fn flag_gt30(&self) -> &'static str {
        match self {
            Listing::Cw20Accounts => "gt30_cw20_all_accounts",
            Listing::Cw20OwnerAllowances => "gt30_cw20_all_allowances",
            Listing::Cw20SpenderAllowances => "gt30_cw20_all_spender_allowances",
            Listing::SubkeysAllowances => "gt30_subkeys_all_allowances",
            Listing::SubkeysPermissions => "gt30_subkeys_all_permissions",
            Listing::FixedProposals => "gt30_fixed_list_proposals",
            Listing::FixedReverse => "gt30_fixed_reverse_proposals",
            Listing::FixedVotes => "gt30_fixed_list_votes",
            Listing::FixedVoters => "gt30_fixed_list_voters",
            Listing::FlexProposals => "gt30_flex_list_proposals",
            Listing::FlexReverse => "gt30_flex_reverse_proposals",
            Listing::FlexVotes => "gt30_flex_list_votes",
            Listing::FlexVoters => "gt30_flex_list_voters",
            Listing::GroupMembers => "gt30_group_list_members",
            Listing::StakeMembers => "gt30_stake_list_members",
            Listing::Ics20Allowed => "gt30_ics20_list_allowed",
        }
    }
    /// flag: non-trivial case (>= 11 items, >= 2 pages) of this listing
    fn flag_nt(&self) -> &'static str {
        match self {
            Listing::Cw20Accounts => "nontrivial_cw20_all_accounts",
            Listing::Cw20OwnerAllowances => "nontrivial_cw20_all_allowances",
            Listing::Cw20SpenderAllowances => "nontrivial_cw20_all_spender_allowances",
            Listing::SubkeysAllowances => "nontrivial_subkeys_all_allowances",
            Listing::SubkeysPermissions => "nontrivial_subkeys_all_permissions",
            Listing::FixedProposals => "nontrivial_fixed_list_proposals",
            Listing::FixedReverse => "nontrivial_fixed_reverse_proposals",
            Listing::FixedVotes => "nontrivial_fixed_list_votes",
            Listing::FixedVoters => "nontrivial_fixed_list_voters",
            Listing::FlexProposals => "nontrivial_flex_list_proposals",
            Listing::FlexReverse => "nontrivial_flex_reverse_proposals",
            Listing::FlexVotes => "nontrivial_flex_list_votes",
            Listing::FlexVoters => "nontrivial_flex_list_voters",
            Listing::GroupMembers => "nontrivial_group_list_members",
            Listing::StakeMembers => "nontrivial_stake_list_members",
            Listing::Ics20Allowed => "nontrivial_ics20_list_allowed",
        }
    }
}

/// A run of `len` consecutive candidates (consecutive in KEY order, starting at the
/// candidate selected by `start`) that is taken out of the listing: deleted by a
/// real call (member removed, allowance decreased to zero, stake unbonded), never
/// entered (no vote cast), or — `expire` on the subkeys allowance listing — left in
/// storage with an expiry that has passed when the listing is read.
#[derive(Clone, Debug, Serialize, Deserialize, PartialEq)]
pub struct Run {
    pub start: u16,
    pub len: u8,
    pub expire: bool,
}

#[derive(Clone, Debug, Serialize, Deserialize, PartialEq)]
pub struct Case {
    pub listing: Listing,
    /// number of candidate items created
    pub n: u16,
    pub deletions: Vec<Run>,
    /// page limit of the main walk
    pub limit: Option<u32>,
    /// selects the item of the main walk whose key is the cursor of the second walk
    pub mid_cursor: u16,
    /// page limit of the second walk
    pub mid_limit: Option<u32>,
    /// varies values / configuration of the built state (weights, amounts, expiry kinds)
    pub variant: u8,
}

// ---------------------------------------------------------------- strategies

fn n_strategy(tier: Tier) -> BoxedStrategy<u16> {
    let top: u16 = match tier {
        Tier::Quick => 70,
        Tier::Thorough => 130,
    };
    prop_oneof![
        1 => Just(0u16),
        1 => Just(1u16),
        1 => Just(9u16),
        2 => Just(10u16),
        2 => Just(11u16),
        2 => Just(29u16),
        3 => Just(30u16),
        3 => Just(31u16),
        3 => Just(61u16),
        9 => 32u16..=top,
        1 => 2u16..32,
    ]
    .boxed()
}

fn limit_strategy() -> BoxedStrategy<Option<u32>> {
    prop_oneof![
        5 => Just(None),
        1 => Just(Some(0u32)),
        2 => Just(Some(1u32)),
        2 => Just(Some(2u32)),
        2 => Just(Some(3u32)),
        2 => Just(Some(7u32)),
        2 => Just(Some(10u32)),
        2 => Just(Some(29u32)),
        3 => Just(Some(30u32)),
        3 => Just(Some(31u32)),
        1 => Just(Some(100u32)),
        1 => Just(Some(u32::MAX)),
        2 => (1u32..45).prop_map(Some),
        1 => any::<u32>().prop_map(Some),
    ]
    .boxed()
}

fn mid_limit_strategy() -> BoxedStrategy<Option<u32>> {
    prop_oneof![
        5 => Just(None),
        2 => Just(Some(1u32)),
        2 => Just(Some(2u32)),
        2 => Just(Some(3u32)),
        2 => Just(Some(7u32)),
        2 => Just(Some(10u32)),
        2 => Just(Some(29u32)),
        3 => Just(Some(30u32)),
        3 => Just(Some(31u32)),
        1 => Just(Some(100u32)),
        1 => Just(Some(u32::MAX)),
        2 => (1u32..45).prop_map(Some),
    ]
    .boxed()
}

fn run_strategy() -> BoxedStrategy<Run> {
    (
        any::<u16>(),
        prop_oneof![6 => 1u8..4, 2 => 4u8..12, 3 => 11u8..36, 1 => 31u8..70],
        proptest::bool::weighted(0.6),
    )
        .prop_map(|(start, len, expire)| Run { start, len, expire })
        .boxed()
}

pub fn case_strategy(_prop: &str, tier: Tier) -> BoxedStrategy<Case> {
    (
        (0usize..LISTINGS.len()).prop_map(|i| LISTINGS[i]),
        n_strategy(tier),
        proptest::collection::vec(run_strategy(), 0..4),
        limit_strategy(),
        any::<u16>(),
        mid_limit_strategy(),
        any::<u8>(),
    )
        .prop_map(|(listing, n, deletions, limit, mid_cursor, mid_limit, variant)| Case {
            listing,
            n,
            deletions,
            limit,
            mid_cursor,
            mid_limit,
            variant,
        })
        .boxed()
}

// ---------------------------------------------------------------- model / target

#[derive(Clone, Debug, PartialEq, Eq, PartialOrd, Ord)]
pub enum Key {
    Addr(String),
    Id(u64),
}

impl std::fmt::Display for Key {
    fn fmt(&self, f: &mut std::fmt::Formatter<'_>) -> std::fmt::Result {
        match self {
            Key::Addr(a) => write!(f, "{a}"),
            Key::Id(i) => write!(f, "#{i}"),
        }
    }
}

#[derive(Clone, Debug, PartialEq)]
pub struct Item {
    pub key: Key,
    /// the payload of the list entry, in the same JSON shape as `Target::point` returns
    pub value: Value,
}

/// The listing under test on a built state.
pub trait Target {
    /// one page of the list query: cursor (start_after / start_before) and limit as given
    fn page(&self, cursor: Option<&Key>, limit: Option<u32>) -> Result<Vec<Item>, String>;
    /// the contract's point query for one key; `Ok(None)` = the point query says "no such item"
    fn point(&self, key: &Key) -> Result<Option<Value>, String>;
}

pub struct Built {
    pub target: Box<dyn Target>,
    /// keys that are current items by the model
    pub required: BTreeSet<Key>,
    /// keys whose status as a "current item" the statement leaves open
    /// (cw20 accounts whose balance is zero): may be listed or not, but consistently
    pub optional: BTreeSet<Key>,
    pub descending: bool,
    /// number of entries that exist in storage but are hidden because they expired
    pub hidden_expired: usize,
}

fn viol(sig: &str, msg: String) -> Violation {
    Violation::new(PROP, &format!("{PROP}/{sig}"), msg)
}

/// `removed[s]` for the candidates in key order: None = stays, Some(expire)
pub fn removal_plan(n: usize, runs: &[Run]) -> Vec<Option<bool>> {
    let mut out = vec![None; n];
    if n == 0 {
        return out;
    }
    for r in runs {
        let s = pick(r.start, n);
        for slot in out.iter_mut().skip(s).take(r.len as usize) {
            *slot = Some(r.expire);
        }
    }
    out
}

fn cap_of(limit: Option<u32>) -> usize {
    (limit.map(|l| l as usize).unwrap_or(DEFAULT_LIMIT)).min(MAX_LIMIT)
}

struct Walk {
    items: Vec<Item>,
    page_lens: Vec<usize>,
}

/// Walk the listing from `start` with `limit` (> 0) until an empty page.
fn walk(b: &Built, name: &str, start: Option<&Key>, limit: Option<u32>, bound: usize) -> Result<Walk, Violation> {
    let cap = cap_of(limit);
    let mut items: Vec<Item> = Vec::new();
    let mut page_lens = Vec::new();
    let mut cursor: Option<Key> = start.cloned();
    loop {
        let page = b
            .target
            .page(cursor.as_ref(), limit)
            .map_err(|e| viol("list-query-failed", format!("{name}: list query with cursor {:?} limit {:?} failed: {e}", cursor.as_ref().map(|k| k.to_string()), limit)))?;
        if page.len() > cap {
            return Err(viol(
                "page-exceeds-limit",
                format!("{name}: page of {} items returned for limit {:?} (allowed at most {cap}), cursor {:?}", page.len(), limit, cursor.as_ref().map(|k| k.to_string())),
            ));
        }
        if page.is_empty() {
            break;
        }
        page_lens.push(page.len());
        for it in page {
            if let Some(prev) = cursor.as_ref() {
                let forward = if b.descending { it.key < *prev } else { it.key > *prev };
                if !forward {
                    return Err(viol(
                        "order-or-duplicate",
                        format!("{name}: item {} returned after {} (limit {:?}): not strictly {} in key order, i.e. repeated or out of order", it.key, prev, limit, if b.descending { "descending" } else { "ascending" }),
                    ));
                }
            }
            cursor = Some(it.key.clone());
            items.push(it);
        }
        if items.len() > bound {
            return Err(viol("invented-item", format!("{name}: walk returned more than {bound} items although at most {bound} can exist")));
        }
    }
    Ok(Walk { items, page_lens })
}

pub fn run_case(prop: &str, case: &Case, ctx: &mut CaseCtx) -> Result<(), Violation> {
    if prop != PROP {
        panic!("family page serves only C20, not {prop}");
    }
    let name = case.listing.name();
    ctx.count(&format!("listing_{name}"));
    let b: Built = match case.listing {
        Listing::Cw20Accounts | Listing::Cw20OwnerAllowances | Listing::Cw20SpenderAllowances => cw20l::build(case, ctx),
        Listing::SubkeysAllowances | Listing::SubkeysPermissions => subkeys::build(case, ctx),
        Listing::FixedProposals | Listing::FixedReverse | Listing::FixedVotes | Listing::FixedVoters => fixed::build(case, ctx),
        Listing::FlexProposals | Listing::FlexReverse | Listing::FlexVotes | Listing::FlexVoters => flex::build(case, ctx),
        Listing::GroupMembers | Listing::StakeMembers => cw4l::build(case, ctx),
        Listing::Ics20Allowed => ics20l::build(case, ctx),
    };
    let bound = b.required.len() + b.optional.len();
    let n_cur = b.required.len();

    // ---- limit 0: "no page exceeds the requested limit" => the page is empty; no walk
    if case.limit == Some(0) {
        ctx.count("limit_zero");
        let page = b.target.page(None, Some(0)).map_err(|e| viol("list-query-failed", format!("{name}: list query with limit 0 failed: {e}")))?;
        if !page.is_empty() {
            return Err(viol("page-exceeds-limit", format!("{name}: limit 0 returned {} items", page.len())));
        }
        return Ok(());
    }

    // ---- main walk
    let w = walk(&b, name, None, case.limit, bound)?;
    ctx.add("pages", w.page_lens.len() as u64);
    ctx.add("items_listed", w.items.len() as u64);

    let listed: BTreeSet<Key> = w.items.iter().map(|i| i.key.clone()).collect();
    // nothing invented
    for it in &w.items {
        if !b.required.contains(&it.key) && !b.optional.contains(&it.key) {
            return Err(viol("invented-item", format!("{name}: listing returned {} which is not a current item (limit {:?})", it.key, case.limit)));
        }
    }
    // nothing missing
    let missing: Vec<&Key> = b.required.iter().filter(|k| !listed.contains(*k)).collect();
    if !missing.is_empty() {
        let msg = format!(
            "{name}: walking with limit {:?} until the first empty page returned {} of {} current items; first missing: {} (page sizes {:?}, {} expired entries hidden)",
            case.limit,
            w.items.len(),
            n_cur,
            missing[0],
            w.page_lens,
            b.hidden_expired
        );
        if case.listing == Listing::SubkeysAllowances && b.hidden_expired > 0 {
            let sig = "C20/subkeys-expired-run-hides-items";
            if ctx.tolerate(sig) {
                ctx.count("known_subkeys_expired_run");
                return Ok(());
            }
            return Err(Violation::new(PROP, sig, msg));
        }
        return Err(viol("missing-item", msg));
    }
    // values equal the point queries
    for it in &w.items {
        let p = b.target.point(&it.key).map_err(|e| viol("point-query-failed", format!("{name}: point query for listed item {} failed: {e}", it.key)))?;
        match p {
            None => {
                if b.required.contains(&it.key) {
                    return Err(viol("value-mismatch", format!("{name}: point query knows nothing about listed current item {}", it.key)));
                }
            }
            Some(v) => {
                if v != it.value {
                    return Err(viol("value-mismatch", format!("{name}: list entry for {} is {} but the point query says {}", it.key, it.value, v)));
                }
            }
        }
    }
    ctx.add("optional_listed", listed.iter().filter(|k| b.optional.contains(*k)).count() as u64);
    ctx.add("optional_hidden", b.optional.iter().filter(|k| !listed.contains(*k)).count() as u64);

    // default page size
    if case.limit.is_none() {
        let total = w.items.len();
        let mut seen = 0usize;
        if total > 0 && w.page_lens.is_empty() {
            unreachable!();
        }
        for (i, l) in w.page_lens.iter().enumerate() {
            let want = DEFAULT_LIMIT.min(total - seen);
            if *l != want {
                return Err(viol("default-page-size", format!("{name}: without a limit page {} has {} items, expected {} ({} items in total)", i + 1, l, want, total)));
            }
            seen += l;
        }
        ctx.count("walk_default_limit");
    } else {
        let cap = cap_of(case.limit);
        let short = w.page_lens.iter().rev().skip(1).filter(|l| **l < cap).count();
        ctx.add("short_nonfinal_pages", short as u64);
    }

    // ---- the same list whatever the page size: reference walk with the maximum page
    if case.limit != Some(MAX_LIMIT as u32) {
        let r = walk(&b, name, None, Some(MAX_LIMIT as u32), bound)?;
        if r.items != w.items {
            let at = r.items.iter().zip(w.items.iter()).position(|(a, b)| a != b).unwrap_or(r.items.len().min(w.items.len()));
            return Err(viol(
                "page-size-dependent",
                format!("{name}: walk with limit {:?} returned {} items, walk with limit 30 returned {}; first difference at position {at}", case.limit, w.items.len(), r.items.len()),
            ));
        }
    }

    // ---- second walk from a mid-list cursor: exactly the suffix
    if !w.items.is_empty() {
        let k = pick(case.mid_cursor, w.items.len());
        let cur = w.items[k].key.clone();
        let m = walk(&b, name, Some(&cur), case.mid_limit, bound)?;
        let want = &w.items[k + 1..];
        if m.items.as_slice() != want {
            return Err(viol(
                "suffix-mismatch",
                format!(
                    "{name}: walk from cursor {} (position {k} of {}) with limit {:?} returned {} items [{}..], expected the {} items after the cursor [{}..]",
                    cur,
                    w.items.len(),
                    case.mid_limit,
                    m.items.len(),
                    m.items.first().map(|i| i.key.to_string()).unwrap_or_default(),
                    want.len(),
                    want.first().map(|i| i.key.to_string()).unwrap_or_default()
                ),
            ));
        }
        if case.mid_limit.is_none() {
            let mut seen = 0usize;
            for (i, l) in m.page_lens.iter().enumerate() {
                let wantl = DEFAULT_LIMIT.min(want.len() - seen);
                if *l != wantl {
                    return Err(viol("default-page-size", format!("{name}: without a limit page {} after cursor {} has {} items, expected {}", i + 1, cur, l, wantl)));
                }
                seen += l;
            }
        }
        ctx.count("mid_walks");
        if k + 1 == w.items.len() {
            ctx.count("mid_cursor_is_last");
        }
    }

    // ---- statistics / non-triviality
    let cap = cap_of(case.limit);
    if n_cur > MAX_LIMIT {
        ctx.flag(case.listing.flag_gt30());
        ctx.flag("n_gt_30");
    }
    if n_cur == MAX_LIMIT || n_cur == MAX_LIMIT + 1 || n_cur == DEFAULT_LIMIT || n_cur == DEFAULT_LIMIT + 1 {
        ctx.flag("n_at_page_boundary");
    }
    if n_cur > 0 && n_cur % cap == 0 {
        ctx.flag("last_page_exactly_full");
    }
    if n_cur < case.n as usize {
        ctx.flag("with_removed_items");
    }
    if b.hidden_expired > 0 {
        ctx.flag("with_hidden_expired");
        if b.hidden_expired > cap {
            ctx.flag("hidden_expired_more_than_a_page");
        }
    }
    if case.limit.map(|l| l as usize > MAX_LIMIT).unwrap_or(false) && n_cur > MAX_LIMIT {
        ctx.flag("limit_above_max_with_more_than_30_items");
    }
    if n_cur >= 11 && cap < n_cur {
        ctx.nontrivial = true;
        ctx.flag(case.listing.flag_nt());
    }
    Ok(())
}

// ---------------------------------------------------------------- helpers shared by the builders

pub use vcore::direct::extended_addr;

/// `n` distinct valid addresses in KEY order (byte order of the bech32 string). From three addresses on, one of
/// them is the 40-byte continuation of another (see `extended_addr`): real listings hold addresses of
/// different lengths (accounts and contracts), and a cursor must not skip a key that merely extends it.
pub fn sorted_addrs(api: &cosmwasm_std::testing::MockApi, tag: &str, n: usize) -> Vec<cosmwasm_std::Addr> {
    let mut v: Vec<cosmwasm_std::Addr> = (0..n).map(|i| api.addr_make(&format!("{tag}{i}"))).collect();
    if n >= 3 {
        let base = v[n / 2].clone();
        v[0] = extended_addr(api, &base);
    }
    v.sort_by(|a, b| a.as_str().as_bytes().cmp(b.as_str().as_bytes()));
    v.dedup();
    assert_eq!(v.len(), n, "address pool collision");
    v
}

/// A permutation of 0..n derived from `variant`, so that creation order differs from key order.
pub fn creation_order(n: usize, variant: u8) -> Vec<usize> {
    let mut v: Vec<usize> = (0..n).collect();
    match variant % 3 {
        0 => {}
        1 => v.reverse(),
        _ => {
            // interleave halves
            let (a, b) = v.split_at(n / 2);
            let mut out = Vec::with_capacity(n);
            let mut ia = a.iter();
            let mut ib = b.iter().rev();
            loop {
                match (ia.next(), ib.next()) {
                    (None, None) => break,
                    (x, y) => {
                        if let Some(x) = x {
                            out.push(*x);
                        }
                        if let Some(y) = y {
                            out.push(*y);
                        }
                    }
                }
            }
            v = out;
        }
    }
    v
}

pub fn to_value<T: Serialize>(t: &T) -> Value {
    serde_json::to_value(t).expect("serialize")
}

/// setup calls succeed by construction; anything else is a harness error (inconclusive)
pub fn must<T>(r: Result<T, String>, what: &str) -> T {
    match r {
        Ok(t) => t,
        Err(e) => panic!("setup step failed: {what}: {e}"),
    }
}

// ---------------------------------------------------------------- family

pub struct PageFamily;

const ASSUME: &[&str] = &[
    "transactions are atomic: a failed or panicking call leaves no state (direct driver restores the store; cw-multi-test commits only on success)",
    "MockApi bech32 address validation stands for the chain's; key order of address-keyed listings is the byte order of the address string",
    "cosmwasm-std, cw-storage-plus, cw-utils, cw-controllers, cw-multi-test are trusted as execution substrate",
    "a cw20 account whose balance is zero may or may not count as a current item (listed or hidden, but the same in every walk); an expired cw1-subkeys allowance is not a current item",
    "cursors are keys returned by a previous page (the statement does not cover arbitrary cursors)",
];

impl Family for PageFamily {
    type Case = Case;
    fn name(&self) -> &'static str {
        "page"
    }
    fn props(&self) -> Vec<PropSpec> {
        vec![PropSpec {
            id: "C20", quick_cases: 40000, thorough_cases: 30_000, floor: 5750,
            rule: "case = one of 16 listings (cw20 AllAccounts/AllAllowances/AllSpenderAllowances, subkeys AllAllowances/AllPermissions, cw3-fixed and cw3-flex ListProposals/ReverseProposals/ListVotes/ListVoters, cw4-group and cw4-stake ListMembers, ics20 ListAllowed), n candidates from {0,1,9,10,11,29,30,31,32..70 (thorough ..130)}, up to 3 runs of key-adjacent candidates deleted/left out/expired (run length 1..69), limit from {absent,0,1,2,3,7,10,29,30,31,100,u32::MAX,1..44,any}, a mid-list cursor and a second limit; state built by real calls, walked from no cursor until an empty page, compared with the model key set and the point queries; reference walk with limit 30; second walk from the mid cursor must be the exact suffix. Non-trivial: >= 11 current items and effective page size < number of items (>= 2 pages); cases_with_flag gt30_<listing> shows each listing walked with more than 30 items.",
            assumptions: ASSUME,
        }]
    }
    fn strategy(&self, prop: &str, tier: Tier) -> BoxedStrategy<Case> {
        case_strategy(prop, tier)
    }
    fn run(&self, prop: &str, case: &Case, ctx: &mut CaseCtx) -> Result<(), Violation> {
        run_case(prop, case, ctx)
    }
    fn decode(&self, prop: &str, u: &mut arbitrary::Unstructured) -> Option<Case> {
        Some(decode_case(prop, u))
    }
}

// ---------------------------------------------------------------- byte decoder (fuzz front-end)

/// the fixed page limits both limit strategies share, with their weights
fn d_fixed_limit(sel: usize) -> Option<u32> {
    match sel {
        0..=4 => None,
        5 | 6 => Some(1),
        7 | 8 => Some(2),
        9 | 10 => Some(3),
        11 | 12 => Some(7),
        13 | 14 => Some(10),
        15 | 16 => Some(29),
        17..=19 => Some(30),
        20..=22 => Some(31),
        23 => Some(100),
        _ => Some(u32::MAX),
    }
}

/// Byte decoder for C20 cases (quick-tier sizes: at most 70 candidates). One byte per choice,
/// the same value sets and weights as `case_strategy`: listing, n (page-boundary values
/// preferred), 0..=3 runs, limit, mid cursor, mid limit (never 0), variant.
pub fn decode_case(_prop: &str, u: &mut arbitrary::Unstructured) -> Case {
    use vcore::amounts::{arb_below, arb_bool};
    let listing = LISTINGS[arb_below(u, LISTINGS.len())];
    let n: u16 = match arb_below(u, 28) {
        0 => 0,
        1 => 1,
        2 => 9,
        3 | 4 => 10,
        5 | 6 => 11,
        7 | 8 => 29,
        9..=11 => 30,
        12..=14 => 31,
        15..=17 => 61,
        18..=26 => 32 + arb_below(u, 39) as u16,
        _ => 2 + arb_below(u, 30) as u16,
    };
    let n_runs = arb_below(u, 4);
    let mut deletions = vec![];
    for _ in 0..n_runs {
        let start: u16 = u.arbitrary().unwrap_or(0);
        let len = match arb_below(u, 12) {
            0..=5 => 1 + arb_below(u, 3) as u8,
            6 | 7 => 4 + arb_below(u, 8) as u8,
            8..=10 => 11 + arb_below(u, 25) as u8,
            _ => 31 + arb_below(u, 39) as u8,
        };
        deletions.push(Run { start, len, expire: arb_bool(u, 3, 5) });
    }
    let limit = match arb_below(u, 29) {
        s @ 0..=24 => d_fixed_limit(s),
        25 | 26 => Some(1 + arb_below(u, 44) as u32),
        27 => Some(0),
        _ => Some(u.arbitrary::<u32>().unwrap_or(0)),
    };
    let mid_cursor: u16 = u.arbitrary().unwrap_or(0);
    let mid_limit = match arb_below(u, 27) {
        s @ 0..=24 => d_fixed_limit(s),
        _ => Some(1 + arb_below(u, 44) as u32),
    };
    let variant: u8 = u.arbitrary().unwrap_or(0);
    Case { listing, n, deletions, limit, mid_cursor, mid_limit, variant }
}
