//! cw4-group and cw4-stake: ListMembers (direct driver; cw4-stake with a native denom).
use crate::{creation_order, must, removal_plan, sorted_addrs, Built, Case, Item, Key, Listing, Target};
use cosmwasm_std::{coins, Addr, Uint128};
use cw4::{Member, MemberListResponse, MemberResponse};
use cw_utils::Duration;
use serde_json::{json, Value};
use std::collections::BTreeSet;
use vcore::direct::Direct;
use vcore::CaseCtx;

const DENOM: &str = "ustake";

struct Cw4Target {
    d: Direct,
    stake: bool,
}

impl Target for Cw4Target {
    fn page(&self, cursor: Option<&Key>, limit: Option<u32>) -> Result<Vec<Item>, String> {
        let start_after = cursor.map(|k| k.to_string());
        let r: MemberListResponse = if self.stake {
            self.d.query(|deps, env| cw4_stake::contract::query(deps, env, cw4_stake::msg::QueryMsg::ListMembers { start_after, limit }))?
        } else {
            self.d.query(|deps, env| cw4_group::contract::query(deps, env, cw4_group::msg::QueryMsg::ListMembers { start_after, limit }))?
        };
        Ok(r.members.into_iter().map(|m| Item { key: Key::Addr(m.addr), value: json!({"weight": m.weight}) }).collect())
    }

    fn point(&self, key: &Key) -> Result<Option<Value>, String> {
        let Key::Addr(a) = key else { return Err("id key on an address listing".into()) };
        let r: MemberResponse = if self.stake {
            self.d.query(|deps, env| cw4_stake::contract::query(deps, env, cw4_stake::msg::QueryMsg::Member { addr: a.clone(), at_height: None }))?
        } else {
            self.d.query(|deps, env| cw4_group::contract::query(deps, env, cw4_group::msg::QueryMsg::Member { addr: a.clone(), at_height: None }))?
        };
        Ok(r.weight.map(|w| json!({"weight": w})))
    }
}

fn group_exec(d: &mut Direct, sender: &Addr, msg: cw4_group::msg::ExecuteMsg) -> Result<(), String> {
    let info = Direct::info(sender, &[]);
    d.tx(|deps, env| cw4_group::contract::execute(deps, env, info, msg)).map(|_| ())
}

fn stake_exec(d: &mut Direct, sender: &Addr, funds: u128, msg: cw4_stake::msg::ExecuteMsg) -> Result<(), String> {
    let f = if funds > 0 { coins(funds, DENOM) } else { vec![] };
    let info = Direct::info(sender, &f);
    d.tx(|deps, env| cw4_stake::contract::execute(deps, env, info, msg)).map(|_| ())
}

pub fn build(case: &Case, ctx: &mut CaseCtx) -> Built {
    let mut d = Direct::new();
    let n = case.n as usize;
    let cands = sorted_addrs(&d.api, "member", n);
    let plan = removal_plan(n, &case.deletions);
    let order = creation_order(n, case.variant);
    let admin = d.api.addr_make("admin");
    let mut required: BTreeSet<Key> = BTreeSet::new();

    match case.listing {
        Listing::GroupMembers => {
            let weight = |s: usize| -> u64 {
                if (s + case.variant as usize) % 7 == 3 {
                    0
                } else {
                    1 + (s as u64 % 4)
                }
            };
            let (first, second) = order.split_at(n - n / 3);
            let members: Vec<Member> = first.iter().map(|&s| Member { addr: cands[s].to_string(), weight: weight(s) }).collect();
            let info = Direct::info(&admin, &[]);
            let msg = cw4_group::msg::InstantiateMsg { admin: Some(admin.to_string()), members };
            must(d.tx(|deps, env| cw4_group::contract::instantiate(deps, env, info, msg)).map(|_| ()), "group instantiate");
            d.advance(1, 5);
            // first wave of removals (members that already exist, every second planned one)
            let wave1: Vec<usize> = (0..n).filter(|s| plan[*s].is_some() && first.contains(s) && s % 2 == 0).collect();
            let mut chunks = second.chunks(13);
            let add: Vec<Member> = chunks.next().unwrap_or(&[]).iter().map(|&s| Member { addr: cands[s].to_string(), weight: weight(s) }).collect();
            must(
                group_exec(&mut d, &admin, cw4_group::msg::ExecuteMsg::UpdateMembers { remove: wave1.iter().map(|s| cands[*s].to_string()).collect(), add }),
                "group update (wave 1)",
            );
            d.advance(1, 5);
            for chunk in chunks {
                let add: Vec<Member> = chunk.iter().map(|&s| Member { addr: cands[s].to_string(), weight: weight(s) }).collect();
                must(group_exec(&mut d, &admin, cw4_group::msg::ExecuteMsg::UpdateMembers { remove: vec![], add }), "group update (add)");
                d.advance((case.variant % 2) as u64, 5);
            }
            // remaining removals one by one or all at once; some survivors change weight;
            // some removed members are re-added and removed again
            let wave2: Vec<usize> = (0..n).filter(|s| plan[*s].is_some() && !wave1.contains(s)).collect();
            if case.variant % 2 == 0 {
                for s in &wave2 {
                    must(group_exec(&mut d, &admin, cw4_group::msg::ExecuteMsg::UpdateMembers { remove: vec![cands[*s].to_string()], add: vec![] }), "group update (remove one)");
                }
            } else {
                must(
                    group_exec(&mut d, &admin, cw4_group::msg::ExecuteMsg::UpdateMembers { remove: wave2.iter().map(|s| cands[*s].to_string()).collect(), add: vec![] }),
                    "group update (remove many)",
                );
            }
            d.advance(1, 5);
            let readd: Vec<usize> = wave1.iter().filter(|s| *s % 3 == 0).copied().collect();
            if !readd.is_empty() {
                must(
                    group_exec(&mut d, &admin, cw4_group::msg::ExecuteMsg::UpdateMembers { remove: vec![], add: readd.iter().map(|s| Member { addr: cands[*s].to_string(), weight: 9 }).collect() }),
                    "group update (re-add)",
                );
                d.advance(1, 5);
                must(
                    group_exec(&mut d, &admin, cw4_group::msg::ExecuteMsg::UpdateMembers { remove: readd.iter().map(|s| cands[*s].to_string()).collect(), add: vec![] }),
                    "group update (remove again)",
                );
            }
            let bump: Vec<Member> = (0..n).filter(|s| plan[*s].is_none() && s % 9 == 4).map(|s| Member { addr: cands[s].to_string(), weight: 50 + s as u64 }).collect();
            if !bump.is_empty() {
                must(group_exec(&mut d, &admin, cw4_group::msg::ExecuteMsg::UpdateMembers { remove: vec![], add: bump }), "group update (weights)");
            }
            ctx.add("group_member_removed", (wave1.len() + wave2.len()) as u64);
            d.advance(2, 11);
        }
        Listing::StakeMembers => {
            // weight = stake / tokens_per_weight for stake >= min_bond, otherwise no membership
            let (tpw, min_bond): (u128, u128) = match case.variant % 3 {
                0 => (1, 1),
                1 => (2, 5),
                _ => (10, 3), // members of weight 0 exist
            };
            let info = Direct::info(&admin, &[]);
            let msg = cw4_stake::msg::InstantiateMsg {
                denom: cw20::Denom::Native(DENOM.to_string()),
                tokens_per_weight: Uint128::new(tpw),
                min_bond: Uint128::new(min_bond),
                unbonding_period: Duration::Height(5),
                admin: Some(admin.to_string()),
            };
            must(d.tx(|deps, env| cw4_stake::contract::instantiate(deps, env, info, msg)).map(|_| ()), "stake instantiate");
            let stake_of = |s: usize| -> u128 { min_bond + (s as u128 * 3) % 23 };
            for &s in &order {
                must(stake_exec(&mut d, &cands[s], stake_of(s), cw4_stake::msg::ExecuteMsg::Bond {}), "bond");
                if s % 6 == 2 {
                    // top up in a second step
                    must(stake_exec(&mut d, &cands[s], 7, cw4_stake::msg::ExecuteMsg::Bond {}), "bond more");
                }
                if s % 8 == 0 {
                    d.advance(1, 5);
                }
            }
            // somebody who bonds less than the minimum never becomes a member
            if min_bond > 1 {
                let small = d.api.addr_make("small-staker");
                must(stake_exec(&mut d, &small, min_bond - 1, cw4_stake::msg::ExecuteMsg::Bond {}), "bond below minimum");
            }
            let mut removed = 0u64;
            for s in 0..n {
                let staked = stake_of(s) + if s % 6 == 2 { 7 } else { 0 };
                if plan[s].is_some() {
                    // unbond everything, or just enough to fall below the minimum
                    let tokens = if s % 2 == 0 { staked } else { staked - (min_bond - 1) };
                    must(stake_exec(&mut d, &cands[s], 0, cw4_stake::msg::ExecuteMsg::Unbond { tokens: Uint128::new(tokens) }), "unbond below minimum");
                    removed += 1;
                } else if s % 5 == 1 && staked > min_bond {
                    // partial unbond, still a member
                    must(stake_exec(&mut d, &cands[s], 0, cw4_stake::msg::ExecuteMsg::Unbond { tokens: Uint128::new(1) }), "partial unbond");
                }
                if s % 10 == 9 {
                    d.advance(1, 5);
                }
            }
            ctx.add("stake_member_removed", removed);
            d.advance(2, 11);
        }
        _ => unreachable!(),
    }
    for s in 0..n {
        if plan[s].is_none() {
            required.insert(Key::Addr(cands[s].to_string()));
        }
    }
    Built { target: Box::new(Cw4Target { d, stake: case.listing == Listing::StakeMembers }), required, optional: BTreeSet::new(), descending: false, hidden_expired: 0 }
}
