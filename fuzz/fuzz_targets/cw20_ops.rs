#![no_main]
use libfuzzer_sys::fuzz_target;
// byte 0 selects C01 / C02 / C13 / C19; the rest drives the cw20 case strategy (PassThrough RNG)
fuzz_target!(|data: &[u8]| {
    vcore::runner::fuzz_one(&fam_cw20::Cw20Family, &["C01", "C02", "C13", "C19"], data);
});
