#![no_main]
use libfuzzer_sys::fuzz_target;
// byte 0 selects the property; the rest is decoded by the family's byte decoder (Family::decode)
fuzz_target!(|data: &[u8]| {
    vcore::runner::fuzz_one(&fam_cw4::Cw4Family, &["C09", "C14"], data);
});
