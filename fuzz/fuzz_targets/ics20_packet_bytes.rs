#![no_main]
use libfuzzer_sys::fuzz_target;
// arbitrary bytes as the data of an incoming packet against a fixed small state (C12:
// never aborts, always an acknowledgement, error ack => state untouched, success ack => full payout)
fuzz_target!(|data: &[u8]| {
    let case = fam_ics20::raw_packet_case(data);
    vcore::runner::fuzz_case(&fam_ics20::Ics20Family, "C12", &case);
});
