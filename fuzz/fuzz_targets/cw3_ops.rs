#![no_main]
use libfuzzer_sys::fuzz_target;
// byte 0 selects C03 / C05 / C06 / C15; the rest is decoded into a multisig history
fuzz_target!(|data: &[u8]| {
    vcore::runner::fuzz_one(&fam_cw3::multisig::MultisigFamily, &["C03", "C05", "C06", "C15"], data);
});
