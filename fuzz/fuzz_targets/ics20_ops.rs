#![no_main]
use libfuzzer_sys::fuzz_target;
fuzz_target!(|data: &[u8]| {
    vcore::runner::fuzz_one(&fam_ics20::Ics20Family, &["C11", "C12", "C18"], data);
});
