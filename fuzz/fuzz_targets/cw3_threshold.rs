#![no_main]
use libfuzzer_sys::fuzz_target;
fuzz_target!(|data: &[u8]| {
    vcore::runner::fuzz_one(&fam_cw3::tally::TallyFamily, &["C04"], data);
});
