#!/usr/bin/env python3
"""Regenerate the seeded-change table of DESIGN.md section 10.1 (between the seeded-table markers)
from seeded/*/meta.json and seeded/ROBUSTNESS.txt, and selftest/RESULTS.md's per-property summary."""
import json, glob, os, re
V = os.path.dirname(os.path.dirname(os.path.abspath(__file__)))
rob = {}
p = f"{V}/seeded/ROBUSTNESS.txt"
if os.path.exists(p):
    for l in open(p):
        m = re.match(r"(C\d\d-\d+): (\S+)", l)
        if m:
            rob[m.group(1)] = m.group(2)
def key(d):
    n = os.path.basename(d); a, b = n.split("-"); return (a, int(b))
rows = ["| change | what it does | needs to manifest | suite with patch | demo with/without | caught | tier | signature | quick tier, seeds 1-3 |", "|---|---|---|---|---|---|---|---|---|"]
def clip(s, n=260):
    s = s.replace("|", "/").replace("\n", " ")
    return s if len(s) <= n else s[:n].rstrip() + " ..."
n = 0
for d in sorted(glob.glob(f"{V}/seeded/C*-*"), key=key):
    m = json.load(open(f"{d}/meta.json")); name = os.path.basename(d)
    cv = m["coordinator_verification"]; dc = m["detected_by_check"]
    rows.append(f"| {name} | {clip(m['summary'])} | {clip(m['needs'])} | {cv['existing_suite_with_patch']} | {cv['demo_with_patch']}/{cv['demo_without_patch']} | {dc['caught']} | {dc['tier']} | {dc['signature']} | {rob.get(name, '-')} |")
    n += 1
s = open(f"{V}/DESIGN.md").read()
b, e = "<!-- seeded-table-begin -->", "<!-- seeded-table-end -->"
i, j = s.index(b) + len(b), s.index(e)
s = s[:i] + "\n" + "\n".join(rows) + "\n" + s[j:]
open(f"{V}/DESIGN.md", "w").write(s)
print(n, "rows")
