#!/usr/bin/env bash
# Re-pick the seed inputs of the stateful fuzz targets after a decoder change: random byte strings that the
# family's decoder turns into NON-TRIVIAL cases (as reported by `<family> fuzzbytes`), six per target, with the
# property-selector byte 0 cycling through the target's properties. Deterministic (fixed PRNG seed).
set -u
cd "$(dirname "$0")/.."
H=harness/target/release
declare -A T=( [cw20_ops]="fam_cw20 C01 C02 C13 C19" [cw3_ops]="fam_cw3 C03 C05 C06 C15" [ics20_ops]="fam_ics20 C11 C12 C18" [cw1_ops]="fam_cw1 C07 C08 C16 C17" [cw4_ops]="fam_cw4 C09 C14" [stake_ops]="fam_stake C10" [page_ops]="fam_page C20" )
tmp="$(mktemp -d)"
for tgt in "${!T[@]}"; do
  set -- ${T[$tgt]}; fam=$1; shift; props=("$@")
  mkdir -p fuzz/corpus-seed/$tgt; rm -f fuzz/corpus-seed/$tgt/seed-*.bin
  kept=0; i=0
  while [ $kept -lt 6 ] && [ $i -lt 400 ]; do
    i=$((i+1))
    k=$((kept % ${#props[@]})); prop=${props[$k]}
    python3 - "$tmp/f" "$tgt" "$i" "$k" <<'PY'
import sys, random
path, tgt, i, k = sys.argv[1], sys.argv[2], int(sys.argv[3]), int(sys.argv[4])
r = random.Random(f"{tgt}-{i}")
n = r.randint(200, 1400)
open(path, "wb").write(bytes([k]) + bytes(r.getrandbits(8) for _ in range(n)))
PY
    out="$($H/$fam fuzzbytes "$prop" "$tmp/f" 2>&1)"
    if echo "$out" | grep -q "nontrivial=true"; then cp "$tmp/f" fuzz/corpus-seed/$tgt/seed-$kept.bin; kept=$((kept+1)); fi
  done
  echo "$tgt: $kept seeds after $i tries"
done
rm -rf "$tmp"
