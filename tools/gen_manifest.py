#!/usr/bin/env python3
"""Regenerates /verif/MANIFEST.json from the table below (kept in one place so the
manifest stays valid while families are added)."""
import json, os, sys
ROOT = os.path.dirname(os.path.dirname(os.path.abspath(__file__)))

TRUST = ("cosmwasm-std / cw-storage-plus / cw-utils / cw-controllers / cw2 (and cw-multi-test where the chain driver is used) "
         "are the trusted execution substrate; transactions are atomic (failed or panicking calls leave no state); natively compiled "
         "contract code stands for its wasm build; exploration only: absence of violations among generated cases, no proof.")

# id -> (family engine, technique, level text, design ref)
CHECKS = {
 "C01": ("cw20", "stateful property-based testing (proptest op-sequence generation + interpreter), invariant + exact step-delta oracle after every call",
         "Thousands of generated token lives (instantiate + up to 40/120 calls of every execute variant, edge-biased and state-relative u128 amounts, failing calls included); after every step AllAccounts is paged to exhaustion and the sum of Balance answers is compared with TokenInfo.total_supply, and every step's balance/supply delta is compared with the exact expected delta. Right level: the property is an invariant over histories that is cheap to evaluate exhaustively per step.", "DESIGN.md section 4 / C01"),
 "C02": ("cw20", "stateful property-based testing, history invariants + grant/draw ledger over all (owner,spender) pairs",
         "Generated histories of transfers, sends, burns, allowance changes with all expiry kinds placed around the moving block, draws and the decrease-vs-draw race in both orders; clauses (a)-(e) are evaluated from Balance/Allowance observations of all actors and pairs before and after every call, plus a cumulative granted/drawn ledger and structural comparison of the Cw20ReceiveMsg.", "DESIGN.md section 4 / C02"),
 "C04": ("cw3lib", "property-based testing of the decision functions against an exact-arithmetic reference model, with exhaustive enumeration of vote completions for totals <= 12",
         "Millions of constructed proposals (all three threshold kinds incl. percentages a hair above rationals j/total with 9 and 18 decimals, totals from 0 to u64::MAX, tallies placed at yes/no/quorum decision boundaries, before / exactly at / after expiry): after expiry is_passed is compared with the documented formula in exact u128 arithmetic (<= 9 decimals exactly; 18 decimals within one vote and never stricter), before expiry Passed/Rejected are checked against every completion of the outstanding votes (enumerated for totals <= 12, closed-form extremal completions cross-checked against the enumeration above), never both, never Passed with zero Yes.", "DESIGN.md section 4 / C04"),
 "C13": ("cw20", "stateful property-based testing, minter/cap invariants after every call",
         "Generated histories weighted to Mint/Burn/UpdateMinter by minter, ex-minters and strangers with caps at initial supply -1/0/+1 and mint amounts at cap-supply(+1); invariants on supply, cap and minter identity after every call.", "DESIGN.md section 4 / C13"),
 "C19": ("cw20", "stateful property-based testing, three-view differential oracle incl. fabricated legacy storage + migrate",
         "Generated allowance histories (draws to zero, removals, re-grants) and a legacy arm that fabricates a 0.13.4 storage image, migrates it and continues; after every step the owner listing, spender listing (both paged with limit 3) and point query are compared for all 25 pairs.", "DESIGN.md section 4 / C19"),
}

FAMILIES = {
 "cw3lib": ("harness/fam_cw3 (module tally)", "proptest generator of (threshold, total, tally, expiry) + exact u128 model + completion enumeration over cw3::Proposal"),
 "cw20": ("harness/fam_cw20", "proptest op-sequence generator + interpreter over cw20-base entry points (direct driver)"),
}

def main():
    checks = []
    for pid in sorted(CHECKS):
        fam, tech, text, ref = CHECKS[pid]
        checks.append({
            "property_id": pid,
            "quick_cmd": f"./check {pid} quick",
            "thorough_cmd": f"./check {pid} thorough",
            "evidence_file": f"/verif/evidence/{pid}.json",
            "replay_cmd_template": f"./check --replay {pid} {{path}}",
            "engine": fam,
            "level_claimed": {"category": "exploration", "text": text, "design_ref": ref},
            "level_note": TRUST,
            "technique": tech,
        })
    props = [json.loads(l)["id"] for l in open(os.path.join(ROOT, "properties.jsonl"))]
    na_path = os.path.join(ROOT, "tools", "not_applicable.json")
    na_reasons = json.load(open(na_path)) if os.path.exists(na_path) else {}
    na = []
    for p in props:
        if p not in CHECKS:
            na.append({"property_id": p, "reason": na_reasons.get(p, "check not built yet in this revision of /verif (planned, see DESIGN.md section 4); not claimed until it exists")})
    m = {
        "version": 1,
        "setup_cmd": "./check --setup",
        "hooks": {
            "guard": "cw_plus_verif",
            "enable": "the harness passes --cfg cw_plus_verif (harness/.cargo/config.toml); no hook exists in /repo: every observation uses public entry points, responses and queries",
            "baseline_off_cmd": "cd /repo && cargo test --workspace --no-fail-fast --offline",
            "source_commits": [],
            "add_only": True,
        },
        "engines": [{"name": k, "path": v[0], "serves_properties": sorted(p for p in CHECKS if CHECKS[p][0] == k), "kind_free_text": v[1]} for k, v in FAMILIES.items()],
        "checks": checks,
        "notes": "exit 0 = held on everything explored (KNOWN-FINDING lines possible); exit 1 + VIOLATION line; exit 2 = inconclusive (build failure, harness panic, generator floor, watchdog). VERIF_SEED and VERIF_TIER honoured. known findings: /verif/known_findings.json.",
        "not_applicable": na,
    }
    json.dump(m, open(os.path.join(ROOT, "MANIFEST.json"), "w"), indent=1)
    print("wrote MANIFEST.json with", len(checks), "checks;", len(na), "not claimed")

main()
