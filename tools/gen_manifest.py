#!/usr/bin/env python3
"""Regenerates /verif/MANIFEST.json from the table below (kept in one place so the
manifest stays valid while families are added)."""
import json, os, sys
ROOT = os.path.dirname(os.path.dirname(os.path.abspath(__file__)))

TRUST = ("cosmwasm-std / cw-storage-plus / cw-utils / cw-controllers / cw2 (and cw-multi-test where the chain driver is used) "
         "are the trusted execution substrate; transactions are atomic (failed or panicking calls leave no state); natively compiled "
         "contract code stands for its wasm build; exploration only: absence of violations among generated cases, no proof.")

# id -> (family engine, technique, level text, design ref)
CHECKS = {
 "C01": ("cw20", "stateful property-based testing (proptest op-sequence generation + interpreter), invariant + exact step-delta oracle after every call",
         "Thousands of generated token lives (instantiate + up to 40/120 calls of every execute variant, edge-biased and state-relative u128 amounts, failing calls included); after every step AllAccounts is paged to exhaustion and the sum of Balance answers is compared with TokenInfo.total_supply, and every step's balance/supply delta is compared with the exact expected delta. Right level: the property is an invariant over histories that is cheap to evaluate exhaustively per step.", "DESIGN.md section 4 / C01"),
 "C02": ("cw20", "stateful property-based testing, history invariants + grant/draw ledger over all (owner,spender) pairs",
         "Generated histories of transfers, sends, burns, allowance changes with all expiry kinds placed around the moving block, draws and the decrease-vs-draw race in both orders; clauses (a)-(e) are evaluated from Balance/Allowance observations of all actors and pairs before and after every call, plus a cumulative granted/drawn ledger and structural comparison of the Cw20ReceiveMsg.", "DESIGN.md section 4 / C02"),
 "C03": ("cw3", "stateful property-based testing on a cw-multi-test chain; exact-arithmetic reference model recomputes every proposal's outcome from its paged ballots after every call",
         "Generated histories on cw3-fixed-multisig and cw3-flex-multisig (static cw4-group): proposals with every expiry shape, all four vote options by members / zero-weight members / outsiders, execute, close, block and time advances onto expiry boundaries; after every op each proposal's status from Proposal / ListProposals / ReverseProposals must equal Passed <=> (yes>0 and rule certainly satisfied / satisfied at expiry), Rejected only if expired-and-failed or cannot pass, Open only before expiry, Executed iff an Execute succeeded; Execute and Close admission is compared with the model status.", "DESIGN.md section 4 / C03"),
 "C05": ("cw3", "stateful property-based testing with fault injection (failing dispatch, re-entrant messages) on a cw-multi-test chain; rollback-aware recorder log + lifecycle automaton",
         "Generated histories with proposals carrying Recorder messages (failing while a fault switch is on), bank sends the multisig can or cannot afford and re-entrant Execute/Vote/Close calls into the multisig, executor settings None/Member/Only, retries after failed dispatch: the recorder contract's log and real bank balances must show every executed proposal's messages exactly once, in order, only from a successful Execute whose pre-call status was Passed and whose caller is authorised; statuses only move forward; ids sequential; content, threshold and expiry immutable and bounded by the maximum voting period; deliverable Passed proposals must execute; Close never dispatches.", "DESIGN.md section 4 / C05"),
 "C06": ("cw3", "stateful property-based testing against a per-block membership reference model (schedules = transaction order within and across blocks)",
         "fixed: generated voter lists with repeats and zero weights; flex: cw4-group updates (add / re-weight / remove / re-add) placed before, inside and after the proposal's block, with the multisig optionally registered as hook; oracle: ballots come only from successful votes of snapshot members with weight >= 1, once, before expiry, with the snapshot weight; total_weight == snapshot sum; ballots never outweigh it; group changes never alter existing proposals. The known same-block divergence (F5) is tolerated only under its exact signature.", "DESIGN.md section 4 / C06"),
 "C15": ("cw3", "stateful property-based testing with a deposit ledger over real bank / cw20 balances and an end-of-history recovery sweep",
         "cw3-flex with native or cw20 (real cw20-base) deposits, refunds on/off, all payment shapes (exact, short, excess, none, wrong denom, extra coin; cw20 allowance exact/short/excess/none): every call's real balance deltas of all actors and the multisig must equal the ledger's expectation (deposit taken exactly once on a successful propose, returned exactly once to the proposer by Execute or - if enabled - Close, never otherwise); at the end the chain is moved past every expiry and Close/Execute are attempted on every proposal, after which no failed proposal may still hold its deposit when refunds are enabled (F6 tolerated under its exact signature only).", "DESIGN.md section 4 / C15"),
 "C04": ("cw3lib", "property-based testing of the decision functions against an exact-arithmetic reference model, with exhaustive enumeration of vote completions for totals <= 12",
         "Millions of constructed proposals (all three threshold kinds incl. percentages a hair above rationals j/total with 9 and 18 decimals, totals from 0 to u64::MAX, tallies placed at yes/no/quorum decision boundaries, before / exactly at / after expiry): after expiry is_passed is compared with the documented formula in exact u128 arithmetic (<= 9 decimals exactly; 18 decimals within one vote and never stricter), before expiry Passed/Rejected are checked against every completion of the outstanding votes (enumerated for totals <= 12, closed-form extremal completions cross-checked against the enumeration above), never both, never Passed with zero Yes.", "DESIGN.md section 4 / C04"),
 "C07": ("cw1", "stateful property-based testing; authorisation predicate written from the contract docs + structural equality of relayed messages",
         "Both proxies: generated admin sets, prior histories of allowance / permission / admin changes and freezes, then Execute by admins, subkeys with and without grants, removed admins and strangers with 0-5 messages drawn from all 22 constructible CosmosMsg kinds (mixed lists where only the k-th message is forbidden): a successful Execute implies the caller is an admin or every message is covered (bank sends cumulatively within the unexpired visible allowance; staking / distribution messages by their flags), and its Response.messages equal the submitted list exactly (order, content, no reply, no gas limit); other calls relay nothing.", "DESIGN.md section 4 / C07"),
 "C08": ("cw1", "stateful property-based testing; allowance ledger over the visible Allowance / Permissions of all subkeys before and after every call",
         "cw1-subkeys: generated interleavings of Increase / DecreaseAllowance (any denom, edge-biased amounts, every expiry kind around the moving block) by admins and Execute calls with several bank sends of several coins by subkeys, across expiries and re-grants: a successful spend implies the visible allowance covered every denom cumulatively and is reduced by exactly the relayed amount; increases and decreases (saturating) change only the targeted denom of the targeted subkey; nothing else, no failed call and no other subkey's activity changes an allowance or permissions; relayed <= granted at every step.", "DESIGN.md section 4 / C08"),
 "C09": ("cw4", "stateful property-based testing against a per-block membership reference model; smart queries vs raw spec keys differential",
         "Generated block-structured histories on cw4-group (UpdateMembers with overlapping add/remove lists, re-weights, remove-then-re-add, several changes per block) and cw4-stake (bond/unbond by several users): after every transaction TotalWeight == sum of paged ListMembers, Member == listing, raw TOTAL_KEY / member_key(addr) reads == smart queries; at the end of every block Member{at_height:h} (and cw4-group TotalWeight{at_height:h}) is compared with the model's start-of-block value for every pool address and every h from before instantiation to now+2.", "DESIGN.md section 4 / C09"),
 "C14": ("cw4", "stateful property-based testing; admin-gate invariants + truthfulness check of every decoded MemberChangedHookMsg",
         "Generated histories of UpdateAdmin / AddHook / RemoveHook / UpdateMembers (cw4-group) and Bond / Unbond (cw4-stake) by admins, ex-admins and strangers with 0-3 hooks: membership (group), hook list and admin differ only after a successful call by the pre-call admin and never once the admin is cleared; every successful membership-changing call's Response.messages are decoded and composed per key (first old == pre weight, entries chain, last new == post weight), every changed address appears, each registered hook gets exactly one notification, removed hooks none.", "DESIGN.md section 4 / C14"),
 "C10": ("stake", "stateful property-based testing on a cw-multi-test chain with real bank / cw20 balances; stake-and-claim ledger as reference model",
         "Generated configurations (native or cw20 stake token, tokens_per_weight from 1 to > 2^64, min_bond, height- or time-based unbonding) and histories of bond / unbond / claim / foreign-token attempts / donations by three users funded up to 2^127 over block and time advances: after every call the contract's real balance must cover (equal, without donations) the sum of Staked plus unreleased Claims; a user's stake changes only by its own successful bond (+ exactly the funds moved) or unbond; foreign tokens never accepted; a paying Claim pays exactly the matured claims, never before unbond + period, and removes exactly those; Member is reported iff stake >= min_bond with weight == stake / tokens_per_weight computed in u128 (never wrapped); TotalWeight == sum of member weights.", "DESIGN.md section 4 / C10"),
 "C11": ("ics20", "stateful property-based testing with fault injection on a cw-multi-test chain (real ibc_* entry points behind a sudo shim, recording IBC module); escrow ledger over real balances",
         "Generated histories over 1-3 channels, two native and three cw20 tokens: transfers, incoming packets from a malicious counterparty (every denom form, amounts around and above the outstanding balance, invalid receivers, raw garbage), deliver / ack / timeout per sent packet in any order, payout and refund sub-calls failing on demand (blocked bank recipient, cw20 whose Transfer is switched off): after every op the contract's real holdings cover the sum over channels of the reported outstanding balance per token, and tokens paid out per (channel, token) never exceed tokens escrowed there; foreign / other-port / other-channel / excess packets and error acks move nothing.", "DESIGN.md section 4 / C11"),
 "C12": ("ics20", "stateful property-based testing with fault injection and a fabricated-legacy-storage upgrade arm; accounting identity + ack<=>effect + structural packet comparison",
         "As C11 with an honest counterparty model, governance changes mid-history and an upgrade arm (0.11.1 / 0.12.1 / 0.13.0 storage images with acked and in-flight sends and cw20 tokens possibly off the allow list, migrated first): outstanding == sent - failed/timed-out - redeemed per (channel, denom) after every op; every incoming packet is answered (never aborts); success ack => receiver got the full amount and the balance fell by it; error ack => every Channel response, all holdings and all user balances identical to before; each accepted transfer emits exactly one SendPacket whose JSON carries the escrowed amount (<= 2^64-1), denom, true sender, receiver, memo (absent when none) and timeout == block time + requested-or-default; refused transfers emit none and move nothing.", "DESIGN.md section 4 / C12"),
 "C16": ("cw1", "differential property-based testing: CanExecute query vs Execute on a clone of the same state",
         "States reached by generated histories on both proxies (expired and emptied allowances, all permission-flag combinations, frozen / unfrozen) at arbitrary blocks; for 20 probes per state plus every message of every Execute op: CanExecute{sender,msg} must be true exactly when Execute{msgs:[msg]} by that sender succeeds on a clone of the state.", "DESIGN.md section 4 / C16"),
 "C17": ("cw1", "stateful property-based testing; admin-list / mutability invariants and admin-only grant changes",
         "Both proxies: generated histories of UpdateAdmins / Freeze / allowance / permission / Execute calls by current admins, removed admins, subkeys and strangers from every initial admin set and mutability: AdminList differs only after a successful UpdateAdmins / Freeze by a member of the pre-call list while mutable; once immutable it never changes again; permissions change only in successful calls of current admins, allowances only by admins or by the subkey's own spending (never increasing).", "DESIGN.md section 4 / C17"),
 "C18": ("ics20", "stateful property-based testing; monotonicity invariants on allow list / admin / default gas limit and inspection of every payout sub-message's gas limit",
         "Generated histories of Allow (new / raise / lower / limited->unlimited / unlimited->limited), UpdateAdmin, migrate, cw20 transfers and packets / acks / timeouts that trigger payouts, by governance, former governance and strangers: allow list and admin change only in successful calls of the pre-call governance address, the allowed set only grows, per-token limits never decrease (none = unlimited), the default is never unset, cw20 transfers are accepted only if allowed or a default exists, and every cw20 payout / refund sub-message logged by the shim carries the token's current limit or else the default (native payouts: none).", "DESIGN.md section 4 / C18"),
 "C13": ("cw20", "stateful property-based testing, minter/cap invariants after every call",
         "Generated histories weighted to Mint/Burn/UpdateMinter by minter, ex-minters and strangers with caps at initial supply -1/0/+1 and mint amounts at cap-supply(+1); invariants on supply, cap and minter identity after every call.", "DESIGN.md section 4 / C13"),
 "C20": ("page", "property-based testing of every list query: generated state sizes / deletions / limits / cursors, paged walk vs model key set and point queries",
         "For each of the 16 paginated listings (cw20 accounts, owner and spender allowances; subkeys allowances (expired hidden) and permissions; fixed and flex proposals forward/reverse, votes, voters; cw4-group and cw4-stake members; ics20 allow list) states with 0..70 items incl. runs of deleted / expired entries longer than a page are built through real calls; a walk with cursor = last returned key must return exactly the model's key set in key order with point-query values, pages never exceed min(limit,30), absent limit gives 10, results are independent of the page size, and a walk from a mid-list cursor returns exactly the suffix.", "DESIGN.md section 4 / C20"),
 "C19": ("cw20", "stateful property-based testing, three-view differential oracle incl. fabricated legacy storage + migrate",
         "Generated allowance histories (draws to zero, removals, re-grants) and a legacy arm that fabricates a 0.13.4 storage image, migrates it and continues; after every step the owner listing, spender listing (both paged with limit 3) and point query are compared for all 25 pairs.", "DESIGN.md section 4 / C19"),
}

FAMILIES = {
 "cw3": ("harness/fam_cw3 (module multisig)", "proptest op-sequence generator + interpreter over cw3-fixed-multisig / cw3-flex-multisig + cw4-group + cw20-base + recorder contract on cw-multi-test"),
 "cw3lib": ("harness/fam_cw3 (module tally)", "proptest generator of (threshold, total, tally, expiry) + exact u128 model + completion enumeration over cw3::Proposal"),
 "ics20": ("harness/fam_ics20", "proptest op-sequence generator + interpreter over cw20-ics20 (ibc_* entry points via sudo shim, reply, migrate) with recording IBC module, fault-injecting bank and cw20 on cw-multi-test"),
 "stake": ("harness/fam_stake", "proptest op-sequence generator + interpreter over cw4-stake with real cw20-base and bank module on cw-multi-test"),
 "cw1": ("harness/fam_cw1", "proptest op-sequence generator + interpreter over cw1-whitelist / cw1-subkeys entry points (direct driver)"),
 "cw4": ("harness/fam_cw4", "proptest block-structured history generator + interpreter over cw4-group / cw4-stake entry points (direct driver)"),
 "page": ("harness/fam_page", "proptest generator of (listing, size, deletions, limit, cursor) + paged-walk oracle over all list queries (direct driver; cw-multi-test for cw3-flex)"),
 "cw20": ("harness/fam_cw20", "proptest op-sequence generator + interpreter over cw20-base entry points (direct driver)"),
}

def main():
    checks = []
    for pid in sorted(CHECKS):
        fam, tech, text, ref = CHECKS[pid]
        checks.append({
            "property_id": pid,
            "quick_cmd": f"./check {pid} quick",
            "thorough_cmd": f"./check {pid} thorough",
            "evidence_file": f"/verif/evidence/{pid}.json",
            "replay_cmd_template": f"./check --replay {pid} {{path}}",
            "engine": fam,
            "level_claimed": {"category": "exploration", "text": text, "design_ref": ref},
            "level_note": TRUST,
            "technique": tech + "; the thorough tier adds a coverage-guided libFuzzer campaign that drives the same interpreter and oracle from decoded bytes",
        })
    props = [json.loads(l)["id"] for l in open(os.path.join(ROOT, "properties.jsonl"))]
    na_path = os.path.join(ROOT, "tools", "not_applicable.json")
    na_reasons = json.load(open(na_path)) if os.path.exists(na_path) else {}
    na = []
    for p in props:
        if p not in CHECKS:
            na.append({"property_id": p, "reason": na_reasons.get(p, "check not built yet in this revision of /verif (planned, see DESIGN.md section 4); not claimed until it exists")})
    m = {
        "version": 1,
        "setup_cmd": "./check --setup",
        "hooks": {
            "guard": "cw_plus_verif",
            "enable": "the harness passes --cfg cw_plus_verif (harness/.cargo/config.toml); no hook exists in /repo: every observation uses public entry points, responses and queries",
            "baseline_off_cmd": "cd /repo && cargo test --workspace --no-fail-fast --offline",
            "source_commits": [],
            "add_only": True,
        },
        "engines": [{"name": k, "path": v[0], "serves_properties": sorted(p for p in CHECKS if CHECKS[p][0] == k), "kind_free_text": v[1]} for k, v in FAMILIES.items()],
        "checks": checks,
        "notes": "exit 0 = held on everything explored (KNOWN-FINDING lines possible); exit 1 + VIOLATION line; exit 2 = inconclusive (build failure, harness panic, generator floor, watchdog). VERIF_SEED and VERIF_TIER honoured. known findings: /verif/known_findings.json.",
        "not_applicable": na,
    }
    json.dump(m, open(os.path.join(ROOT, "MANIFEST.json"), "w"), indent=1)
    print("wrote MANIFEST.json with", len(checks), "checks;", len(na), "not claimed")

main()
