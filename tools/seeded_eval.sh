#!/usr/bin/env bash
# Evaluate one independently written breaking change: tools/seeded_eval.sh <ID> <dir with patch.diff demo.diff meta.json> <name>
# 1) existing suite passes with the patch 2) demo fails with the patch 3) demo passes without it
# 4) ./check <ID> quick (then thorough if missed and SEEDED_THOROUGH=1) against the patched scratch copy.
# Writes /verif/seeded/<name>/{patch.diff,demo.diff,meta.json}. Never touches /repo.
set -u
source "$(dirname "$0")/scratch_lib.sh"
cd "$V"
id="$1"; src="$2"; name="$3"
pkg="$(fam_of "$id")"
scratch_prepare "$pkg"
T="/tmp/vscratch-target-repo$TAG-$pkg"
demo_cmd="$(python3 -c "import json,sys;print(json.load(open('$src/meta.json'))['demo_cmd'])")"
demo_cmd="$(echo "$demo_cmd" | sed -E 's/^cd [^;&]*[;&]+ *//; s/CARGO_TARGET_DIR=[^ ]+ //g; s/^export [^;&]*[;&]+ *//')"
res_suite=NA; res_demo_with=NA; res_demo_without=NA
(cd "$S/repo" && patch -p1 -s < "$src/patch.diff") || { echo "$name: patch does not apply"; exit 3; }
if [ "${SKIP_REPO_TESTS:-0}" = "1" ] && [ -f "$V/seeded/$name/meta.json" ]; then
  read -r res_suite res_demo_with res_demo_without < <(python3 -c "import json;m=json.load(open('$V/seeded/$name/meta.json'))['coordinator_verification'];print(m['existing_suite_with_patch'],m['demo_with_patch'],m['demo_without_patch'])")
else
  if (cd "$S/repo" && CARGO_TARGET_DIR="$T" cargo test --workspace --offline >"$S/suite.log" 2>&1); then res_suite=pass; else res_suite=FAIL; fi
  (cd "$S/repo" && patch -p1 -s < "$src/demo.diff") || echo "$name: demo does not apply"
  if (cd "$S/repo" && CARGO_TARGET_DIR="$T" eval "$demo_cmd" >"$S/demo_with.log" 2>&1); then res_demo_with=pass; else res_demo_with=fail; fi
  (cd "$S/repo" && patch -p1 -R -s < "$src/patch.diff")
  if (cd "$S/repo" && CARGO_TARGET_DIR="$T" eval "$demo_cmd" >"$S/demo_without.log" 2>&1); then res_demo_without=pass; else res_demo_without=fail; fi
  (cd "$S/repo" && patch -p1 -R -s < "$src/demo.diff"; patch -p1 -s < "$src/patch.diff")
fi
caught=no; sig=""; tier_used=quick
if scratch_build "$pkg"; then
  for tier in quick thorough; do
    out="$(scratch_run "$pkg" "$id" "$tier")"; rc=$?
    if [ "$rc" = "1" ]; then caught=yes; tier_used=$tier; sig="$(echo "$out" | grep -m1 'signature:' | sed 's/.*signature: //')"; msg="$(echo "$out" | grep -m1 'message:' | cut -c1-400)"; break; fi
    [ "${SEEDED_THOROUGH:-0}" = "1" ] || break
  done
else
  caught=BUILD-FAILED; grep -E "^error" -A 6 "$S/build.log" | head -12
fi
(cd "$S/repo" && patch -p1 -R -s < "$src/patch.diff")
echo "$name: suite_with_patch=$res_suite demo_with_patch=$res_demo_with demo_without_patch=$res_demo_without caught=$caught tier=$tier_used sig=$sig"
[ -n "${msg:-}" ] && echo "    $msg"
mkdir -p "$V/seeded/$name"
[ "$src" -ef "$V/seeded/$name" ] || cp "$src/patch.diff" "$src/demo.diff" "$V/seeded/$name/"
python3 - "$src/meta.json" "$V/seeded/$name/meta.json" "$res_suite" "$res_demo_with" "$res_demo_without" "$caught" "$tier_used" "$sig" <<'PY'
import json,sys
src,dst,suite,dw,dwo,caught,tier,sig=sys.argv[1:9]
m=json.load(open(src))
m["origin"]="written by an independent sub-agent that saw only the property text and a scratch worktree of /repo (nothing from /verif)"
m["coordinator_verification"]={"existing_suite_with_patch":suite,"demo_with_patch":dw,"demo_without_patch":dwo,"how":"tools/seeded_eval.sh: scratch copy of /repo outside /repo and /verif; cargo test --workspace --offline with the patch; demonstration with and without the patch"}
m["detected_by_check"]={"caught":caught,"tier":tier,"signature":sig,"command":f"./check {m.get('property','?')} {tier} (harness built against the patched scratch copy, VERIF_SEED=1)"}
json.dump(m,open(dst,"w"),indent=1)
PY
