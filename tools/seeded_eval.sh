#!/usr/bin/env bash
# Evaluate one independently written breaking change: tools/seeded_eval.sh <ID> <dir with patch.diff demo.diff meta.json> <name>
# 1) suite passes with patch 2) demo fails with patch 3) demo passes without 4) ./check <ID> quick (and thorough if missed) against the patched copy
set -u
cd "$(dirname "$0")/.."
V="$PWD"; id="$1"; src="$2"; name="$3"
S="/tmp/vscratch"; rm -rf "$S"; mkdir -p "$S/root"
cp "$V/known_findings.json" "$S/root/"
rsync -a --exclude target --exclude .git /repo/ "$S/repo/"
rsync -a --exclude 'target*' "$V/harness/" "$S/harness/"
sed -i "s#/repo/#$S/repo/#" "$S/harness/Cargo.toml"
export CARGO_TARGET_DIR=/tmp/seedeval-target-repo
demo_cmd="$(python3 -c "import json,sys;print(json.load(open('$src/meta.json'))['demo_cmd'])")"
demo_cmd="$(echo "$demo_cmd" | sed 's/^cd [^;&]*[;&]* *//')"
res_suite=NA; res_demo_with=NA; res_demo_without=NA
(cd "$S/repo" && patch -p1 -s < "$src/patch.diff") || { echo "$name: patch does not apply"; exit 3; }
if (cd "$S/repo" && cargo test --workspace --offline >"$S/suite.log" 2>&1); then res_suite=pass; else res_suite=FAIL; fi
(cd "$S/repo" && patch -p1 -s < "$src/demo.diff") || { echo "$name: demo does not apply"; }
if (cd "$S/repo" && eval "$demo_cmd" >"$S/demo_with.log" 2>&1); then res_demo_with=pass; else res_demo_with=fail; fi
(cd "$S/repo" && patch -p1 -R -s < "$src/patch.diff")
if (cd "$S/repo" && eval "$demo_cmd" >"$S/demo_without.log" 2>&1); then res_demo_without=pass; else res_demo_without=fail; fi
# our check against patch only
(cd "$S/repo" && patch -p1 -R -s < "$src/demo.diff"; patch -p1 -s < "$src/patch.diff")
pkg="$(grep -E "^\s+[C0-9|]+\) echo fam_" "$V/check" | while read -r line; do ids="${line%%)*}"; p="${line##*echo }"; p="${p%% *}"; for i in ${ids//|/ }; do [ "$i" = "$id" ] && echo "$p"; done; done)"
unset CARGO_TARGET_DIR
caught=no; sig=""; tier_used=quick
if (cd "$S/harness" && CARGO_TARGET_DIR=/tmp/mut-target-$pkg cargo build --release --offline -p "$pkg" >"$S/build.log" 2>&1); then
  for tier in quick thorough; do
    out="$(VERIF_ROOT="$S/root" VERIF_SEED=1 /tmp/mut-target-$pkg/release/$pkg "$id" "$tier" 2>&1)"; rc=$?
    if [ "$rc" = "1" ]; then caught=yes; tier_used=$tier; sig="$(echo "$out" | grep -m1 'signature:' | sed 's/.*signature: //')"; break; fi
    [ "${SEEDED_THOROUGH:-1}" = "1" ] || break
  done
else
  caught=BUILD-FAILED; grep -E "^error" -A 6 "$S/build.log" | head -12; tail -5 "$S/build.log"
fi
echo "$name: suite_with_patch=$res_suite demo_with_patch=$res_demo_with demo_without_patch=$res_demo_without caught=$caught tier=$tier_used sig=$sig"
mkdir -p "$V/seeded/$name"
cp "$src/patch.diff" "$src/demo.diff" "$V/seeded/$name/"
python3 - "$src/meta.json" "$V/seeded/$name/meta.json" "$res_suite" "$res_demo_with" "$res_demo_without" "$caught" "$tier_used" "$sig" <<'PY'
import json,sys
src,dst,suite,dw,dwo,caught,tier,sig=sys.argv[1:9]
m=json.load(open(src))
m["origin"]="written by an independent sub-agent that saw only the property text and a scratch worktree of /repo (nothing from /verif)"
m["coordinator_verification"]={"existing_suite_with_patch":suite,"demo_with_patch":dw,"demo_without_patch":dwo,"how":"tools/seeded_eval.sh: scratch copy of /repo outside /repo and /verif; cargo test --workspace --offline with patch; demo with and without patch"}
m["detected_by_check"]={"caught":caught,"tier":tier,"signature":sig,"command":f"./check {m.get('property','?')} {tier} (harness built against the patched scratch copy, VERIF_SEED=1)"}
json.dump(m,open(dst,"w"),indent=1)
PY
rm -rf "$S"
