#!/usr/bin/env bash
# Evaluate the deliveries of one round of breaking-change authors: tools/seeded_eval_round.sh <round> <first index> "<ids>"
# For each id, /tmp/seed<round>-<id>/out/change{1,2} become seeded/<id>-<first index>, -<first index + 1>.
# Families run in parallel (one scratch copy each), changes of one family sequentially.
set -u
cd "$(dirname "$0")/.."
source tools/scratch_lib.sh
rnd="$1"; first="$2"; ids="$3"
declare -A BYFAM
for id in $ids; do f="$(fam_of "$id")"; BYFAM[$f]="${BYFAM[$f]:-} $id"; done
tmp="$(mktemp -d /tmp/evalround.XXXXXX)"
for f in "${!BYFAM[@]}"; do
  ( for id in ${BYFAM[$f]}; do for k in 1 2; do
      d="/tmp/seed$rnd-$id/out/change$k"
      [ -f "$d/patch.diff" ] || { echo "$id change$k: not delivered"; continue; }
      tools/seeded_eval.sh "$id" "$d" "$id-$((first + k - 1))" 2>&1 | grep -E "^(C[0-9]+-[0-9]+:|    )"
    done; done ) > "$tmp/$f.log" 2>&1 &
done
wait
cat "$tmp"/*.log; rm -rf "$tmp"
