#!/usr/bin/env bash
# Mutation self-test: applies each /verif/selftest/mutants/<ID>-<name>.diff to /repo, optionally
# confirms the repository's own tests still pass (REPO_TESTS=1), runs ./check <ID> quick and
# expects exit 1; always reverts /repo. Usage: tools/mutants.sh [glob]
cd "$(dirname "$0")/.."
pat="${1:-*}"
for f in selftest/mutants/$pat.diff; do
  name="$(basename "$f" .diff)"; id="${name%%-*}"
  if ! git -C /repo apply "$PWD/$f" 2>/dev/null; then echo "$name: PATCH DOES NOT APPLY"; continue; fi
  tests="-"
  if [ "${REPO_TESTS:-0}" = "1" ]; then
    if (cd /repo && cargo test --workspace --offline >/tmp/mut-tests.log 2>&1); then tests="repo-tests-pass"; else tests="REPO-TESTS-FAIL"; fi
  fi
  out="$(VERIF_SEED="${VERIF_SEED:-1}" ./check "$id" "${TIER:-quick}" 2>&1)"; rc=$?
  git -C /repo checkout -- .
  sig="$(echo "$out" | grep -m1 'signature:' | sed 's/.*signature: //')"
  echo "$name: exit=$rc $tests sig=$sig"
done
