#!/usr/bin/env bash
# Full regression of the machinery's sensitivity, one background job per family (each family has its own
# persistent scratch copy under /tmp, see scratch_lib.sh; /repo is never touched):
#   tools/regress_all.sh mutants            -> every selftest/mutants/<ID>-*.diff against `<ID> quick`
#   tools/regress_all.sh seeded             -> every seeded/<ID>-<k> re-evaluated (detected_by_check in meta.json rewritten)
#   tools/regress_all.sh robust "1 2 3 4"   -> detection rate of every seeded change over several seeds
# Output: one line per mutant / change on stdout (sorted).
set -u
cd "$(dirname "$0")/.."
mode="${1:-mutants}"; seeds="${2:-1 2 3 4}"
declare -A FAM=( [fam_cw20]="C01 C02 C13 C19" [fam_cw3]="C03 C04 C05 C06 C15" [fam_cw1]="C07 C08 C16 C17" [fam_cw4]="C09 C14" [fam_stake]="C10" [fam_ics20]="C11 C12 C18" [fam_page]="C20" )
tmp="$(mktemp -d /tmp/regress.XXXXXX)"
for pkg in "${!FAM[@]}"; do
  (
    case "$mode" in
      mutants) for id in ${FAM[$pkg]}; do tools/mutants_scratch.sh "$id-*" quick; done ;;
      seeded)  for id in ${FAM[$pkg]}; do for d in seeded/$id-*; do SKIP_REPO_TESTS=1 tools/seeded_eval.sh "$id" "$PWD/$d" "$(basename "$d")" 2>&1 | grep -E "^C[0-9]+-[0-9]+:"; done; done ;;
      robust)  tools/seeded_robust.sh "${FAM[$pkg]}" "$seeds" ;;
    esac
  ) > "$tmp/$pkg.log" 2>&1 &
done
wait
cat "$tmp"/*.log | grep -v "^WARNING conda" | sort -V
rm -rf "$tmp"
