#!/usr/bin/env python3
"""mkmut.py <name> <repo-relative-file> <<< 'OLD\n=====\nNEW'  -> writes selftest/mutants/<name>.diff
Builds the diff in memory from /repo's file; /repo is not touched."""
import sys, difflib, os
name, rel = sys.argv[1], sys.argv[2]
old, new = sys.stdin.read().split("\n=====\n")
new = new.rstrip("\n")
old = old.rstrip("\n") if not old.endswith("\n\n") else old
src = open("/repo/" + rel).read()
assert src.count(old) >= 1, f"{name}: pattern not found in {rel}"
count = int(os.environ.get("COUNT", "1"))
dst = src.replace(old, new, count)
d = "".join(difflib.unified_diff(src.splitlines(True), dst.splitlines(True), "a/" + rel, "b/" + rel))
out = os.path.join(os.path.dirname(os.path.dirname(os.path.abspath(__file__))), "selftest", "mutants", name + ".diff")
open(out, "w").write(d)
print(name, "ok", len(d))
