# shared helpers for running checks against a patched scratch copy of /repo (never touches /repo).
# One persistent scratch per family package: /tmp/vscratch-<pkg>/{repo,harness,root}. Files are synced
# by checksum WITHOUT preserving mtimes, so every file whose content changes gets a fresh mtime and
# cargo's mtime-based fingerprints can never reuse an artifact built from a previously patched source.
V="$(cd "$(dirname "${BASH_SOURCE[0]}")/.." && pwd)"
# harness sources to test with; VERIF_HARNESS_SRC may point at an exported snapshot of a commit so that the
# working copy can be edited while a long evaluation runs
HSRC="${VERIF_HARNESS_SRC:-$V/harness}"
# VERIF_SCRATCH_TAG selects a second, independent set of scratch copies (so that an evaluation can run while a
# long regression occupies the default set)
TAG="${VERIF_SCRATCH_TAG:-}"

fam_of() { grep -E "^\s+[C0-9|]+\) echo fam_" "$V/check" | while read -r line; do ids="${line%%)*}"; pkg="${line##*echo }"; pkg="${pkg%% *}"; for i in ${ids//|/ }; do [ "$i" = "$1" ] && echo "$pkg"; done; done; }

scratch_prepare() { # $1 = pkg ; sets S
  S="/tmp/vscratch$TAG-$1"
  mkdir -p "$S/repo" "$S/harness" "$S/root"
  rsync -rlpgoD --checksum --delete --exclude target --exclude .git /repo/ "$S/repo/"
  rsync -rlpgoD --checksum --delete --exclude 'target*' --exclude /Cargo.toml "$HSRC/" "$S/harness/"
  sed "s#/repo/#$S/repo/#" "$HSRC/Cargo.toml" > "$S/harness/Cargo.toml.new"
  if cmp -s "$S/harness/Cargo.toml.new" "$S/harness/Cargo.toml"; then rm "$S/harness/Cargo.toml.new"; else mv "$S/harness/Cargo.toml.new" "$S/harness/Cargo.toml"; fi
  rm -rf "$S/root"; mkdir -p "$S/root"; cp "$V/known_findings.json" "$S/root/" 2>/dev/null
}

scratch_build() { # $1 = pkg
  (cd "$S/harness" && CARGO_TARGET_DIR="/tmp/vscratch-target$TAG-$1" cargo build --release --offline -p "$1" >"$S/build.log" 2>&1)
}

scratch_run() { # $1 = pkg $2 = id $3 = tier ; prints output, returns rc
  VERIF_ROOT="$S/root" VERIF_SEED="${VERIF_SEED:-1}" "/tmp/vscratch-target$TAG-$1/release/$1" "$2" "$3" 2>&1
}
