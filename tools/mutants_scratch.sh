#!/usr/bin/env bash
# Mutation self-test in a scratch copy (never touches /repo): for each selftest/mutants/<ID>-*.diff
# matching the glob, copy /repo and the harness to a scratch dir, apply the diff, build the family
# binary against the copy and run <ID> quick; expect exit 1. Usage: tools/mutants_scratch.sh '<glob>' [tier]
set -u
cd "$(dirname "$0")/.."
V="$PWD"
pat="${1:-*}"; tier="${2:-quick}"
S="${SCRATCH:-/tmp/vscratch}"
mkdir -p "$S/root"
cp "$V/known_findings.json" "$S/root/" 2>/dev/null
fam_of() { grep -E "^\s+[C0-9|]+\) echo fam_" "$V/check" | while read -r line; do ids="${line%%)*}"; pkg="${line##*echo }"; pkg="${pkg%% *}"; for i in ${ids//|/ }; do [ "$i" = "$1" ] && echo "$pkg"; done; done; }
for f in selftest/mutants/$pat.diff; do
  name="$(basename "$f" .diff)"; id="${name%%-*}"; pkg="$(fam_of "$id")"
  [ -n "$pkg" ] || { echo "$name: no family for $id"; continue; }
  rm -rf "$S/repo" "$S/harness"
  rsync -a --exclude target --exclude .git /repo/ "$S/repo/"
  rsync -a --exclude 'target*' "$V/harness/" "$S/harness/"
  sed -i "s#/repo/#$S/repo/#" "$S/harness/Cargo.toml"
  if ! (cd "$S/repo" && patch -p1 -s < "$V/$f"); then echo "$name: PATCH DOES NOT APPLY"; continue; fi
  tests="-"
  if [ "${REPO_TESTS:-0}" = "1" ]; then
    if (cd "$S/repo" && CARGO_TARGET_DIR="${TMPTARGET:-/tmp/mut-target}-repo" cargo test --workspace --offline >"$S/tests.log" 2>&1); then tests="repo-tests-pass"; else tests="REPO-TESTS-FAIL"; fi
  fi
  if ! (cd "$S/harness" && CARGO_TARGET_DIR="${TMPTARGET:-/tmp/mut-target}-$pkg" cargo build --release --offline -p "$pkg" >"$S/build.log" 2>&1); then echo "$name: BUILD FAILED"; grep -E "^error" -A 6 "$S/build.log" | head -20; continue; fi
  out="$(VERIF_ROOT="$S/root" VERIF_SEED="${VERIF_SEED:-1}" "${TMPTARGET:-/tmp/mut-target}-$pkg/release/$pkg" "$id" "$tier" 2>&1)"; rc=$?
  sig="$(echo "$out" | grep -m1 'signature:' | sed 's/.*signature: //')"
  echo "$name: exit=$rc $tests sig=$sig"
  [ "$rc" = "1" ] || echo "$out" | tail -3 | sed 's/^/    /'
done
rm -rf "$S"
