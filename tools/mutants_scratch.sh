#!/usr/bin/env bash
# Mutation self-test in a scratch copy (never touches /repo): for each selftest/mutants/<ID>-*.diff matching
# the glob: apply it to the family's scratch copy of /repo, build the family binary against the copy, run
# <ID> quick (or the given tier), expect exit 1, revert. Usage: tools/mutants_scratch.sh '<glob>' [tier]
set -u
source "$(dirname "$0")/scratch_lib.sh"
cd "$V"
pat="${1:-*}"; tier="${2:-quick}"
for f in selftest/mutants/$pat.diff; do
  name="$(basename "$f" .diff)"; id="${name%%-*}"; pkg="$(fam_of "$id")"
  [ -n "$pkg" ] || { echo "$name: no family for $id"; continue; }
  scratch_prepare "$pkg"
  if ! (cd "$S/repo" && patch -p1 -s < "$V/$f"); then echo "$name: PATCH DOES NOT APPLY"; (cd "$S/repo" && patch -p1 -R -s -f < "$V/$f" >/dev/null 2>&1); continue; fi
  tests="-"
  if [ "${REPO_TESTS:-0}" = "1" ]; then
    if (cd "$S/repo" && CARGO_TARGET_DIR="/tmp/vscratch-target-repo-$pkg" cargo test --workspace --offline >"$S/tests.log" 2>&1); then tests="repo-tests-pass"; else tests="REPO-TESTS-FAIL"; fi
  fi
  if scratch_build "$pkg"; then
    out="$(scratch_run "$pkg" "$id" "$tier")"; rc=$?
    sig="$(echo "$out" | grep -m1 'signature:' | sed 's/.*signature: //')"
    echo "$name: exit=$rc $tests sig=$sig"
    [ "$rc" = "1" ] || echo "$out" | grep -v KNOWN-FINDING | tail -3 | sed 's/^/    /'
  else
    echo "$name: BUILD FAILED"; grep -E "^error" -A 6 "$S/build.log" | head -20
  fi
  (cd "$S/repo" && patch -p1 -R -s < "$V/$f")
done
