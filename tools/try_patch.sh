#!/usr/bin/env bash
# tools/try_patch.sh <ID> <patch.diff> [tier]: run check <ID> against /repo + patch in the family's scratch copy; prints the verdict
set -u
source "$(dirname "$0")/scratch_lib.sh"
id="$1"; patch="$2"; tier="${3:-quick}"; pkg="$(fam_of "$id")"
scratch_prepare "$pkg"
(cd "$S/repo" && patch -p1 -s < "$patch") || { echo "patch does not apply"; exit 3; }
if scratch_build "$pkg"; then scratch_run "$pkg" "$id" "$tier" | grep -v KNOWN-FINDING | tail -4 | cut -c1-500; else echo BUILD-FAILED; grep -E "^error" -A 6 "$S/build.log" | head; fi
(cd "$S/repo" && patch -p1 -R -s < "$patch")
