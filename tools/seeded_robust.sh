#!/usr/bin/env bash
# Detection robustness of the quick tier: for each seeded change of the given ids, run `<ID> quick` with
# several seeds against the patched scratch copy. Usage: tools/seeded_robust.sh "<ids>" "<seeds>"
set -u
source "$(dirname "$0")/scratch_lib.sh"
cd "$V"
ids="$1"; seeds="${2:-1 2 3}"
for id in $ids; do
  pkg="$(fam_of "$id")"
  for d in seeded/$id-*; do
    name="$(basename "$d")"
    scratch_prepare "$pkg"
    (cd "$S/repo" && patch -p1 -s < "$V/$d/patch.diff") || { echo "$name: patch does not apply"; continue; }
    hits=0; total=0; sigs=""
    if scratch_build "$pkg"; then
      for s in $seeds; do
        out="$(VERIF_SEED=$s scratch_run "$pkg" "$id" quick)"; rc=$?
        total=$((total+1)); [ "$rc" = "1" ] && hits=$((hits+1))
      done
      echo "$name: $hits/$total"
    else
      echo "$name: BUILD-FAILED"
    fi
    (cd "$S/repo" && patch -p1 -R -s < "$V/$d/patch.diff")
  done
done
