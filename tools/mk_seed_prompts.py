#!/usr/bin/env python3
"""Write the task files for one round of independent breaking-change authors.
usage: tools/mk_seed_prompts.py <round> [ids...]
Creates /tmp/seedprompts<round>/<ID>.txt (the complete task text handed to a fresh sub-agent) and a
detached scratch worktree /tmp/seed<round>-<ID>/wt of /repo for each property. The task text contains
only the property (from properties.jsonl) and one-line summaries of the earlier changes for it (so
that mechanisms are not repeated) - nothing about how /verif checks the property."""
import json, os, subprocess, sys, glob

rnd = sys.argv[1]
only = set(sys.argv[2:])
V = os.path.dirname(os.path.dirname(os.path.abspath(__file__)))
props = [json.loads(l) for l in open(f"{V}/properties.jsonl")]
outdir = f"/tmp/seedprompts{rnd}"
os.makedirs(outdir, exist_ok=True)
for p in props:
    pid = p["id"]
    if only and pid not in only:
        continue
    base = f"/tmp/seed{rnd}-{pid}"
    os.makedirs(f"{base}/out", exist_ok=True)
    if not os.path.isdir(f"{base}/wt"):
        subprocess.run(["git", "-C", "/repo", "worktree", "add", "--detach", f"{base}/wt", "HEAD"], check=True, stdout=subprocess.DEVNULL, stderr=subprocess.DEVNULL)
    earlier = []
    for d in sorted(glob.glob(f"{V}/seeded/{pid}-*")):
        m = json.load(open(f"{d}/meta.json"))
        earlier.append(f"- {m['summary']} (needed: {m['needs']})")
    a = p["anchors"]
    text = f"""You are helping evaluate a verification suite by writing REALISTIC, HARD-TO-NOTICE BUGS. You work ONLY inside your own scratch git worktree of the CosmWasm/cw-plus repository at {base}/wt (a detached checkout; the repository builds and tests fully offline with `cargo test --workspace --offline`; there is no network). Do NOT read or touch /verif or /repo, and do not look outside {base} (reading dependency sources under ~/.cargo/registry is fine). Use `export CARGO_TARGET_DIR={base}/target` for every cargo command so your build output stays in your directory.

THE PROPERTY (it should always hold for this codebase):

id: {pid}
title: {p['title']}
statement: {p['statement']}
quantified over: {p['quantifier']['text']}
why the existing tests cannot settle it: {p['why_tests_cant']}
code anchors: files {a['files']}; mechanisms {json.dumps(a['mechanism'])}

Earlier rounds already produced the following changes for this property - do NOT repeat any of their mechanisms or code sites. Look for what they all missed: a different contract, package or entry point the property also covers (instantiate, migrate, queries, reply handlers, helper packages shared by several contracts), a different clause of the statement (re-read every sentence of the statement and of the quantifier and pick clauses none of these touch), a different kind of trigger:
{chr(10).join(earlier)}

YOUR TASK: produce TWO further independent changes (different from each other and from everything above) to the repository source (non-test code under contracts/ or packages/) such that for each change:
 1. the workspace still compiles and the ENTIRE existing test suite still passes unedited (`cargo test --workspace --offline`) - verify this yourself;
 2. the change BREAKS the property above (makes its statement false for some input / history / configuration) - it must contradict the statement as written, not merely change behaviour the statement is silent about;
 3. it looks like something a maintainer could plausibly write (a refactoring, an optimisation, a "fix", a new convenience) and is hard to trigger: it needs a conjunction of conditions (specific value relations such as equality / zero / boundary / values near 2^64 or 2^128; a specific order of several calls by specific actors; a specific block/time relation; a sub-call failing at one point; an unusual but legal configuration; leftovers of an earlier call; a self-referential address; the same address in two roles; duplicates inside one list argument; an upgrade from an older stored version). It must NOT show up in ordinary single-call use;
 4. you provide a DEMONSTRATION: a new Rust test (a new `#[test]` in the relevant crate's test module, or a new file under that crate's `tests/` directory) that FAILS with your change applied and PASSES on the unchanged code. Verify both directions yourself.

Never use `git stash` (the stash is shared between worktrees); save diffs to files and use `git apply` / `git apply -R` instead. Work on one change at a time starting from a clean worktree (`git checkout -- . && git clean -fd` between them; never commit). For each change k in (1, 2) write into {base}/out/change<k>/ :
   * patch.diff - `git diff` of the source change ONLY (not the demonstration), applicable with `git apply` at the repository root;
   * demo.diff - `git diff` of the demonstration test ONLY (applicable on top of the unchanged tree AND on top of patch.diff);
   * meta.json - {{"property": "{pid}", "summary": "<one sentence: what the change does>", "needs": "<what specific input/sequence/config/fault is needed for it to manifest>", "demo_cmd": "<exact cargo test command that runs the demonstration, without any cd or CARGO_TARGET_DIR prefix>", "ran": "<what you ran and observed>"}}.
When done, leave the worktree clean (git checkout -- . && git clean -fd) and delete {base}/target. Final answer: a short summary of the two changes and your verification results. If you can only find one good change, deliver one; if you find none that truly contradicts the statement, say so.
"""
    open(f"{outdir}/{pid}.txt", "w").write(text)
    print(pid, len(earlier), "earlier changes listed")
